"""STATE: hidden-state lints shared by several properties.

A property that quantifies over *all inputs / all call histories* is broken by any state
that survives a call: (a) a mutable default argument that is mutated or handed out, (b) a
module-level container written by a function (ad-hoc caches keyed by something that does
not identify the value), (c) ``global``/``nonlocal`` rebinding, (d) an attribute cache on
an argument object outside the allow-listed, hasattr-guarded memo attributes.
Expected count on the pinned tree is zero, so every run also checks an embedded positive
example (see ``self_check``).
"""
from __future__ import annotations

import ast
from typing import Iterable, List, Optional, Sequence

from .astutil import body_walk, dotted, norm, short, walk_local
from .model import FuncInfo, Repo

MUTABLE_CTORS = {"dict", "list", "set", "defaultdict", "OrderedDict", "Counter", "deque"}

_POSITIVE = '''
_CACHE = {}
def f(x, table={}):
    table[x] = 1
    _CACHE[x] = table
    return table
def g(x):
    global _COUNT
    _COUNT = x
'''


def mutable_defaults(fi: FuncInfo) -> List[ast.AST]:
    a = fi.node.args
    out = []
    for dflt in list(a.defaults) + [d for d in a.kw_defaults if d is not None]:
        if isinstance(dflt, (ast.Dict, ast.List, ast.Set, ast.ListComp, ast.DictComp, ast.SetComp)):
            out.append(dflt)
        elif isinstance(dflt, ast.Call) and (dotted(dflt.func) or "").split(".")[-1] in MUTABLE_CTORS:
            out.append(dflt)
    return out


def global_statements(fi: FuncInfo) -> List[ast.AST]:
    return [n for n in body_walk(fi.node) if isinstance(n, (ast.Global, ast.Nonlocal))]


def argument_attribute_writes(fi: FuncInfo) -> List[ast.AST]:
    """stores to an attribute of a parameter object (``arg.x = ...``, ``setattr(arg, ...)``, ``arg.__dict__[...] = ...``)"""
    a = fi.node.args
    params = {p.arg for p in list(a.posonlyargs) + list(a.args) + list(a.kwonlyargs)} - {"self", "cls"}
    out: List[ast.AST] = []
    for n in body_walk(fi.node):
        if isinstance(n, ast.Attribute) and isinstance(n.ctx, (ast.Store, ast.Del)) and isinstance(n.value, ast.Name) and n.value.id in params:
            out.append(n)
        elif isinstance(n, ast.Subscript) and isinstance(n.ctx, (ast.Store, ast.Del)) and isinstance(n.value, ast.Attribute) and n.value.attr == "__dict__" and isinstance(n.value.value, ast.Name) and n.value.value.id in params:
            out.append(n)
        elif isinstance(n, ast.Call) and dotted(n.func) in ("setattr", "object.__setattr__") and n.args and isinstance(n.args[0], ast.Name) and n.args[0].id in params:
            out.append(n)
    return out


def receiver_attribute_writes(fi: FuncInfo) -> List[ast.AST]:
    """stores to an attribute of the receiver (``self.x = ...``, tuple targets included, ``setattr(self, ...)``) in a method"""
    a = fi.node.args
    first = (list(a.posonlyargs) + list(a.args))[:1]
    if fi.cls is None or not first:
        return []
    me = first[0].arg
    out: List[ast.AST] = []
    for n in body_walk(fi.node):
        if isinstance(n, ast.Attribute) and isinstance(n.ctx, (ast.Store, ast.Del)) and isinstance(n.value, ast.Name) and n.value.id == me:
            out.append(n)
        elif isinstance(n, ast.Call) and dotted(n.func) in ("setattr", "object.__setattr__") and n.args and isinstance(n.args[0], ast.Name) and n.args[0].id == me:
            out.append(n)
    return out


def check_hidden_state(ctx, rule: str, funcs: Sequence[FuncInfo], eff=None, allow_globals: Iterable[str] = (), argument_caches: bool = False, receiver_caches: bool = False):
    """One obligation per function: no mutable default, no global rebinding, no write to
    module-level state (from the effect summaries when ``eff`` is given)."""
    allow = set(allow_globals)
    for fi in funcs:
        ctx.analysed(fi)
        problems = []
        for d in mutable_defaults(fi):
            problems.append((f"mutable default argument {short(d)}: it is shared by all calls, so results depend on earlier calls", getattr(d, "lineno", fi.node.lineno)))
        for g in global_statements(fi):
            problems.append((f"`{short(g)}` rebinding module state from inside a function", g.lineno))
        if argument_caches:
            for w in argument_attribute_writes(fi):
                problems.append((f"stores `{short(w)}` on an argument object: a result cached on the operand survives later changes of the operand, so the conversion no longer depends on the operand's current value only", getattr(w, "lineno", fi.node.lineno)))
        if receiver_caches:
            for w in receiver_attribute_writes(fi):
                problems.append((f"stores `{short(w)}` on the receiver: the receiver is mutable and can be copied, so a result remembered on it outlives the value it was computed from", getattr(w, "lineno", fi.node.lineno)))
        if eff is not None:
            for gname, sites in eff.summary(fi).globals_mutated.items():
                if gname in allow or gname.startswith("lru:"):
                    continue
                for s in sites:
                    if not s.via:
                        problems.append((f"writes module-level state `{gname}` ({s.text}): results then depend on what was computed before (e.g. a cache whose key does not identify the value)", int(s.where.split(":")[-1])))
        if problems:
            for msg, line in problems:
                ctx.violation(rule, f"{fi.key}:hidden-state:{msg[:50]}", f"{fi.qualname}: {msg}", f"{fi.module.relpath}:{line}")
        else:
            ctx.ok(rule, f"{fi.key}:hidden-state", "no mutable default, no global rebinding, no write to module-level state", fi)


def self_check() -> bool:
    """The embedded positive example must be seen by the syntactic parts of the lint."""
    tree = ast.parse(_POSITIVE)

    class _M:
        relpath = "<positive>"
        name = "<positive>"

    found_default = found_global = False
    for n in tree.body:
        if isinstance(n, ast.FunctionDef):
            fi = FuncInfo(module=_M(), cls=None, name=n.name, qualname=n.name, node=n)
            found_default |= bool(mutable_defaults(fi))
            found_global |= bool(global_statements(fi))
    return found_default and found_global
