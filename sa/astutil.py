"""Small AST helpers shared by all rules (stdlib only)."""
from __future__ import annotations

import ast
from typing import Iterable, Iterator, List, Optional, Sequence, Tuple

FUNC_NODES = (ast.FunctionDef, ast.AsyncFunctionDef)
SCOPE_NODES = (ast.FunctionDef, ast.AsyncFunctionDef, ast.Lambda, ast.ClassDef)


def norm(node: Optional[ast.AST]) -> str:
    """Normalised source text of a node (formatting- and comment-insensitive)."""
    if node is None:
        return ""
    try:
        return ast.unparse(node)
    except Exception:  # pragma: no cover - defensive
        return ast.dump(node)


def short(node: Optional[ast.AST], limit: int = 110) -> str:
    text = " ".join(norm(node).split())
    return text if len(text) <= limit else text[: limit - 3] + "..."


def walk_local(node: ast.AST, include_root: bool = True) -> Iterator[ast.AST]:
    """Walk a subtree without descending into nested function/class scopes.

    Lambdas and comprehensions are descended into (they execute in place).
    """
    stack = [node]
    first = True
    while stack:
        cur = stack.pop()
        if not first and isinstance(cur, (ast.FunctionDef, ast.AsyncFunctionDef, ast.ClassDef)):
            continue
        if include_root or not first:
            yield cur
        first = False
        stack.extend(reversed(list(ast.iter_child_nodes(cur))))


def body_walk(func: ast.AST) -> Iterator[ast.AST]:
    """All nodes of a function body (excluding nested defs' bodies, decorators, args)."""
    for stmt in getattr(func, "body", []):
        if isinstance(stmt, (ast.FunctionDef, ast.AsyncFunctionDef, ast.ClassDef)):
            yield stmt  # the definition statement itself, not its body
            continue
        yield from walk_local(stmt)


def calls_in(node: ast.AST) -> List[ast.Call]:
    return [n for n in walk_local(node) if isinstance(n, ast.Call)]


def dotted(expr: ast.AST) -> Optional[str]:
    """'a.b.c' for a Name/Attribute chain, else None."""
    parts: List[str] = []
    cur = expr
    while isinstance(cur, ast.Attribute):
        parts.append(cur.attr)
        cur = cur.value
    if isinstance(cur, ast.Name):
        parts.append(cur.id)
        return ".".join(reversed(parts))
    return None


def call_name(call: ast.Call) -> Optional[str]:
    """Dotted name of the callee if it is a plain Name/Attribute chain."""
    return dotted(call.func)


def last_attr(expr: ast.AST) -> Optional[str]:
    if isinstance(expr, ast.Attribute):
        return expr.attr
    if isinstance(expr, ast.Name):
        return expr.id
    return None


def const_value(node: ast.AST):
    """Python value of a literal constant expression, else raises ValueError."""
    if isinstance(node, ast.Constant):
        return node.value
    if isinstance(node, ast.UnaryOp) and isinstance(node.op, (ast.USub, ast.UAdd)):
        v = const_value(node.operand)
        if isinstance(v, (int, float, complex)):
            return -v if isinstance(node.op, ast.USub) else v
    raise ValueError("not a constant")


def is_const(node: ast.AST, value=None) -> bool:
    try:
        v = const_value(node)
    except ValueError:
        return False
    return True if value is None else (v == value and type(v) is type(value) or v == value)


def const_str(node: ast.AST) -> Optional[str]:
    if isinstance(node, ast.Constant) and isinstance(node.value, str):
        return node.value
    return None


def names_in(node: ast.AST) -> set:
    return {n.id for n in walk_local(node) if isinstance(n, ast.Name)}


def loads_in(node: ast.AST) -> set:
    return {
        n.id
        for n in walk_local(node)
        if isinstance(n, ast.Name) and isinstance(n.ctx, ast.Load)
    }


def target_names(target: ast.AST) -> List[str]:
    """Names bound by an assignment/for/with target (flattening tuples/starred)."""
    out: List[str] = []
    if isinstance(target, ast.Name):
        out.append(target.id)
    elif isinstance(target, (ast.Tuple, ast.List)):
        for elt in target.elts:
            out.extend(target_names(elt))
    elif isinstance(target, ast.Starred):
        out.extend(target_names(target.value))
    return out


def param_names(func: ast.AST) -> List[str]:
    a = func.args
    names = [x.arg for x in list(a.posonlyargs) + list(a.args)]
    if a.vararg:
        names.append(a.vararg.arg)
    names += [x.arg for x in a.kwonlyargs]
    if a.kwarg:
        names.append(a.kwarg.arg)
    return names


def positional_params(func: ast.AST) -> List[str]:
    a = func.args
    return [x.arg for x in list(a.posonlyargs) + list(a.args)]


def decorator_names(node: ast.AST) -> List[str]:
    out = []
    for d in getattr(node, "decorator_list", []):
        target = d.func if isinstance(d, ast.Call) else d
        name = dotted(target)
        if name:
            out.append(name)
    return out


def parent_map(root: ast.AST) -> dict:
    parents = {}
    for node in ast.walk(root):
        for child in ast.iter_child_nodes(node):
            parents[child] = node
    return parents


def enclosing(node: ast.AST, parents: dict, types) -> Optional[ast.AST]:
    cur = parents.get(node)
    while cur is not None:
        if isinstance(cur, types):
            return cur
        cur = parents.get(cur)
    return None


def ancestors(node: ast.AST, parents: dict) -> Iterator[ast.AST]:
    cur = parents.get(node)
    while cur is not None:
        yield cur
        cur = parents.get(cur)


def strip_docstring(body: Sequence[ast.stmt]) -> List[ast.stmt]:
    body = list(body)
    if body and isinstance(body[0], ast.Expr) and isinstance(body[0].value, ast.Constant) and isinstance(body[0].value.value, str):
        return body[1:]
    return body


def returns_in(func: ast.AST) -> List[ast.Return]:
    return [n for n in body_walk(func) if isinstance(n, ast.Return)]


def raises_in(node: ast.AST) -> List[ast.Raise]:
    return [n for n in walk_local(node) if isinstance(n, ast.Raise)]


def raised_exception_name(r: ast.Raise) -> Optional[str]:
    exc = r.exc
    if exc is None:
        return None
    if isinstance(exc, ast.Call):
        return dotted(exc.func)
    return dotted(exc)


def is_name(node: ast.AST, name: str) -> bool:
    return isinstance(node, ast.Name) and node.id == name


def is_attr_of(node: ast.AST, base: str, attr: str) -> bool:
    return (
        isinstance(node, ast.Attribute)
        and node.attr == attr
        and isinstance(node.value, ast.Name)
        and node.value.id == base
    )


def kwarg(call: ast.Call, name: str) -> Optional[ast.AST]:
    for kw in call.keywords:
        if kw.arg == name:
            return kw.value
    return None


def arg_or_kw(call: ast.Call, index: int, name: str) -> Optional[ast.AST]:
    """Positional argument `index` or keyword `name` of a call (no star-args support)."""
    if index < len(call.args) and not any(isinstance(a, ast.Starred) for a in call.args[: index + 1]):
        return call.args[index]
    return kwarg(call, name)


class NotLiteral(Exception):
    pass


def fold_literal(node: ast.AST, env: Optional[dict] = None, consts: Optional[dict] = None, depth: int = 0):
    """Constant-fold a *data* expression built from literals only: displays, comprehensions over literal
    iterables, ``ord/chr/len/str/int/float/complex/tuple/list/range/zip/enumerate/sorted/reversed``,
    ``itertools.product/permutations/combinations``, arithmetic, comparisons, conditional expressions, names of
    other module-level literals (``consts``: name -> ast). Raises NotLiteral for anything else. Only literal data
    written in the source is combined; no function of the repository is involved."""
    import itertools

    env = env or {}
    consts = consts or {}
    if depth > 40:
        raise NotLiteral("too deep")
    ev = lambda n, e=None: fold_literal(n, env if e is None else e, consts, depth + 1)  # noqa: E731
    if isinstance(node, ast.Constant):
        return node.value
    if isinstance(node, ast.Name):
        if node.id in env:
            return env[node.id]
        if node.id in consts:
            return fold_literal(consts[node.id], {}, {k: v for k, v in consts.items() if k != node.id}, depth + 1)
        raise NotLiteral(f"name {node.id}")
    if isinstance(node, (ast.Tuple, ast.List, ast.Set)):
        vals = []
        for e in node.elts:
            if isinstance(e, ast.Starred):
                vals.extend(ev(e.value))
            else:
                vals.append(ev(e))
        return tuple(vals) if isinstance(node, ast.Tuple) else (list(vals) if isinstance(node, ast.List) else set(vals))
    if isinstance(node, ast.Dict):
        out = {}
        for k, v in zip(node.keys, node.values):
            if k is None:
                out.update(ev(v))
            else:
                out[ev(k)] = ev(v)
        return out
    if isinstance(node, ast.UnaryOp):
        v = ev(node.operand)
        if isinstance(node.op, ast.USub):
            return -v
        if isinstance(node.op, ast.UAdd):
            return +v
        if isinstance(node.op, ast.Not):
            return not v
        raise NotLiteral("unary")
    if isinstance(node, ast.BinOp):
        l, r = ev(node.left), ev(node.right)
        try:
            if isinstance(node.op, ast.Add):
                return l + r
            if isinstance(node.op, ast.Sub):
                return l - r
            if isinstance(node.op, ast.Mult):
                return l * r
            if isinstance(node.op, ast.Div):
                return l / r
            if isinstance(node.op, ast.FloorDiv):
                return l // r
            if isinstance(node.op, ast.Mod):
                return l % r
            if isinstance(node.op, ast.Pow) and isinstance(r, (int, float)) and abs(r) < 64:
                return l ** r
        except Exception as e:  # noqa
            raise NotLiteral(str(e))
        raise NotLiteral("binop")
    if isinstance(node, ast.BoolOp):
        vals = [ev(v) for v in node.values]
        res = vals[0]
        for v in vals[1:]:
            res = (res and v) if isinstance(node.op, ast.And) else (res or v)
        return res
    if isinstance(node, ast.Compare):
        left = ev(node.left)
        for op, c in zip(node.ops, node.comparators):
            right = ev(c)
            ok = {ast.Eq: lambda a, b: a == b, ast.NotEq: lambda a, b: a != b, ast.Lt: lambda a, b: a < b, ast.LtE: lambda a, b: a <= b, ast.Gt: lambda a, b: a > b, ast.GtE: lambda a, b: a >= b, ast.In: lambda a, b: a in b, ast.NotIn: lambda a, b: a not in b, ast.Is: lambda a, b: a is b, ast.IsNot: lambda a, b: a is not b}[type(op)](left, right)
            if not ok:
                return False
            left = right
        return True
    if isinstance(node, ast.IfExp):
        return ev(node.body) if ev(node.test) else ev(node.orelse)
    if isinstance(node, ast.Subscript):
        base = ev(node.value)
        if isinstance(node.slice, ast.Slice):
            lo = ev(node.slice.lower) if node.slice.lower else None
            hi = ev(node.slice.upper) if node.slice.upper else None
            st = ev(node.slice.step) if node.slice.step else None
            return base[lo:hi:st]
        try:
            return base[ev(node.slice)]
        except Exception as e:  # noqa
            raise NotLiteral(str(e))
    if isinstance(node, ast.JoinedStr):
        out = ""
        for v in node.values:
            if isinstance(v, ast.Constant):
                out += str(v.value)
            elif isinstance(v, ast.FormattedValue) and v.conversion == -1 and v.format_spec is None:
                out += str(ev(v.value))
            else:
                raise NotLiteral("format spec")
        return out
    if isinstance(node, (ast.ListComp, ast.SetComp, ast.GeneratorExp, ast.DictComp)):
        results = []

        def rec(i, e):
            if i == len(node.generators):
                if isinstance(node, ast.DictComp):
                    results.append((fold_literal(node.key, e, consts, depth + 1), fold_literal(node.value, e, consts, depth + 1)))
                else:
                    results.append(fold_literal(node.elt, e, consts, depth + 1))
                return
            g = node.generators[i]
            for item in fold_literal(g.iter, e, consts, depth + 1):
                e2 = dict(e)
                _bind_target(g.target, item, e2)
                if all(fold_literal(c, e2, consts, depth + 1) for c in g.ifs):
                    rec(i + 1, e2)
                if len(results) > 100000:
                    raise NotLiteral("too large")

        rec(0, dict(env))
        if isinstance(node, ast.DictComp):
            return dict(results)
        if isinstance(node, ast.SetComp):
            return set(results)
        return list(results)
    if isinstance(node, ast.Call):
        d = (dotted(node.func) or "").split(".")[-1]
        args = [ev(a) for a in node.args if not isinstance(a, ast.Starred)]
        if any(isinstance(a, ast.Starred) for a in node.args):
            raise NotLiteral("star args")
        kw = {k.arg: ev(k.value) for k in node.keywords}
        simple = {"ord": ord, "chr": chr, "len": len, "str": str, "int": int, "float": float, "complex": complex, "tuple": tuple, "list": list, "set": set, "frozenset": frozenset, "dict": dict,
                  "sorted": sorted, "reversed": lambda x: list(reversed(x)), "zip": lambda *a: list(zip(*a)), "enumerate": lambda x, start=0: list(enumerate(x, start)), "range": lambda *a: list(range(*a)),
                  "abs": abs, "min": min, "max": max, "sum": sum, "round": round, "bool": bool}
        try:
            if d in simple:
                return simple[d](*args, **kw)
            if d == "product":
                return list(itertools.product(*args, **kw))
            if d == "permutations":
                return list(itertools.permutations(*args, **kw))
            if d == "combinations":
                return list(itertools.combinations(*args, **kw))
            if isinstance(node.func, ast.Attribute) and node.func.attr in ("join", "upper", "lower", "split", "index", "items", "keys", "values", "get") :
                recv = ev(node.func.value)
                res = getattr(recv, node.func.attr)(*args, **kw)
                return list(res) if node.func.attr in ("items", "keys", "values") else res
        except NotLiteral:
            raise
        except Exception as e:  # noqa
            raise NotLiteral(str(e))
        raise NotLiteral(f"call {d}")
    raise NotLiteral(type(node).__name__)


def _bind_target(target: ast.AST, value, env: dict) -> None:
    if isinstance(target, ast.Name):
        env[target.id] = value
    elif isinstance(target, (ast.Tuple, ast.List)):
        vals = list(value)
        if len(vals) != len(target.elts):
            raise NotLiteral("unpack")
        for t, v in zip(target.elts, vals):
            _bind_target(t, v, env)
    else:
        raise NotLiteral("target")


def literal_to_ast(value) -> ast.AST:
    if isinstance(value, dict):
        return ast.Dict(keys=[literal_to_ast(k) for k in value], values=[literal_to_ast(v) for v in value.values()])
    if isinstance(value, list):
        return ast.List(elts=[literal_to_ast(v) for v in value], ctx=ast.Load())
    if isinstance(value, tuple):
        return ast.Tuple(elts=[literal_to_ast(v) for v in value], ctx=ast.Load())
    if isinstance(value, (set, frozenset)):
        return ast.Set(elts=[literal_to_ast(v) for v in sorted(value, key=repr)])
    return ast.Constant(value=value)
