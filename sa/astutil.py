"""Small AST helpers shared by all rules (stdlib only)."""
from __future__ import annotations

import ast
from typing import Iterable, Iterator, List, Optional, Sequence, Tuple

FUNC_NODES = (ast.FunctionDef, ast.AsyncFunctionDef)
SCOPE_NODES = (ast.FunctionDef, ast.AsyncFunctionDef, ast.Lambda, ast.ClassDef)


def norm(node: Optional[ast.AST]) -> str:
    """Normalised source text of a node (formatting- and comment-insensitive)."""
    if node is None:
        return ""
    try:
        return ast.unparse(node)
    except Exception:  # pragma: no cover - defensive
        return ast.dump(node)


def short(node: Optional[ast.AST], limit: int = 110) -> str:
    text = " ".join(norm(node).split())
    return text if len(text) <= limit else text[: limit - 3] + "..."


def walk_local(node: ast.AST, include_root: bool = True) -> Iterator[ast.AST]:
    """Walk a subtree without descending into nested function/class scopes.

    Lambdas and comprehensions are descended into (they execute in place).
    """
    stack = [node]
    first = True
    while stack:
        cur = stack.pop()
        if not first and isinstance(cur, (ast.FunctionDef, ast.AsyncFunctionDef, ast.ClassDef)):
            continue
        if include_root or not first:
            yield cur
        first = False
        stack.extend(reversed(list(ast.iter_child_nodes(cur))))


def body_walk(func: ast.AST) -> Iterator[ast.AST]:
    """All nodes of a function body (excluding nested defs' bodies, decorators, args)."""
    for stmt in getattr(func, "body", []):
        if isinstance(stmt, (ast.FunctionDef, ast.AsyncFunctionDef, ast.ClassDef)):
            yield stmt  # the definition statement itself, not its body
            continue
        yield from walk_local(stmt)


def calls_in(node: ast.AST) -> List[ast.Call]:
    return [n for n in walk_local(node) if isinstance(n, ast.Call)]


def dotted(expr: ast.AST) -> Optional[str]:
    """'a.b.c' for a Name/Attribute chain, else None."""
    parts: List[str] = []
    cur = expr
    while isinstance(cur, ast.Attribute):
        parts.append(cur.attr)
        cur = cur.value
    if isinstance(cur, ast.Name):
        parts.append(cur.id)
        return ".".join(reversed(parts))
    return None


def call_name(call: ast.Call) -> Optional[str]:
    """Dotted name of the callee if it is a plain Name/Attribute chain."""
    return dotted(call.func)


def last_attr(expr: ast.AST) -> Optional[str]:
    if isinstance(expr, ast.Attribute):
        return expr.attr
    if isinstance(expr, ast.Name):
        return expr.id
    return None


def const_value(node: ast.AST):
    """Python value of a literal constant expression, else raises ValueError."""
    if isinstance(node, ast.Constant):
        return node.value
    if isinstance(node, ast.UnaryOp) and isinstance(node.op, (ast.USub, ast.UAdd)):
        v = const_value(node.operand)
        if isinstance(v, (int, float, complex)):
            return -v if isinstance(node.op, ast.USub) else v
    raise ValueError("not a constant")


def is_const(node: ast.AST, value=None) -> bool:
    try:
        v = const_value(node)
    except ValueError:
        return False
    return True if value is None else (v == value and type(v) is type(value) or v == value)


def const_str(node: ast.AST) -> Optional[str]:
    if isinstance(node, ast.Constant) and isinstance(node.value, str):
        return node.value
    return None


def names_in(node: ast.AST) -> set:
    return {n.id for n in walk_local(node) if isinstance(n, ast.Name)}


def loads_in(node: ast.AST) -> set:
    return {
        n.id
        for n in walk_local(node)
        if isinstance(n, ast.Name) and isinstance(n.ctx, ast.Load)
    }


def target_names(target: ast.AST) -> List[str]:
    """Names bound by an assignment/for/with target (flattening tuples/starred)."""
    out: List[str] = []
    if isinstance(target, ast.Name):
        out.append(target.id)
    elif isinstance(target, (ast.Tuple, ast.List)):
        for elt in target.elts:
            out.extend(target_names(elt))
    elif isinstance(target, ast.Starred):
        out.extend(target_names(target.value))
    return out


def param_names(func: ast.AST) -> List[str]:
    a = func.args
    names = [x.arg for x in list(a.posonlyargs) + list(a.args)]
    if a.vararg:
        names.append(a.vararg.arg)
    names += [x.arg for x in a.kwonlyargs]
    if a.kwarg:
        names.append(a.kwarg.arg)
    return names


def positional_params(func: ast.AST) -> List[str]:
    a = func.args
    return [x.arg for x in list(a.posonlyargs) + list(a.args)]


def decorator_names(node: ast.AST) -> List[str]:
    out = []
    for d in getattr(node, "decorator_list", []):
        target = d.func if isinstance(d, ast.Call) else d
        name = dotted(target)
        if name:
            out.append(name)
    return out


def parent_map(root: ast.AST) -> dict:
    parents = {}
    for node in ast.walk(root):
        for child in ast.iter_child_nodes(node):
            parents[child] = node
    return parents


def enclosing(node: ast.AST, parents: dict, types) -> Optional[ast.AST]:
    cur = parents.get(node)
    while cur is not None:
        if isinstance(cur, types):
            return cur
        cur = parents.get(cur)
    return None


def ancestors(node: ast.AST, parents: dict) -> Iterator[ast.AST]:
    cur = parents.get(node)
    while cur is not None:
        yield cur
        cur = parents.get(cur)


def strip_docstring(body: Sequence[ast.stmt]) -> List[ast.stmt]:
    body = list(body)
    if body and isinstance(body[0], ast.Expr) and isinstance(body[0].value, ast.Constant) and isinstance(body[0].value.value, str):
        return body[1:]
    return body


def returns_in(func: ast.AST) -> List[ast.Return]:
    return [n for n in body_walk(func) if isinstance(n, ast.Return)]


def raises_in(node: ast.AST) -> List[ast.Raise]:
    return [n for n in walk_local(node) if isinstance(n, ast.Raise)]


def raised_exception_name(r: ast.Raise) -> Optional[str]:
    exc = r.exc
    if exc is None:
        return None
    if isinstance(exc, ast.Call):
        return dotted(exc.func)
    return dotted(exc)


def is_name(node: ast.AST, name: str) -> bool:
    return isinstance(node, ast.Name) and node.id == name


def is_attr_of(node: ast.AST, base: str, attr: str) -> bool:
    return (
        isinstance(node, ast.Attribute)
        and node.attr == attr
        and isinstance(node.value, ast.Name)
        and node.value.id == base
    )


def kwarg(call: ast.Call, name: str) -> Optional[ast.AST]:
    for kw in call.keywords:
        if kw.arg == name:
            return kw.value
    return None


def arg_or_kw(call: ast.Call, index: int, name: str) -> Optional[ast.AST]:
    """Positional argument `index` or keyword `name` of a call (no star-args support)."""
    if index < len(call.args) and not any(isinstance(a, ast.Starred) for a in call.args[: index + 1]):
        return call.args[index]
    return kwarg(call, name)
