"""Regression runner over the stored patch corpora (not a check).

    /venv/bin/python -m sa.regress [--dir /verif/seeded|/verif/benign|<dir>] [--props C01,C02] [--ids a,b] [--jobs 16] [--own] [-v]

Each sub-directory with a patch.diff is applied *in memory* to the current /repo sources; every selected
property check is evaluated on the result. For `seeded` corpora the expectation is a violation by the
seed's own property (meta.json "property"); for `benign` corpora the expectation is silence everywhere.
"""
from __future__ import annotations

import argparse
import glob
import json
import os
import sys
from concurrent.futures import ProcessPoolExecutor


def _one(args):
    d, props, root = args
    if props == ["OWN"]:
        try:
            props = [json.load(open(os.path.join(d, "meta.json"))).get("property") or os.path.basename(d)[:3]]
        except Exception:
            props = [os.path.basename(d)[:3]]
    from .check import evaluate
    from .report import VIOLATION, UNDECIDED, load_known
    from .selftest import _seed_overrides

    sid = os.path.basename(d)
    ov = _seed_overrides(root, os.path.join(d, "patch.diff"))
    if ov is None:
        return sid, None, {}
    known = {(k["property"], k["key"]) for k in load_known().get("known", [])}
    out = {}
    for p in props:
        status, obligations, msg = evaluate(p, root, ov)
        viol = [o for o in obligations if o.status == VIOLATION and (p, o.key) not in known]
        und = [o for o in obligations if o.status == UNDECIDED]
        st = "violation" if viol else ("error" if (status == "error" or und) else "pass")
        out[p] = (st, [f"{o.rule.split(' ')[0]} {o.construct.split(':', 1)[-1][:70]} :: {o.detail[:160]}" for o in (viol or und)[:3]] + ([msg[:200]] if st == "error" and not und else []))
    try:
        target = json.load(open(os.path.join(d, "meta.json"))).get("property")
    except Exception:
        target = sid[:3]
    return sid, target, out


def main(argv=None):
    ap = argparse.ArgumentParser()
    ap.add_argument("--dir", default=None)
    ap.add_argument("--props", default=None)
    ap.add_argument("--ids", default=None)
    ap.add_argument("--jobs", type=int, default=16)
    ap.add_argument("--repo", default="/repo")
    ap.add_argument("-v", action="store_true")
    ap.add_argument("--own", action="store_true", help="seeded corpora: evaluate only the seed's own property (20 times cheaper)")
    a = ap.parse_args(argv)
    verif = os.path.dirname(os.path.dirname(os.path.abspath(__file__)))
    dirs = [a.dir] if a.dir else [os.path.join(verif, "seeded"), os.path.join(verif, "benign")]
    allprops = sorted(os.path.basename(p)[:-3].upper() for p in glob.glob(os.path.join(verif, "sa", "props", "c*.py")))
    props = a.props.split(",") if a.props else allprops
    if a.own:
        props = ["OWN"]
    rc = 0
    for base in dirs:
        benign = "benign" in os.path.basename(os.path.normpath(base))
        ds = sorted(x for x in glob.glob(os.path.join(base, "*")) if os.path.exists(os.path.join(x, "patch.diff")))
        if a.ids:
            want = set(a.ids.split(","))
            ds = [x for x in ds if os.path.basename(x) in want]
        if not ds:
            continue
        with ProcessPoolExecutor(max_workers=a.jobs) as ex:
            res = list(ex.map(_one, [(d, props, a.repo) for d in ds], chunksize=1))
        n_ok = 0
        for sid, target, out in res:
            if target is None:
                print(f"{sid:8s} SKIP patch does not apply")
                continue
            bad = {p: v for p, v in out.items() if v[0] != "pass"}
            if benign:
                verdict = "silent" if not bad else ("FALSE-ALARM" if any(v[0] == "violation" for v in bad.values()) else "UNDECIDED")
                ok = not bad
            else:
                own = out.get(target, ("n/a", []))[0] if (target in props or props == ["OWN"]) else "n/a"
                ok = own == "violation" or own == "n/a"
                verdict = "caught" if own == "violation" else ("(own check not selected)" if own == "n/a" else f"MISSED(own={own})")
            n_ok += ok
            if not ok or a.v:
                print(f"{sid:8s} {verdict} " + " ".join(f"{p}={v[0]}" for p, v in bad.items()))
                for p, v in bad.items():
                    if (benign or p == target) and (not ok):
                        for l in v[1][:2]:
                            print(f"          {p}: {l}")
            if not ok:
                rc = 1
        print(f"[regress] {os.path.basename(os.path.normpath(base))}: {n_ok}/{len(res)} as expected")
    return rc


if __name__ == "__main__":
    sys.exit(main())
