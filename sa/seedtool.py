"""Maintenance helper for /verif/seeded (not a check).

    /venv/bin/python -m sa.seedtool import <seed-out-dir> <verified-dir>   # copy confirmed seeds into /verif/seeded
    /venv/bin/python -m sa.seedtool run [--jobs N]                          # run every check against every seed, update caught_by

`run` applies each seeded patch to a scratch git worktree of /repo's HEAD (under $TMPDIR, removed
afterwards), never to /repo itself, and runs the checks with --repo pointing at it.
"""
from __future__ import annotations

import glob
import json
import os
import shutil
import subprocess
import sys
import tempfile
from concurrent.futures import ThreadPoolExecutor

VERIF = os.path.dirname(os.path.dirname(os.path.abspath(__file__)))
SEEDED = os.path.join(VERIF, "seeded")


def sh(cmd, **kw):
    return subprocess.run(cmd, shell=True, capture_output=True, text=True, **kw)


def do_import(src_root: str, verified: str):
    os.makedirs(SEEDED, exist_ok=True)
    for vf in sorted(glob.glob(os.path.join(verified, "*.json"))):
        v = json.load(open(vf))
        sid = v["id"]
        pid, tag = sid.split("-")
        src = os.path.join(src_root, pid, tag)
        ok = v.get("demo_clean_exit") == 0 and v.get("demo_patched_exit") == 1 and v.get("suite_exit") == 0 and v.get("apply_ok")
        if not ok:
            print("skip (not confirmed):", sid)
            continue
        dst = os.path.join(SEEDED, sid)
        os.makedirs(dst, exist_ok=True)
        shutil.copy(os.path.join(src, "patch.diff"), os.path.join(dst, "patch.diff"))
        shutil.copy(os.path.join(src, "demo.py"), os.path.join(dst, "demo.py"))
        try:
            am = json.load(open(os.path.join(src, "meta.json")))
        except Exception:
            am = {}
        meta = {
            "id": sid,
            "property": pid,
            "files": v.get("files", am.get("files")),
            "what": am.get("what"),
            "manifests_when": am.get("manifests_when"),
            "origin": "written by an independent sub-agent that saw only the property text and a scratch worktree (nothing from /verif)",
            "confirmed": {
                "how": "fresh scratch worktree of /repo HEAD; demo run with PYTHONPATH=<worktree>/src before and after `git apply patch.diff`; pinned suite (2464 stable tests) run with the patch applied",
                "demo_exit_clean_tree": v.get("demo_clean_exit"),
                "demo_exit_with_patch": v.get("demo_patched_exit"),
                "demo_output_with_patch_tail": v.get("demo_patched_tail", "")[-400:],
                "suite_with_patch": v.get("suite_out"),
            },
        }
        json.dump(meta, open(os.path.join(dst, "meta.json"), "w"), indent=1)
        print("imported", sid)


def run_one(sid: str):
    d = os.path.join(SEEDED, sid)
    wt = tempfile.mkdtemp(prefix=f"seed-{sid}-")
    os.rmdir(wt)
    ev = tempfile.mkdtemp(prefix=f"seedev-{sid}-")
    try:
        r = sh(f"git -C /repo worktree add -q --detach {wt} HEAD")
        if r.returncode != 0:
            return sid, None, r.stderr
        a = sh(f"git -C {wt} apply {d}/patch.diff")
        if a.returncode != 0:
            return sid, None, "patch does not apply: " + a.stderr[-200:]
        props = sorted(os.path.basename(p)[:-3].upper() for p in glob.glob(os.path.join(VERIF, "sa", "props", "c*.py")))
        out = {}
        for p in props:
            c = sh(f"cd {VERIF} && SA_EVIDENCE_DIR={ev} /venv/bin/python -m sa.check {p} --repo {wt}")
            out[p] = {"exit": c.returncode, "reports": [l.strip()[:400] for l in c.stdout.splitlines() if l.strip().startswith(("violation:", "ANALYSIS-ERROR"))][:3]}
        return sid, out, ""
    finally:
        sh(f"git -C /repo worktree remove --force {wt}")
        shutil.rmtree(ev, ignore_errors=True)
        shutil.rmtree(wt, ignore_errors=True)


def do_run(jobs: int):
    sids = sorted(os.path.basename(p) for p in glob.glob(os.path.join(SEEDED, "*")) if os.path.isdir(p))
    rows = []
    with ThreadPoolExecutor(max_workers=jobs) as ex:
        for sid, out, err in ex.map(run_one, sids):
            if out is None:
                print(sid, "ERROR", err)
                continue
            mp = os.path.join(SEEDED, sid, "meta.json")
            meta = json.load(open(mp))
            caught = [p for p, v in out.items() if v["exit"] == 1]
            undecided = [p for p, v in out.items() if v["exit"] == 2]
            meta["checks"] = {
                "caught_by": caught,
                "analysis_error_in": undecided,
                "own_property_check_catches_it": meta["property"] in caught,
                "reports": {p: out[p]["reports"] for p in caught + undecided},
            }
            json.dump(meta, open(mp, "w"), indent=1)
            rows.append((sid, meta["property"], caught, undecided))
            print(sid, "caught_by", caught, "analysis_error_in", undecided)
    n_own = sum(1 for _, p, c, _ in rows if p in c)
    n_any = sum(1 for _, _, c, _ in rows if c)
    print(f"seeds={len(rows)} caught by own property's check={n_own} caught by some check={n_any}")
    json.dump({"seeds": len(rows), "caught_by_own_check": n_own, "caught_by_any_check": n_any, "rows": [{"id": s, "property": p, "caught_by": c, "analysis_error_in": u} for s, p, c, u in rows]}, open(os.path.join(SEEDED, "SUMMARY.json"), "w"), indent=1)


if __name__ == "__main__":
    if sys.argv[1] == "import":
        do_import(sys.argv[2], sys.argv[3])
    else:
        jobs = int(sys.argv[sys.argv.index("--jobs") + 1]) if "--jobs" in sys.argv else 8
        do_run(jobs)
