"""EXPPOLY: exact normal forms for the closed-form matrix tables of circuits/_matrices.py.

The matrix factories are straight-line literal tables built from numbers, ``i``, ``sqrt(2)``,
``pi``, the real gate parameters and ``exp / cos / sin`` of affine forms in them. This module
constant-folds such a table into the ring

    R  =  { sum_k  p_k(params) * exp(i * L_k(params, pi)) }

with ``p_k`` a polynomial over the number field K = Q(i, sqrt 2) and ``L_k`` a rational linear
form. Exponentials with distinct real frequencies are linearly independent over polynomials,
so two tables denote the same function of the (real) parameters iff their normal forms are
equal: identities such as ``M * M^dagger = 1`` or ``M(a) * M(b) = M(a + b)`` are *decided*, not
sampled. Nothing of the repository is imported or executed; only literals extracted from the
syntax tree are folded. A construct outside this fragment raises ``Undecided`` (the caller
reports ANALYSIS-ERROR, never a guess).
"""
from __future__ import annotations

import ast
from fractions import Fraction
from typing import Callable, Dict, List, Optional, Sequence, Tuple, Union

from .astutil import dotted, norm, short, strip_docstring


class Undecided(Exception):
    pass


# ----------------------------------------------------------------------------- field K = Q(i, sqrt2)
class K:
    """a + b*sqrt2 + i*(c + d*sqrt2) with rational a, b, c, d."""

    __slots__ = ("a", "b", "c", "d")

    def __init__(self, a=0, b=0, c=0, d=0):
        self.a, self.b, self.c, self.d = Fraction(a), Fraction(b), Fraction(c), Fraction(d)

    def key(self):
        return (self.a, self.b, self.c, self.d)

    def __eq__(self, o):
        return isinstance(o, K) and self.key() == o.key()

    def __hash__(self):
        return hash(self.key())

    def is_zero(self):
        return not (self.a or self.b or self.c or self.d)

    def __add__(self, o):
        return K(self.a + o.a, self.b + o.b, self.c + o.c, self.d + o.d)

    def __neg__(self):
        return K(-self.a, -self.b, -self.c, -self.d)

    def __sub__(self, o):
        return self + (-o)

    def __mul__(self, o):
        # (x + i y)(x' + i y') with x = a + b s, s^2 = 2
        def m(p, q, r, t):  # (p + q s)(r + t s)
            return (p * r + 2 * q * t, p * t + q * r)

        xr = m(self.a, self.b, o.a, o.b)
        yy = m(self.c, self.d, o.c, o.d)
        xy = m(self.a, self.b, o.c, o.d)
        yx = m(self.c, self.d, o.a, o.b)
        return K(xr[0] - yy[0], xr[1] - yy[1], xy[0] + yx[0], xy[1] + yx[1])

    def conj(self):
        return K(self.a, self.b, -self.c, -self.d)

    def inv(self):
        if self.is_zero():
            raise Undecided("division by zero constant")
        n = self * self.conj()  # real: p + q s
        p, q = n.a, n.b
        den = p * p - 2 * q * q
        if den == 0:
            raise Undecided("non-invertible constant")
        rinv = K(p / den, -q / den)
        return self.conj() * rinv

    def is_real(self):
        return self.c == 0 and self.d == 0

    def is_rational(self):
        return self.b == 0 and self.c == 0 and self.d == 0

    def __repr__(self):
        parts = []
        for v, s in ((self.a, ""), (self.b, "*sqrt2"), (self.c, "*i"), (self.d, "*i*sqrt2")):
            if v:
                parts.append(f"{v}{s}")
        return "(" + " + ".join(parts) + ")" if parts else "0"


K0, K1, KI, KS = K(0), K(1), K(0, 0, 1), K(0, 1)

# e^{i pi r} for r = k/4
_S = Fraction(1, 2)
_EIGHTH = [K(1), K(0, _S, 0, _S), K(0, 0, 1), K(0, -_S, 0, _S), K(-1), K(0, -_S, 0, -_S), K(0, 0, -1), K(0, _S, 0, -_S)]

Mono = Tuple[Tuple[str, int], ...]
Lin = Tuple[Tuple[str, Fraction, Fraction], ...]  # (variable, real part, imaginary part) of the exponent's coefficient


def _mono_mul(a: Mono, b: Mono) -> Mono:
    d = dict(a)
    for k, e in b:
        d[k] = d.get(k, 0) + e
    return tuple(sorted((k, e) for k, e in d.items() if e))


def _lin_add(a: Lin, b: Lin, sign=1) -> Lin:
    d = {k: (re, im) for k, re, im in a}
    for k, re, im in b:
        r0, i0 = d.get(k, (Fraction(0), Fraction(0)))
        d[k] = (r0 + sign * re, i0 + sign * im)
    return tuple(sorted((k, re, im) for k, (re, im) in d.items() if re or im))


def _lin_conj(a: Lin) -> Lin:
    return tuple((k, re, -im) for k, re, im in a)


def _lin_neg(a: Lin) -> Lin:
    return tuple((k, -re, -im) for k, re, im in a)


class EP:
    """Element of R: {(exponent Lin, monomial) -> K}."""

    __slots__ = ("t",)

    def __init__(self, terms: Optional[Dict[Tuple[Lin, Mono], K]] = None):
        self.t: Dict[Tuple[Lin, Mono], K] = {}
        if terms:
            for (lin, mono), c in terms.items():
                self._put(lin, mono, c)

    def _put(self, lin: Lin, mono: Mono, c: K):
        # fold e^{i pi r}: r mod 2, multiples of 1/4 go into the coefficient
        d = {k: (re, im) for k, re, im in lin}
        pr = d.pop("pi", None)
        if pr is not None:
            pre, r = pr
            r = r % 2
            if (r * 4).denominator == 1:
                c = c * _EIGHTH[int(r * 4) % 8]
                r = Fraction(0)
            if r or pre:
                d["pi"] = (pre, r)
            lin = tuple(sorted((k, re, im) for k, (re, im) in d.items()))
        if c.is_zero():
            return
        key = (lin, mono)
        cur = self.t.get(key)
        new = c if cur is None else cur + c
        if new.is_zero():
            self.t.pop(key, None)
        else:
            self.t[key] = new

    # -- constructors
    @staticmethod
    def const(c: K) -> "EP":
        return EP({((), ()): c})

    @staticmethod
    def var(name: str) -> "EP":
        return EP({((), ((name, 1),)): K1})

    # -- ring
    def __add__(self, o: "EP") -> "EP":
        out = EP()
        out.t = dict(self.t)
        for (lin, mono), c in o.t.items():
            out._put(lin, mono, c)
        return out

    def __neg__(self):
        out = EP()
        out.t = {k: -c for k, c in self.t.items()}
        return out

    def __sub__(self, o):
        return self + (-o)

    def __mul__(self, o: "EP") -> "EP":
        out = EP()
        for (l1, m1), c1 in self.t.items():
            for (l2, m2), c2 in o.t.items():
                out._put(_lin_add(l1, l2), _mono_mul(m1, m2), c1 * c2)
        return out

    def conj(self) -> "EP":
        """Complex conjugate under the assumption that every parameter is real."""
        out = EP()
        for (lin, mono), c in self.t.items():
            out._put(_lin_conj(lin), mono, c.conj())
        return out

    def inv(self) -> "EP":
        if len(self.t) != 1:
            raise Undecided("division by an expression that is not a single non-vanishing term (it may vanish for some real parameters)")
        ((lin, mono), c), = self.t.items()
        if mono:
            raise Undecided("division by a parameter (vanishes at 0)")
        return EP({(_lin_neg(lin), ()): c.inv()})

    def is_zero(self):
        return not self.t

    def __eq__(self, o):
        return isinstance(o, EP) and self.t == o.t

    def __hash__(self):  # pragma: no cover
        return hash(tuple(sorted((repr(k), v.key()) for k, v in self.t.items())))

    def as_const(self) -> Optional[K]:
        if not self.t:
            return K0
        if len(self.t) == 1 and ((), ()) in self.t:
            return self.t[((), ())]
        return None

    def as_affine(self) -> Optional[Dict[str, K]]:
        """{var: coefficient} (var '' = constant) when free of exponentials and of degree <= 1."""
        out: Dict[str, K] = {}
        for (lin, mono), c in self.t.items():
            if lin:
                return None
            if not mono:
                out[""] = c
            elif len(mono) == 1 and mono[0][1] == 1:
                out[mono[0][0]] = c
            else:
                return None
        return out

    def subst(self, mapping: Dict[str, "EP"]) -> "EP":
        """Substitute parameters (in monomials and exponents) by affine real forms."""
        out = EP()
        for (lin, mono), c in self.t.items():
            term = EP.const(c)
            new_lin: Lin = ()
            for var, cre, cim in lin:
                if var in mapping:
                    aff = mapping[var].as_affine()
                    if aff is None:
                        raise Undecided("substitution of a non-affine form into an exponent")
                    for v, kc in aff.items():
                        if not kc.is_rational():
                            raise Undecided("non-rational substitution into an exponent")
                        if v == "":
                            if kc.a != 0:
                                raise Undecided("constant phase in substitution")
                            continue
                        new_lin = _lin_add(new_lin, ((v, kc.a * cre, kc.a * cim),))
                else:
                    new_lin = _lin_add(new_lin, ((var, cre, cim),))
            term = term * EP({(new_lin, ()): K1})
            for var, e in mono:
                rep = mapping.get(var, EP.var(var))
                for _ in range(e):
                    term = term * rep
            out = out + term
        return out

    def __repr__(self):
        if not self.t:
            return "0"
        parts = []
        for (lin, mono), c in sorted(self.t.items(), key=lambda kv: repr(kv[0])):
            s = repr(c)
            if mono:
                s += "*" + "*".join(f"{v}" + (f"^{e}" if e != 1 else "") for v, e in mono)
            if lin:
                s += "*exp(" + " + ".join(f"({re}+{im}i)*{v}" for v, re, im in lin) + ")"
            parts.append(s)
        return " + ".join(parts)


def ep_exp(arg: EP) -> EP:
    aff = arg.as_affine()
    if aff is None:
        raise Undecided("exp of a non-affine argument")
    lin: Lin = ()
    for v, c in aff.items():
        if not (c.b == 0 and c.d == 0):
            raise Undecided(f"exp argument has an irrational coefficient for '{v or '1'}'")
        if v == "":
            if c.c != 0 or c.a != 0:
                raise Undecided("exp(r) / exp(i*r) for a non-zero rational constant r is not representable")
            continue
        lin = _lin_add(lin, ((v, c.a, c.c),))
    return EP({(lin, ()): K1})


def _real_lin(arg: EP, what: str) -> Lin:
    aff = arg.as_affine()
    if aff is None:
        raise Undecided(f"{what} of a non-affine argument")
    lin: Lin = ()
    for v, c in aff.items():
        if not c.is_rational():
            raise Undecided(f"{what} argument with a non-rational coefficient")
        if v == "":
            if c.a != 0:
                raise Undecided(f"{what}(rational constant) is not representable")
            continue
        lin = _lin_add(lin, ((v, Fraction(0), c.a),))
    return lin


def ep_cos(arg: EP) -> EP:
    lin = _real_lin(arg, "cos")
    neg = _lin_neg(lin)
    half = K(Fraction(1, 2))
    return EP({(lin, ()): half}) + EP({(neg, ()): half})


def ep_sin(arg: EP) -> EP:
    lin = _real_lin(arg, "sin")
    neg = _lin_neg(lin)
    c = K(0, 0, Fraction(-1, 2))  # 1/(2i) = -i/2
    return EP({(lin, ()): c}) + EP({(neg, ()): -c})


def _sqrt_rational(q: Fraction) -> K:
    """sqrt of a non-negative rational of the form (p/q) * {1, 2} with p, q perfect squares."""
    if q < 0:
        r = _sqrt_rational(-q)
        return r * KI
    for two in (Fraction(1), Fraction(2)):
        r = q / two
        n, d = r.numerator, r.denominator
        rn, rd = _isqrt(n), _isqrt(d)
        if rn is not None and rd is not None:
            base = Fraction(rn, rd)
            return K(base) if two == 1 else K(0, base)
    raise Undecided(f"sqrt({q}) is outside Q(i, sqrt 2)")


def _isqrt(n: int) -> Optional[int]:
    import math

    if n < 0:
        return None
    r = math.isqrt(n)
    return r if r * r == n else None


def ep_pow(base: EP, expo: EP) -> EP:
    e = expo.as_const()
    if e is None or not e.is_rational():
        raise Undecided("power with a non-constant or non-rational exponent")
    q = e.a
    if q.denominator == 1:
        n = int(q)
        b = base
        if n < 0:
            b = base.inv()
            n = -n
        out = EP.const(K1)
        for _ in range(n):
            out = out * b
        return out
    if q.denominator == 2:
        bc = base.as_const()
        if bc is None or not bc.is_rational():
            raise Undecided("fractional power of a non-rational base")
        root = EP.const(_sqrt_rational(bc.a))
        return ep_pow(root, EP.const(K(q.numerator)))
    raise Undecided("fractional power other than a square root")


# ----------------------------------------------------------------------------- matrices
class Mat:
    def __init__(self, rows: List[List[EP]]):
        self.rows = rows

    @property
    def shape(self) -> Tuple[int, int]:
        return (len(self.rows), len(self.rows[0]) if self.rows else 0)

    def rectangular(self) -> bool:
        return len({len(r) for r in self.rows}) <= 1

    def map(self, f: Callable[[EP], EP]) -> "Mat":
        return Mat([[f(x) for x in r] for r in self.rows])

    def __mul__(self, o):
        if isinstance(o, Mat):
            (r1, c1), (r2, c2) = self.shape, o.shape
            if c1 != r2:
                raise Undecided(f"matrix product of incompatible shapes {self.shape} x {o.shape}")
            out = []
            for i in range(r1):
                row = []
                for j in range(c2):
                    acc = EP()
                    for k in range(c1):
                        acc = acc + self.rows[i][k] * o.rows[k][j]
                    row.append(acc)
                out.append(row)
            return Mat(out)
        return self.map(lambda x: x * o)

    def __add__(self, o: "Mat"):
        if self.shape != o.shape:
            raise Undecided("matrix sum of different shapes")
        return Mat([[a + b for a, b in zip(r1, r2)] for r1, r2 in zip(self.rows, o.rows)])

    def __neg__(self):
        return self.map(lambda x: -x)

    def T(self):
        r, c = self.shape
        return Mat([[self.rows[i][j] for i in range(r)] for j in range(c)])

    def conj(self):
        return self.map(lambda x: x.conj())

    def adjoint(self):
        return self.T().conj()

    def __eq__(self, o):
        return isinstance(o, Mat) and self.shape == o.shape and all(a == b for r1, r2 in zip(self.rows, o.rows) for a, b in zip(r1, r2))

    def first_difference(self, o: "Mat") -> Optional[Tuple[int, int, EP, EP]]:
        for i, (r1, r2) in enumerate(zip(self.rows, o.rows)):
            for j, (a, b) in enumerate(zip(r1, r2)):
                if not (a == b):
                    return i, j, a, b
        return None

    def subst(self, mapping: Dict[str, EP]) -> "Mat":
        return self.map(lambda x: x.subst(mapping))

    @staticmethod
    def identity(n: int) -> "Mat":
        return Mat([[EP.const(K1) if i == j else EP() for j in range(n)] for i in range(n)])

    def kron(self, o: "Mat") -> "Mat":
        (r1, c1), (r2, c2) = self.shape, o.shape
        return Mat([[self.rows[i // r2][j // c2] * o.rows[i % r2][j % c2] for j in range(c1 * c2)] for i in range(r1 * r2)])

    @staticmethod
    def block_diag(a: "Mat", b: "Mat") -> "Mat":
        (r1, c1), (r2, c2) = a.shape, b.shape
        rows = []
        for i in range(r1):
            rows.append(list(a.rows[i]) + [EP() for _ in range(c2)])
        for i in range(r2):
            rows.append([EP() for _ in range(c1)] + list(b.rows[i]))
        return Mat(rows)


Value = Union[EP, Mat]

MATH_MODULES = {"sympy", "np", "numpy", "math", "cmath", "sp"}
IDENTITY_FUNCS = {"simplify", "nsimplify", "expand", "trigsimp", "factor", "float", "complex", "N", "sympify", "S", "Float", "expand_complex", "powsimp", "ImmutableMatrix"}
MATRIX_CTORS = {"Matrix", "array", "asarray", "ImmutableMatrix", "MutableDenseMatrix"}


class Evaluator:
    """Folds one matrix factory (and the factories it calls) into a ``Mat``.

    ``resolve(call) -> (ast.FunctionDef, name) | None`` resolves a call to a function of the
    repository (supplied by the caller from the program model)."""

    def __init__(self, resolve: Callable[[ast.Call], Optional[Tuple[ast.AST, str]]]):
        self.resolve = resolve
        self.depth = 0
        self.calls: List[str] = []
        # (function name, parameter, period) for every `p = remainder(p, period)`-style pre-reduction of a parameter:
        # the fold treats it as the identity and the caller must show the folded table is periodic with that period
        self.reductions: List[Tuple[str, str, "EP"]] = []
        # (function name, parameter, value, answer, ast of the test) for every leading `if p == c: return E` special case of a
        # factory: the fold continues with the general closed form and the caller must show that E equals it at p = c
        self.special_cases: List[Tuple[str, str, "EP", Value, ast.AST]] = []

    def _reduction(self, stmt: ast.stmt, env) -> Optional[Tuple[str, "EP"]]:
        """``p = math.remainder(p, P)`` / ``math.fmod`` / ``np.mod`` / ``np.remainder`` / ``p % P`` / ``p %= P``"""
        if isinstance(stmt, ast.AugAssign) and isinstance(stmt.op, ast.Mod) and isinstance(stmt.target, ast.Name):
            return stmt.target.id, self.ev(stmt.value, env)
        if isinstance(stmt, ast.Assign) and len(stmt.targets) == 1 and isinstance(stmt.targets[0], ast.Name):
            name, v = stmt.targets[0].id, stmt.value
            if isinstance(v, ast.BinOp) and isinstance(v.op, ast.Mod) and isinstance(v.left, ast.Name) and v.left.id == name:
                return name, self.ev(v.right, env)
            if isinstance(v, ast.Call) and (dotted(v.func) or "").split(".")[-1] in ("remainder", "fmod", "mod") and len(v.args) == 2 and isinstance(v.args[0], ast.Name) and v.args[0].id == name:
                return name, self.ev(v.args[1], env)
        return None

    def _reduction_helper(self, call_func: ast.AST, env) -> Optional["EP"]:
        """period P when the named repository function is `x -> x % P` (possibly only for numbers: `x % P if isinstance(x, ...)
        else x`, or under an `if isinstance(...)`), else None"""
        probe = ast.Call(func=call_func, args=[], keywords=[])
        r = self.resolve(probe) if isinstance(call_func, (ast.Name, ast.Attribute)) else None
        if r is None:
            return None
        fn = r[0]
        ps = [a.arg for a in fn.args.args]
        if len(ps) != 1:
            return None
        x = ps[0]
        body = strip_docstring(fn.body)

        def mod_of(e):
            if isinstance(e, ast.IfExp) and "isinstance" in norm(e.test):
                a, b = mod_of(e.body), mod_of(e.orelse)
                if a is not None and norm(e.orelse) == x:
                    return a
                if b is not None and norm(e.body) == x:
                    return b
                return None
            if isinstance(e, ast.BinOp) and isinstance(e.op, ast.Mod) and norm(e.left) == x:
                return self.ev(e.right, {})
            if isinstance(e, ast.Call) and (dotted(e.func) or "").split(".")[-1] in ("remainder", "fmod", "mod") and len(e.args) == 2 and norm(e.args[0]) == x:
                return self.ev(e.args[1], {})
            return None

        if len(body) == 1 and isinstance(body[0], ast.Return) and body[0].value is not None:
            return mod_of(body[0].value)
        if len(body) == 2 and isinstance(body[0], ast.If) and "isinstance" in norm(body[0].test) and len(body[0].body) == 1 and isinstance(body[0].body[0], ast.Return) and isinstance(body[1], ast.Return) and norm(body[1].value) == x:
            return mod_of(body[0].body[0].value)
        return None

    def run(self, func: ast.AST, args: Sequence[Value]) -> Value:
        a = func.args
        if a.vararg or a.kwarg or a.kwonlyargs:
            raise Undecided("factory with *args/**kwargs")
        names = [p.arg for p in list(a.posonlyargs) + list(a.args)]
        if len(args) != len(names):
            raise Undecided(f"factory {func.name} takes {len(names)} parameter(s), given {len(args)}")
        env: Dict[str, Value] = dict(zip(names, args))
        self.depth += 1
        if self.depth > 8:
            raise Undecided("factory call chain too deep")
        try:
            for stmt in strip_docstring(func.body):
                if isinstance(stmt, (ast.Assign, ast.AugAssign)) and (stmt.targets[0].id if isinstance(stmt, ast.Assign) and len(stmt.targets) == 1 and isinstance(stmt.targets[0], ast.Name) else getattr(getattr(stmt, "target", None), "id", None)) in names and self._reduction(stmt, env) is not None:
                    name, period = self._reduction(stmt, env)
                    self.reductions.append((func.name, name, period))
                    continue
                if isinstance(stmt, ast.Assign) and len(stmt.targets) == 1 and isinstance(stmt.targets[0], ast.Tuple) and isinstance(stmt.value, ast.Call) and dotted(stmt.value.func) == "map" and len(stmt.value.args) == 2 and isinstance(stmt.value.args[1], (ast.Tuple, ast.List)) and [norm(t) for t in stmt.targets[0].elts] == [norm(a) for a in stmt.value.args[1].elts] and all(norm(t) in names for t in stmt.targets[0].elts):
                    # `a, b = map(helper, (a, b))` with helper = x -> x % P: a pre-reduction of every listed parameter
                    period = self._reduction_helper(stmt.value.args[0], env)
                    if period is None:
                        raise Undecided(f"parameters are rewritten by {short(stmt.value, 60)} before the matrix is built")
                    for t in stmt.targets[0].elts:
                        self.reductions.append((func.name, norm(t), period))
                    continue
                if isinstance(stmt, ast.Assign) and len(stmt.targets) == 1 and isinstance(stmt.targets[0], ast.Name) and stmt.targets[0].id in names and isinstance(stmt.value, ast.Call) and len(stmt.value.args) == 1 and norm(stmt.value.args[0]) == stmt.targets[0].id and self._reduction_helper(stmt.value.func, env) is not None:
                    self.reductions.append((func.name, stmt.targets[0].id, self._reduction_helper(stmt.value.func, env)))
                    continue
                if isinstance(stmt, ast.Assign) and len(stmt.targets) == 1 and isinstance(stmt.targets[0], ast.Name):
                    env[stmt.targets[0].id] = self.ev(stmt.value, env)
                elif isinstance(stmt, ast.AnnAssign) and isinstance(stmt.target, ast.Name) and stmt.value is not None:
                    env[stmt.target.id] = self.ev(stmt.value, env)
                elif isinstance(stmt, ast.Return) and stmt.value is not None:
                    return self.ev(stmt.value, env)
                elif isinstance(stmt, (ast.Pass,)) or (isinstance(stmt, ast.Expr) and isinstance(stmt.value, ast.Constant)):
                    continue
                elif isinstance(stmt, ast.If) and not stmt.orelse and len(stmt.body) == 1 and isinstance(stmt.body[0], ast.Return) and stmt.body[0].value is not None and isinstance(stmt.test, ast.Compare) and len(stmt.test.ops) == 1 and isinstance(stmt.test.ops[0], ast.Eq) and isinstance(stmt.test.left, ast.Name) and stmt.test.left.id in names and isinstance(stmt.test.comparators[0], ast.Constant) and isinstance(stmt.test.comparators[0].value, (int, float)) and not isinstance(stmt.test.comparators[0].value, bool):
                    self.special_cases.append((func.name, stmt.test.left.id, EP.const(_num(stmt.test.comparators[0].value)), self.ev(stmt.body[0].value, dict(env)), stmt))
                    continue
                elif isinstance(stmt, ast.If) and "isinstance" in norm(stmt.test) and len(stmt.body) == 1 and self._reduction(stmt.body[0], env) is not None and all(isinstance(o, ast.Assign) and isinstance(o.value, ast.Name) and norm(o.targets[0]) == o.value.id for o in stmt.orelse):
                    name, period = self._reduction(stmt.body[0], env)
                    self.reductions.append((func.name, name, period))
                    continue
                else:
                    raise Undecided(f"statement outside the closed-form fragment in {func.name}: {short(stmt, 80)}")
            raise Undecided(f"{func.name} has no return on its straight-line path")
        finally:
            self.depth -= 1

    # -- expressions
    def ev(self, e: ast.AST, env: Dict[str, Value]) -> Value:
        if isinstance(e, ast.Constant):
            v = e.value
            if isinstance(v, bool) or not isinstance(v, (int, float, complex)):
                raise Undecided(f"non-numeric constant {v!r}")
            return EP.const(_num(v))
        if isinstance(e, ast.Name):
            if e.id in env:
                return env[e.id]
            ma = getattr(self, "module_assigns", None)
            if ma and e.id in ma and self.depth < 8:
                # a module-level definition (constant / pre-built matrix): folded where it is used
                self.depth += 1
                try:
                    return self.ev(ma[e.id], {})
                finally:
                    self.depth -= 1
            raise Undecided(f"free name {e.id}")
        if isinstance(e, ast.Attribute):
            d = dotted(e) or ""
            parts = d.split(".")
            if len(parts) == 2 and parts[0] in MATH_MODULES:
                if parts[1] == "pi":
                    return EP.var("pi")
                if parts[1] == "I":
                    return EP.const(KI)
            if e.attr in ("H",) :
                m = self.ev(e.value, env)
                if isinstance(m, Mat):
                    return m.adjoint()
            if e.attr == "T":
                m = self.ev(e.value, env)
                if isinstance(m, Mat):
                    return m.T()
            raise Undecided(f"attribute {d or norm(e)}")
        if isinstance(e, ast.UnaryOp):
            v = self.ev(e.operand, env)
            if isinstance(e.op, ast.USub):
                return -v
            if isinstance(e.op, ast.UAdd):
                return v
            raise Undecided("unary operator")
        if isinstance(e, ast.BinOp):
            l, r = self.ev(e.left, env), self.ev(e.right, env)
            return self.binop(e.op, l, r)
        if isinstance(e, ast.Call):
            return self.call(e, env)
        if isinstance(e, (ast.List, ast.Tuple)):
            raise Undecided("bare list outside a matrix constructor")
        raise Undecided(f"expression outside the closed-form fragment: {short(e, 80)}")

    def binop(self, op: ast.operator, l: Value, r: Value) -> Value:
        lm, rm = isinstance(l, Mat), isinstance(r, Mat)
        if isinstance(op, ast.Add):
            if lm != rm:
                raise Undecided("matrix + scalar")
            return l + r
        if isinstance(op, ast.Sub):
            if lm != rm:
                raise Undecided("matrix - scalar")
            return l + (-r)
        if isinstance(op, (ast.Mult, ast.MatMult)):
            if lm:
                return l * r
            if rm:
                return r.map(lambda x: l * x)
            if isinstance(op, ast.MatMult):
                raise Undecided("@ on scalars")
            return l * r
        if isinstance(op, ast.Div):
            if rm:
                raise Undecided("division by a matrix")
            inv = r.inv()
            return l * inv if not lm else l.map(lambda x: x * inv)
        if isinstance(op, ast.Pow):
            if rm:
                raise Undecided("matrix exponent")
            if lm:
                e = r.as_const()
                if e is None or not e.is_rational() or e.a.denominator != 1 or e.a < 0:
                    raise Undecided("matrix power with a non-natural exponent")
                out = Mat.identity(l.shape[0])
                for _ in range(int(e.a)):
                    out = out * l
                return out
            return ep_pow(l, r)
        raise Undecided("binary operator")

    def call(self, e: ast.Call, env: Dict[str, Value]) -> Value:
        d = dotted(e.func)
        base = d.split(".")[-1] if d else None
        if e.keywords and base not in MATRIX_CTORS:
            raise Undecided(f"keyword arguments in {short(e, 60)}")
        # method calls on values
        if isinstance(e.func, ast.Attribute) and (d is None or d.split(".")[0] not in MATH_MODULES) and e.func.attr in ("adjoint", "conjugate", "transpose", "dagger", "simplify", "expand", "evalf", "doit"):
            recv = self.ev(e.func.value, env)
            if isinstance(recv, Mat):
                if e.func.attr in ("adjoint", "dagger"):
                    return recv.adjoint()
                if e.func.attr == "conjugate":
                    return recv.conj()
                if e.func.attr == "transpose":
                    return recv.T()
                return recv
            if e.func.attr == "conjugate":
                return recv.conj()
            return recv
        if base in MATRIX_CTORS and len(e.args) >= 1:
            return self.matrix_literal(e.args[0], env)
        if base in ("exp", "cos", "sin", "sqrt") and len(e.args) == 1 and (d == base or d.split(".")[0] in MATH_MODULES):
            a = self.ev(e.args[0], env)
            if isinstance(a, Mat):
                raise Undecided(f"{base} of a matrix")
            if base == "exp":
                return ep_exp(a)
            if base == "cos":
                return ep_cos(a)
            if base == "sin":
                return ep_sin(a)
            return ep_pow(a, EP.const(K(Fraction(1, 2))))
        if base == "Rational" and len(e.args) == 2:
            p, q = (self.ev(x, env) for x in e.args)
            return p * q.inv()
        if base in ("Integer", "int") and len(e.args) == 1:
            return self.ev(e.args[0], env)
        if base in IDENTITY_FUNCS and len(e.args) == 1:
            return self.ev(e.args[0], env)
        if base in ("eye", "identity") and len(e.args) == 1:
            n = self.ev(e.args[0], env)
            c = n.as_const() if isinstance(n, EP) else None
            if c is None or not c.is_rational() or c.a.denominator != 1:
                raise Undecided("eye(n) with non-literal n")
            return Mat.identity(int(c.a))
        if base in ("kron", "kronecker_product", "TensorProduct") and len(e.args) == 2:
            a, b = (self.ev(x, env) for x in e.args)
            if isinstance(a, Mat) and isinstance(b, Mat):
                return a.kron(b)
        if base == "diag" and e.args and all(not isinstance(x, ast.Starred) for x in e.args):
            vals = [self.ev(x, env) for x in e.args]
            out: Optional[Mat] = None
            for v in vals:
                m = v if isinstance(v, Mat) else Mat([[v]])
                out = m if out is None else Mat.block_diag(out, m)
            return out
        target = self.resolve(e)
        if target is not None:
            func, name = target
            if any(isinstance(x, ast.Starred) for x in e.args):
                raise Undecided("star-args in a factory call")
            self.calls.append(name)
            return self.run(func, [self.ev(x, env) for x in e.args])
        raise Undecided(f"call outside the closed-form fragment: {short(e, 80)}")

    def matrix_literal(self, node: ast.AST, env: Dict[str, Value]) -> Mat:
        if isinstance(node, ast.Name) and node.id in env and isinstance(env[node.id], Mat):
            return env[node.id]
        if not isinstance(node, (ast.List, ast.Tuple)):
            v = self.ev(node, env)
            if isinstance(v, Mat):
                return v
            raise Undecided("matrix constructor argument is not a nested list literal")
        rows: List[List[EP]] = []
        for r in node.elts:
            if not isinstance(r, (ast.List, ast.Tuple)):
                raise Undecided("matrix literal row is not a list")
            row = []
            for x in r.elts:
                v = self.ev(x, env)
                if isinstance(v, Mat):
                    raise Undecided("matrix nested inside a matrix literal")
                row.append(v)
            rows.append(row)
        return Mat(rows)


def _num(v) -> K:
    if isinstance(v, complex):
        return K(_frac(v.real), 0, _frac(v.imag), 0)
    return K(_frac(v))


def _frac(x) -> Fraction:
    if isinstance(x, int):
        return Fraction(x)
    f = Fraction(x)
    g = f.limit_denominator(10**9)
    # a float literal such as 0.5 or 0.25 is exact; 0.7071 stays the rational it spells
    return g if abs(float(g) - x) < 1e-15 else f


def self_check() -> bool:
    """Positive/negative controls: the folding must prove a true identity and refute a false one."""
    src = '''
def rz(a):
    return sympy.Matrix([[sympy.exp(-1j * a / 2), 0], [0, sympy.exp(sympy.I * a / 2)]])
def bad(a):
    return sympy.Matrix([[sympy.cos(a / 2), sympy.sin(a / 2)], [sympy.sin(a / 2), sympy.cos(a / 2)]])
def t():
    return sympy.Matrix([[1, 0], [0, sympy.exp(1j * np.pi / 4)]])
def h():
    return sympy.Matrix([[float(1 / np.sqrt(2)), 2 ** (-0.5)], [1 / sympy.sqrt(2), -1 / np.sqrt(2)]])
'''
    fs = {n.name: n for n in ast.parse(src).body}
    ev = Evaluator(lambda c: None)
    a = EP.var("a")
    rz = ev.run(fs["rz"], [a])
    bad = ev.run(fs["bad"], [a])
    t = ev.run(fs["t"], [])
    h = ev.run(fs["h"], [])
    I2 = Mat.identity(2)
    ok = (rz * rz.adjoint()) == I2 and not ((bad * bad.adjoint()) == I2)
    ok = ok and (t * t * t * t).rows[1][1] == EP.const(K(-1)) and (h * h) == I2
    ab = rz.subst({"a": EP.var("x") + EP.var("y")})
    ok = ok and (rz.subst({"a": EP.var("x")}) * rz.subst({"a": EP.var("y")})) == ab
    return ok
