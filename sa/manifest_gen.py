"""Regenerates /verif/MANIFEST.json from the per-property metadata below.

    /venv/bin/python -m sa.manifest_gen
"""
from __future__ import annotations

import importlib
import json
import os

VERIF = os.path.dirname(os.path.dirname(os.path.abspath(__file__)))
PY = "/venv/bin/python"

# property -> (technique, level text (what is decided), level note (declined + trusted base), design ref)
CLAIMS = {}


def claim(pid, technique, text, note, ref):
    CLAIMS[pid] = dict(technique=technique, text=text, note=note, ref=ref)


TRUSTED = " Trusted base: CPython ast; call resolution by lexical scope/MRO/class-hierarchy analysis; library calls have their documented semantics."

claim(
    "C01",
    "dataflow threading + orientation-parity + field-completeness rules over the AST/CFG",
    "Static analysis (not a proof of the behaviour): decides structural necessary conditions on every path of the anchored functions — state threaded linearly through both simulators in program order with native segments routed by the simulator's own predicate; to_unitary multiplies with odd orientation parity; concatenation keeps max width and left-first order; every circuit-from-circuit construction carries the width; non-gate operations refused; numeric/symbolic embedding paths get identical arguments; _lift_matrix block order and permutation inversion parity. Breaking any of these breaks the property for some circuit.",
    "Declined (not statically decidable here): entry-by-entry equality of the Kronecker/permutation embedding with the textbook operator, MultiPhaseOperation's exp(i theta), numeric vs symbolic value agreement." + TRUSTED,
    "DESIGN.md §3 C01",
)

NOT_YET = "no check registered yet in this commit (machinery under construction; see DESIGN.md §3 for the planned rule)"


def main():
    props = [json.loads(l) for l in open(os.path.join(VERIF, "properties.jsonl"))]
    checks = []
    na = []
    for p in props:
        pid = p["id"]
        if pid in CLAIMS and os.path.exists(os.path.join(VERIF, "sa", "props", pid.lower() + ".py")):
            c = CLAIMS[pid]
            checks.append(
                {
                    "property_id": pid,
                    "quick_cmd": f"{PY} -m sa.check {pid} --tier quick",
                    "thorough_cmd": f"{PY} -m sa.check {pid} --tier thorough",
                    "evidence_file": f"/verif/evidence/{pid}.json",
                    "replay_cmd_template": f"{PY} -m sa.check {pid} --replay {{path}}",
                    "engine": "sa",
                    "level_claimed": {"category": "other", "text": c["text"], "design_ref": c["ref"]},
                    "level_note": c["note"],
                    "technique": "static analysis: " + c["technique"],
                }
            )
        else:
            na.append({"property_id": pid, "reason": NA.get(pid, NOT_YET)})
    manifest = {
        "version": 1,
        "setup_cmd": f"{PY} -m compileall -q sa",
        "hooks": {
            "guard": "ORQUESTRA_QUANTUM_VERIF",
            "enable": "none needed: the checks read /repo's source with ast and never build, import or run it",
            "baseline_off_cmd": "cd /repo && /venv/bin/python -m pytest -ra -q -p no:cacheprovider --timeout=900 --continue-on-collection-errors",
            "source_commits": [],
            "add_only": True,
        },
        "engines": [
            {
                "name": "sa",
                "path": "/verif/sa",
                "serves_properties": [c["property_id"] for c in checks],
                "kind_free_text": "repository-specific static analysis on Python ast: program model with call resolution, statement CFG with dominators, def-use/provenance, alias+mutation effects, JSON record schemas, orientation parity, linear forms; self-test battery of breaking/benign variants analysed in memory",
            }
        ],
        "checks": checks,
        "not_applicable": na,
        "notes": "All checks are static (source only). exit 2 + 'ANALYSIS-ERROR' = the analysis could not decide (anchor vanished / unknown shape / vacuity floor), never a silent pass. Known findings: /verif/known_findings.json.",
    }
    with open(os.path.join(VERIF, "MANIFEST.json"), "w") as f:
        json.dump(manifest, f, indent=1)
    print(f"MANIFEST.json: {len(checks)} checks, {len(na)} not_applicable")


NA = {}

if __name__ == "__main__":
    main()
