"""Regenerates /verif/MANIFEST.json from the per-property metadata below.

    /venv/bin/python -m sa.manifest_gen
"""
from __future__ import annotations

import importlib
import json
import os

VERIF = os.path.dirname(os.path.dirname(os.path.abspath(__file__)))
PY = "/venv/bin/python"

# property -> (technique, level text (what is decided), level note (declined + trusted base), design ref)
CLAIMS = {}


def claim(pid, technique, text, note, ref):
    CLAIMS[pid] = dict(technique=technique, text=text, note=note, ref=ref)


TRUSTED = " Trusted base: CPython ast; call resolution by lexical scope/MRO/class-hierarchy analysis; library calls have their documented semantics; CANON's normalisations are behaviour-preserving (a function that differs from the verified reference may be judged on its canonical normal form, DESIGN.md section 10a)."

TECHNIQUE = {
    "C01": "dataflow threading + orientation-parity + field-completeness rules over AST/CFG",
    "C02": "gate-table extraction, literal-matrix shape/self-adjointness normal forms, exponential-polynomial normal form of the literal matrices, numpy-scalar taint",
    "C03": "exhaustive table evaluation against the Pauli algebra, operand-order dataflow, linear-form evaluation of the dunder methods, effect analysis",
    "C04": "orientation-parity analysis of every bit-order conversion path, sibling-branch agreement",
    "C05": "writer/reader JSON record schema extraction (required vs conditional keys), dispatch exhaustiveness, constructor-slot agreement, iterator-reuse lint",
    "C06": "CFG all-paths-raise, per-class bind dataflow, registry-arm checks, dataclasses.replace/__init__ signature lint, field completeness",
    "C07": "field-completeness of modifier re-association, delegation and matrix-idiom rules, hidden-state lint",
    "C08": "orientation parity, abstract evaluation of the index shift over orderings, width field-completeness, effect analysis, loop-source provenance",
    "C09": "linear-form evaluation of the index map, sibling-branch agreement, CFG guard dominance, empty-accumulator lint",
    "C10": "set-operation idiom recognition, branch-wise linear forms of the denominator, guard dominance, effect analysis",
    "C11": "writer/reader JSON record schema extraction for all artefacts, loader-interface sibling rule, printer-token vs parser-regex inclusion",
    "C12": "CFG dominance of the normalisation check, rollback typestate on the rejecting path, who-writes analysis of the amplitude field, schema",
    "C13": "CFG guard dominance, aggregate idioms, chunk-size agreement, effect analysis of shared result objects",
    "C14": "CFG dominance with abstract (sign-domain) evaluation of guards, reachability from counter writes to rejection points, counter-write discipline, tracker return/record provenance",
    "C15": "partition provenance of index/value lists, allocation length, per-task field provenance, hidden-state lint",
    "C16": "two-sidedness lint on the tolerance guard with CFG dominance, polynomial normal forms of time arguments/shift/factors, palindromic composition structure",
    "C17": "CFG edge-dominance of stores by the validity test, interprocedural effect analysis, syntactic symmetry under argument swap, marginal-structure rules, schema",
    "C18": "rule-chaining dataflow, width field-completeness, PHASE: emitted gate list vs matrix-factory product, production ordering parity",
    "C19": "CFG refusal points, emitted-name vs dialect-table agreement with arity classes, predicate/consumer position agreement, registry coverage",
    "C20": "interprocedural alias + mutation (effect) analysis to a fixpoint over the whole package; frozen-dataclass and copy-on-construct rules",
}


def load_claims():
    for pid, tech in TECHNIQUE.items():
        path = os.path.join(VERIF, "sa", "props", pid.lower() + ".py")
        if not os.path.exists(path):
            continue
        mod = importlib.import_module(f"sa.props.{pid.lower()}")
        note = "Declined / assumed: " + "; ".join(getattr(mod, "ASSUMPTIONS", [])) + "." + TRUSTED
        text = "Static analysis of /repo's source (no execution). Decides necessary conditions of the property on every path of the anchored code, not the behaviour itself: " + mod.EXPLANATION
        claim(pid, tech, text, note, f"DESIGN.md section 3 {pid}")


NOT_YET = "no check registered yet in this commit (machinery under construction; see DESIGN.md §3 for the planned rule)"


def main():
    load_claims()
    props = [json.loads(l) for l in open(os.path.join(VERIF, "properties.jsonl"))]
    checks = []
    na = []
    for p in props:
        pid = p["id"]
        if pid in CLAIMS and os.path.exists(os.path.join(VERIF, "sa", "props", pid.lower() + ".py")):
            c = CLAIMS[pid]
            checks.append(
                {
                    "property_id": pid,
                    "quick_cmd": f"{PY} -m sa.check {pid} --tier quick",
                    "thorough_cmd": f"{PY} -m sa.check {pid} --tier thorough",
                    "evidence_file": f"/verif/evidence/{pid}.json",
                    "replay_cmd_template": f"{PY} -m sa.check {pid} --replay {{path}}",
                    "engine": "sa",
                    "level_claimed": {"category": "other", "text": c["text"], "design_ref": c["ref"]},
                    "level_note": c["note"],
                    "technique": "static analysis: " + c["technique"],
                }
            )
        else:
            na.append({"property_id": pid, "reason": NA.get(pid, NOT_YET)})
    manifest = {
        "version": 1,
        "setup_cmd": f"{PY} -m compileall -q sa",
        "hooks": {
            "guard": "ORQUESTRA_QUANTUM_VERIF",
            "enable": "none needed: the checks read /repo's source with ast and never build, import or run it",
            "baseline_off_cmd": "cd /repo && /venv/bin/python -m pytest -ra -q -p no:cacheprovider --timeout=900 --continue-on-collection-errors",
            "source_commits": [],
            "add_only": True,
        },
        "engines": [
            {
                "name": "sa",
                "path": "/verif/sa",
                "serves_properties": [c["property_id"] for c in checks],
                "kind_free_text": "repository-specific static analysis on Python ast: program model with call resolution, statement CFG with dominators, def-use/provenance, alias+mutation effects, JSON record schemas, orientation parity, linear forms; self-test battery of breaking/benign variants analysed in memory",
            }
        ],
        "checks": checks,
        "not_applicable": na,
        "notes": "All checks are static (source only). exit 2 + 'ANALYSIS-ERROR' = the analysis could not decide (anchor vanished / unknown shape / vacuity floor), never a silent pass. Known findings: /verif/known_findings.json.",
    }
    with open(os.path.join(VERIF, "MANIFEST.json"), "w") as f:
        json.dump(manifest, f, indent=1)
    print(f"MANIFEST.json: {len(checks)} checks, {len(na)} not_applicable")


NA = {}

if __name__ == "__main__":
    main()
