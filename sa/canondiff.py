"""Debug helper: show, for a stored patch, which functions are not canonically equal to the reference and how.

    /venv/bin/python -m sa.canondiff <patch-dir> [--raw]
"""
import ast, difflib, sys, os
from .selftest import _seed_overrides
from .canon import canonicalise, canonical_function
from .reference import reference_tree, _functions, _plain

def main():
    d = sys.argv[1]
    ov = _seed_overrides("/repo", os.path.join(d, "patch.diff"))
    from .model import Repo
    Repo("/repo", overrides=ov)  # sets the package-wide canon context (changed names, signatures)
    for rel, text in ov.items():
        parts = rel[len("src/orquestra/quantum/"):-3].split("/")
        is_pkg = parts[-1] == "__init__"
        if is_pkg: parts = parts[:-1]
        mod = ".".join(parts)
        live, inl = canonicalise(ast.parse(text), mod)
        print(f"## {mod}: inlined new helpers: {inl}")
        ref = reference_tree(mod, is_pkg)
        lf, rf = _functions(live), _functions(ref)
        for q, (lb, li) in lf.items():
            if q not in rf:
                print("   new function", q); continue
            L, R = lb[li], rf[q][0][rf[q][1]]
            if _plain(L) == _plain(R): continue
            a = ast.unparse(canonical_function(L)).splitlines()
            b = ast.unparse(canonical_function(R)).splitlines()
            if a == b:
                print(f"   {q}: canonically EQUAL"); continue
            print(f"   {q}: DIFFERENT")
            for l in difflib.unified_diff(b, a, "reference", "live", lineterm="", n=1):
                print("      " + l[:220])

main()
