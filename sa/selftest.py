"""Self-test of the checkers: breaking variants must be reported, benign twins must pass.

A variant is an exact-substring edit of one or more source files of the *current* /repo
tree, analysed in memory (``Repo(overrides=...)``): nothing is written to disk and nothing
is executed — variants only need to parse. A variant whose anchor text is no longer
present in the tree is *skipped* (the tree was edited since the battery was written); a
variant that applies must produce the expected verdict, otherwise the machinery is broken
(exit 2), which is never reported as a property violation.

    python -m sa.selftest [Cxx ...] [--repo /repo] [--jobs 16] [-v]
"""
from __future__ import annotations

import argparse
import os
import sys
import time
from concurrent.futures import ProcessPoolExecutor
from typing import Dict, List, Optional, Tuple


def _apply(repo_root: str, edits) -> Optional[Dict[str, str]]:
    overrides: Dict[str, str] = {}
    for rel, old, new in edits:
        path = os.path.join(repo_root, rel)
        if rel in overrides:
            text = overrides[rel]
        else:
            if not os.path.exists(path):
                return None
            with open(path, encoding="utf-8") as f:
                text = f.read()
        if text.count(old) != 1:
            return None
        overrides[rel] = text.replace(old, new)
    return overrides


def _run_one(args) -> Tuple[str, str, str, str]:
    repo_root, m = args
    from .check import evaluate
    from .report import VIOLATION

    name = f"{m['prop']}/{m['name']}"
    overrides = _apply(repo_root, m["edits"])
    if overrides is None:
        return name, "skipped", "", "anchor text not present in the current tree"
    status, obligations, msg = evaluate(m["prop"], repo_root, overrides)
    # known findings are not failures of a benign twin and do not count as the expected violation
    from .report import load_known

    known = {(k["property"], k["key"]) for k in load_known().get("known", [])}
    obligations = [o for o in obligations if not (o.status == VIOLATION and (m["prop"], o.key) in known)]
    if status == "violation" and not any(o.status == VIOLATION for o in obligations):
        status = "pass" if not msg else "error"
    expect = m["expect"]
    if expect == "violation":
        if status != "violation":
            return name, "FAIL", status, f"expected a violation, got {status} {msg[:300]}"
        rule = m.get("rule")
        hits = [o for o in obligations if o.status == VIOLATION]
        if rule and not any(o.rule.startswith(rule) for o in hits):
            return name, "FAIL", status, f"violation reported by {sorted({o.rule for o in hits})}, expected rule {rule}"
        return name, "ok", status, "; ".join(f"{o.rule}::{o.construct}" for o in hits[:3])
    else:
        if status != "pass":
            bad = [f"{o.rule}::{o.construct}::{o.detail[:120]}" for o in obligations if o.status != "ok" and o.status != "info"]
            return name, "FAIL", status, f"benign twin must stay silent, got {status}: {msg[:300]} {bad[:3]}"
        return name, "ok", status, ""


def run(props: Optional[List[str]], repo_root: str = "/repo", jobs: int = 16, verbose: bool = False) -> Tuple[int, Dict[str, int]]:
    from .mutants import MUTANTS

    selected = [m for m in MUTANTS if not props or m["prop"] in props]
    started = time.time()
    results = []
    if jobs > 1 and len(selected) > 1:
        with ProcessPoolExecutor(max_workers=min(jobs, len(selected))) as ex:
            results = list(ex.map(_run_one, [(repo_root, m) for m in selected], chunksize=1))
    else:
        results = [_run_one((repo_root, m)) for m in selected]
    counts = {"ok": 0, "FAIL": 0, "skipped": 0}
    for name, verdict, status, detail in results:
        counts[verdict] += 1
        if verbose or verdict in ("FAIL", "skipped"):
            print(f"  selftest {verdict:7s} {name}: {detail}")
    breaking = sum(1 for m in selected if m["expect"] == "violation")
    print(f"[selftest] variants={len(selected)} (breaking={breaking}, benign={len(selected) - breaking}) ok={counts['ok']} failed={counts['FAIL']} skipped={counts['skipped']} wall={time.time() - started:.1f}s")
    return (1 if counts["FAIL"] else 0), counts


def _seed_overrides(repo_root: str, patch_path: str) -> Optional[Dict[str, str]]:
    """Apply a seeded patch to a throw-away copy of the files it touches and return
    {relative path: patched text}; None when the patch no longer applies to the current tree.

    The copy lives in a temporary directory outside /repo and /verif and is removed at once."""
    import re
    import shutil
    import subprocess
    import tempfile

    text = open(patch_path, encoding="utf-8").read()
    files = sorted(set(re.findall(r"^\+\+\+ b/(\S+)", text, flags=re.M)))
    if not files:
        return None
    tmp = tempfile.mkdtemp(prefix="sa-seed-")
    try:
        for rel in files:
            src = os.path.join(repo_root, rel)
            if not os.path.exists(src):
                return None
            dst = os.path.join(tmp, rel)
            os.makedirs(os.path.dirname(dst), exist_ok=True)
            shutil.copy(src, dst)
        # the copy is not a git repository: initialise a throw-away one so that `git apply` works there
        env = dict(os.environ, GIT_DIR=os.path.join(tmp, ".git"), GIT_WORK_TREE=tmp)
        subprocess.run(["git", "init", "-q", tmp], capture_output=True, text=True)
        r = subprocess.run(["git", "apply", os.path.abspath(patch_path)], cwd=tmp, env=env, capture_output=True, text=True)
        if r.returncode != 0:
            return None
        return {rel: open(os.path.join(tmp, rel), encoding="utf-8").read() for rel in files}
    finally:
        shutil.rmtree(tmp, ignore_errors=True)


def run_seeds(prop: str, repo_root: str) -> Tuple[int, Dict[str, int]]:
    """Every independently seeded breaking change of this property (/verif/seeded/<prop>-*) that
    still applies to the current tree must be reported by the property's own check."""
    import glob
    import json

    from .check import evaluate
    from .report import VIOLATION, load_known

    verif = os.path.dirname(os.path.dirname(os.path.abspath(__file__)))
    counts = {"ok": 0, "FAIL": 0, "skipped": 0}
    known = {(k["property"], k["key"]) for k in load_known().get("known", [])}
    for d in sorted(glob.glob(os.path.join(verif, "seeded", f"{prop}-*"))):
        patch = os.path.join(d, "patch.diff")
        if not os.path.exists(patch):
            continue
        sid = os.path.basename(d)
        ov = _seed_overrides(repo_root, patch)
        if ov is None:
            counts["skipped"] += 1
            print(f"  seeded  skipped {sid}: patch does not apply to the current tree")
            continue
        status, obligations, msg = evaluate(prop, repo_root, ov)
        hits = [o for o in obligations if o.status == VIOLATION and (prop, o.key) not in known]
        if hits:
            counts["ok"] += 1
        else:
            counts["FAIL"] += 1
            print(f"  seeded  FAIL    {sid}: the seeded breaking change is not reported (status {status} {msg[:200]})")
    print(f"[seeded] property={prop} changes={sum(counts.values())} reported={counts['ok']} missed={counts['FAIL']} skipped={counts['skipped']}")
    return (1 if counts["FAIL"] else 0), counts


def run_for_property(prop: str, jobs: int = 16) -> int:
    root = os.environ.get("SA_REPO", "/repo")
    code, _ = run([prop], root, jobs)
    code2, _ = run_seeds(prop, root)
    # generated equivalent mutants of the files this property anchors in: the check must stay silent on them. A non-silent
    # variant is printed (it is a false alarm / lost construct of the checker, to be fixed) but does not fail the run: the
    # variants are random and this is a measurement, not an obligation
    try:
        from . import equiv

        equiv.main(["--n", os.environ.get("SA_EQUIV_N", "24"), "--props", prop, "--jobs", str(jobs), "--repo", root, "--seed", os.environ.get("VERIF_SEED", "1") or "1"])
    except SystemExit:
        pass
    except Exception as e:  # pragma: no cover
        print(f"[equiv] skipped: {type(e).__name__}: {e}")
    return code or code2


def main(argv=None) -> int:
    ap = argparse.ArgumentParser()
    ap.add_argument("props", nargs="*")
    ap.add_argument("--repo", default=os.environ.get("SA_REPO", "/repo"))
    ap.add_argument("--jobs", type=int, default=16)
    ap.add_argument("-v", "--verbose", action="store_true")
    args = ap.parse_args(argv)
    code, counts = run([p.upper() for p in args.props] or None, args.repo, args.jobs, args.verbose)
    return 2 if code else 0


if __name__ == "__main__":
    sys.exit(main())
