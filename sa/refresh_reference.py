"""Refreshes sa/reference/** from /repo's HEAD (maintenance tool; run only after every rule instance has been re-confirmed on
that tree, i.e. after all 20 checks, the mutant battery and the seeded corpus were replayed on it)."""
import os, shutil, subprocess, sys
SRC = "/repo/src/orquestra/quantum"
DST = os.path.join(os.path.dirname(os.path.abspath(__file__)), "reference", "quantum")
def main():
    if subprocess.run("git -C /repo status --porcelain -- src", shell=True, capture_output=True, text=True).stdout.strip():
        print("refusing: /repo has uncommitted changes under src"); return 1
    shutil.rmtree(DST, ignore_errors=True)
    n = 0
    for dp, dn, fn in os.walk(SRC):
        dn[:] = [d for d in dn if d != "__pycache__"]
        for f in fn:
            if f.endswith(".py"):
                rel = os.path.relpath(os.path.join(dp, f), SRC)
                out = os.path.join(DST, rel + ".ref")
                os.makedirs(os.path.dirname(out), exist_ok=True)
                shutil.copy(os.path.join(dp, f), out); n += 1
    head = subprocess.run("git -C /repo rev-parse HEAD", shell=True, capture_output=True, text=True).stdout.strip()
    open(os.path.join(os.path.dirname(DST), "COMMIT"), "w").write(head + "\n")
    print(n, "files; reference commit", head)
    return 0
sys.exit(main())
