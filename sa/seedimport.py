"""Import confirmed candidates (maintenance helper, not a check).

    /venv/bin/python -m sa.seedimport <candidate-root> [--round N]

<candidate-root>/Cxx-<tag>/ with patch.diff, demo.py, meta.json and the confirm.json written by sa.seedconfirm. Breaking changes
(confirm.json "benign": false) go to /verif/seeded/<id>, behaviour-preserving ones to /verif/benign/<id>.
"""
import glob
import json
import os
import shutil
import sys

src = sys.argv[1]
rnd = sys.argv[sys.argv.index("--round") + 1] if "--round" in sys.argv else "?"
for d in sorted(glob.glob(os.path.join(src, "C*-*"))):
    sid = os.path.basename(d)
    cf = os.path.join(d, "confirm.json")
    if not os.path.exists(cf):
        print("no confirm", sid)
        continue
    c = json.load(open(cf))
    if not c.get("confirmed"):
        print("NOT confirmed", sid)
        continue
    benign = bool(c.get("benign"))
    dst = f"/verif/{'benign' if benign else 'seeded'}/{sid}"
    if os.path.exists(dst):
        print("exists", sid)
        continue
    os.makedirs(dst)
    shutil.copy(os.path.join(d, "patch.diff"), dst)
    shutil.copy(os.path.join(d, "demo.py"), dst)
    try:
        am = json.load(open(os.path.join(d, "meta.json")))
    except Exception:
        am = {}
    meta = {
        "id": sid,
        "property": sid.split("-")[0],
        "files": c.get("files"),
        "what": am.get("what"),
        "manifests_when": am.get("manifests_when"),
        "origin": "written by an independent sub-agent that saw only the property text and a scratch worktree (nothing from /verif)",
        "confirmed": {
            "how": "sa.seedconfirm" + (" --benign" if benign else "") + ": fresh scratch worktree of /repo HEAD; demo run with PYTHONPATH=<worktree>/src before and after `git apply patch.diff`; pinned suite run with the patch applied and compared with BASELINE.stable_pass",
            "demo_exit_clean_tree": c.get("demo_clean_exit"),
            "demo_exit_with_patch": c.get("demo_patched_exit"),
            "demo_output_with_patch_tail": (c.get("demo_patched_tail") or "")[-400:],
            "suite_with_patch": f"stable baseline tests: {c.get('suite_stable')}; still passing: {c.get('suite_still_passing')}; broken: {len(c.get('suite_broken') or [])}",
        },
    }
    if benign:
        meta["kind"] = f"benign refactoring (round {rnd}, {'small' if sid.endswith('u') else 'moderate'} size)"
        meta["why_unchanged"] = meta.pop("manifests_when")
    else:
        meta["round"] = rnd
    json.dump(meta, open(os.path.join(dst, "meta.json"), "w"), indent=1)
    print("imported", sid, "->", dst)
