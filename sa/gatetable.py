"""TABLE: the built-in gate table of circuits/_builtin_gates.py, read from the AST."""
from __future__ import annotations

import ast
from dataclasses import dataclass
from typing import Dict, List, Optional

from .astutil import arg_or_kw, const_str, const_value, dotted, kwarg, norm
from .model import AnchorMissing, FuncInfo, Repo

BUILTIN = "circuits._builtin_gates"
MATRICES = "circuits._matrices"


@dataclass
class GateEntry:
    ident: str  # module-level identifier the gate is bound to
    name: Optional[str]  # the name string literal
    factory_expr: ast.AST
    factory: Optional[FuncInfo]
    num_qubits: Optional[int]
    is_hermitian: bool
    parametric: bool
    lineno: int
    params_expr: Optional[ast.AST] = None


def gate_table(repo: Repo) -> List[GateEntry]:
    mod = repo.module(BUILTIN)
    out: List[GateEntry] = []
    for stmt in mod.tree.body:
        if not (isinstance(stmt, ast.Assign) and len(stmt.targets) == 1 and isinstance(stmt.targets[0], ast.Name) and isinstance(stmt.value, ast.Call)):
            continue
        call = stmt.value
        callee = (dotted(call.func) or "").split(".")[-1]
        applied_prototype = False
        if isinstance(call.func, ast.Call) and (dotted(call.func.func) or "").split(".")[-1] == "make_parametric_gate_prototype" and not call.args and not call.keywords:
            # `make_parametric_gate_prototype(name, factory, k, herm)()`: the prototype applied to no parameters is the
            # non-parametric gate itself
            call = call.func
            callee = "make_parametric_gate_prototype"
            applied_prototype = True
        if callee == "MatrixFactoryGate":
            name, fac, params, nq, herm = (arg_or_kw(call, 0, "name"), arg_or_kw(call, 1, "matrix_factory"), arg_or_kw(call, 2, "params"), arg_or_kw(call, 3, "num_qubits"), arg_or_kw(call, 4, "is_hermitian"))
            parametric = False
        elif callee == "make_parametric_gate_prototype":
            name, fac, nq, herm = (arg_or_kw(call, 0, "name"), arg_or_kw(call, 1, "matrix_factory"), arg_or_kw(call, 2, "num_qubits"), arg_or_kw(call, 3, "is_hermitian"))
            params = ast.Tuple(elts=[], ctx=ast.Load()) if applied_prototype else None
            parametric = not applied_prototype
        else:
            continue
        factory = None
        if fac is not None:
            r = repo.resolve_dotted(mod, fac)
            if r is not None and r[0] == "func":
                factory = r[1]
        try:
            nqv = const_value(nq) if nq is not None else None
        except ValueError:
            nqv = None
        try:
            hv = bool(const_value(herm)) if herm is not None else False
        except ValueError:
            hv = False
        out.append(GateEntry(stmt.targets[0].id, const_str(name) if name is not None else None, fac, factory, nqv if isinstance(nqv, int) else None, hv, parametric, stmt.lineno, params))
    return out


def gate_by_ident(repo: Repo) -> Dict[str, GateEntry]:
    return {g.ident: g for g in gate_table(repo)}
