"""Confirmation of a candidate seeded change (maintenance helper, not a check).

    /venv/bin/python -m sa.seedconfirm <candidate-dir> [<candidate-dir> ...] [--jobs N] [--benign]

A candidate directory holds patch.diff (against /repo HEAD, src hunks), demo.py and optionally meta.json /
NOTES.md written by a seeding sub-agent. For each candidate a *fresh* scratch git worktree of /repo's HEAD is
created under $TMPDIR (never /repo itself) and removed afterwards, and the following is established by
actually running things (this tool is the only part of /verif that executes repo code; it is not part of any
registered check):

  1. demo.py exits 0 on the clean worktree                (PYTHONPATH=<worktree>/src shadows the editable install)
  2. patch.diff applies
  3. demo.py exits non-zero with the patch applied        (for --benign: exits 0 as well)
  4. the pinned suite, run in the worktree with the patch, still passes every test of BASELINE.stable_pass

The verdict is written to <candidate-dir>/confirm.json.
"""
from __future__ import annotations

import json
import os
import shutil
import subprocess
import sys
import tempfile
import xml.etree.ElementTree as ET
from concurrent.futures import ThreadPoolExecutor

BASELINE = "/root/.vp/BASELINE.json"


def sh(cmd, timeout=3600, **kw):
    try:
        return subprocess.run(cmd, shell=True, capture_output=True, text=True, timeout=timeout, **kw)
    except subprocess.TimeoutExpired as e:
        class R:  # noqa
            returncode = 124
            stdout = (e.stdout or b"").decode(errors="replace") if isinstance(e.stdout, bytes) else (e.stdout or "")
            stderr = "timeout"
        return R()


def junit_ids(path):
    passed, failed = set(), set()
    root = ET.parse(path).getroot()
    for tc in root.iter("testcase"):
        tid = (tc.get("classname") or "") + "::" + (tc.get("name") or "")
        if tc.find("failure") is not None or tc.find("error") is not None:
            failed.add(tid)
        elif tc.find("skipped") is not None:
            pass
        else:
            passed.add(tid)
    return passed - failed, failed


def confirm(cand: str, benign: bool = False, xdist: int = 4):
    cand = os.path.abspath(cand)
    sid = os.path.basename(cand)
    out = {"id": sid, "benign": benign}
    wt = tempfile.mkdtemp(prefix=f"confirm-{sid}-")
    os.rmdir(wt)
    try:
        r = sh(f"git -C /repo worktree add -q --detach {wt} HEAD")
        if r.returncode != 0:
            out["error"] = "worktree: " + r.stderr[-300:]
            return out
        env = dict(os.environ, PYTHONPATH=f"{wt}/src", PYTHONDONTWRITEBYTECODE="1")
        demo = os.path.join(cand, "demo.py")
        d0 = sh(f"cd {wt} && /venv/bin/python {demo}", env=env, timeout=900)
        out["demo_clean_exit"] = d0.returncode
        out["demo_clean_tail"] = (d0.stdout + d0.stderr)[-300:]
        a = sh(f"git -C {wt} apply --whitespace=nowarn {cand}/patch.diff")
        out["apply_ok"] = a.returncode == 0
        if a.returncode != 0:
            out["error"] = "apply: " + a.stderr[-300:]
            return out
        st = sh(f"git -C {wt} status --porcelain")
        out["files"] = [l[3:] for l in st.stdout.splitlines()]
        d1 = sh(f"cd {wt} && /venv/bin/python {demo}", env=env, timeout=900)
        out["demo_patched_exit"] = d1.returncode
        out["demo_patched_tail"] = (d1.stdout + d1.stderr)[-600:]
        jx = os.path.join(wt, "junit-confirm.xml")
        # the tracker test writes a file in the cwd and collides under xdist: run those serially afterwards
        s = sh(
            f"cd {wt} && /venv/bin/python -m pytest -q -p no:cacheprovider --timeout=900 --continue-on-collection-errors -n {xdist} --junitxml={jx} >/dev/null 2>&1",
            env=env,
            timeout=3000,
        )
        base = json.load(open(BASELINE))
        stable = set(base["stable_pass"])
        passed, failed = junit_ids(jx)
        broken = sorted(stable - passed)
        if broken:
            # re-run the broken ones' files serially (xdist collisions)
            files = sorted({b.split("::")[0].rsplit(".", 1)[0] if b.split("::")[0].split(".")[-1][:1].isupper() else b.split("::")[0] for b in broken})
            paths = " ".join(f.replace(".", "/") + ".py" for f in files)
            jx2 = os.path.join(wt, "junit-confirm2.xml")
            sh(f"cd {wt} && /venv/bin/python -m pytest -q -p no:cacheprovider --timeout=900 --continue-on-collection-errors --junitxml={jx2} {paths} >/dev/null 2>&1", env=env, timeout=3000)
            try:
                p2, f2 = junit_ids(jx2)
                passed |= p2
            except Exception:
                pass
            broken = sorted(stable - passed)
        out["suite_stable"] = len(stable)
        out["suite_still_passing"] = len(stable) - len(broken)
        out["suite_broken"] = broken[:10]
        out["suite_ok"] = not broken
        if benign:
            out["confirmed"] = out["demo_clean_exit"] == 0 and out["demo_patched_exit"] == 0 and out["suite_ok"]
        else:
            out["confirmed"] = out["demo_clean_exit"] == 0 and out["demo_patched_exit"] not in (0, 124) and out["suite_ok"]
        return out
    finally:
        sh(f"git -C /repo worktree remove --force {wt}")
        shutil.rmtree(wt, ignore_errors=True)
        sh("git -C /repo worktree prune")
        json.dump(out, open(os.path.join(cand, "confirm.json"), "w"), indent=1)


def main(argv):
    benign = "--benign" in argv
    jobs = int(argv[argv.index("--jobs") + 1]) if "--jobs" in argv else 4
    cands = [a for i, a in enumerate(argv) if not a.startswith("--") and (i == 0 or argv[i - 1] != "--jobs")]
    with ThreadPoolExecutor(max_workers=jobs) as ex:
        for o in ex.map(lambda c: confirm(c, benign, xdist=max(2, 16 // jobs)), cands):
            print(o["id"], "CONFIRMED" if o.get("confirmed") else "NOT-CONFIRMED", {k: o.get(k) for k in ("demo_clean_exit", "demo_patched_exit", "apply_ok", "suite_still_passing", "suite_broken", "error")})
    return 0


if __name__ == "__main__":
    sys.exit(main(sys.argv[1:]))
