"""Static-analysis machinery for the orquestra-quantum properties (see ../DESIGN.md).

Everything in this package decides from the *source text* of /repo: it parses modules with
``ast`` and never imports ``orquestra`` nor runs any of its code.
"""
