"""Statement-level control-flow graph for one Python function, with dominators.

Nodes: one per simple statement, one per branch test (``if``/``while`` test, ``for``
iterator, ``with`` items, ``except`` dispatch), plus ENTRY, EXIT (normal return) and XEXIT
(exceptional exit). Every node that can raise (it contains a call, subscript, attribute
access, arithmetic, or is a ``raise``/``assert``) has an ``exc`` edge to the innermost
enclosing handler dispatch or to XEXIT.

The graph is deliberately simple: comprehension bodies and conditional *expressions* are
part of their statement node (rules look inside the statement's AST when they need to).
"""
from __future__ import annotations

import ast
from typing import Dict, Iterable, List, Optional, Sequence, Set, Tuple

from .astutil import FUNC_NODES, norm, walk_local


class Node:
    __slots__ = ("id", "kind", "ast", "succ", "pred", "label")

    def __init__(self, nid: int, kind: str, node: Optional[ast.AST], label: str = ""):
        self.id = nid
        self.kind = kind  # entry|exit|xexit|stmt|test|for|with|dispatch|handler|join
        self.ast = node
        self.succ: List[Tuple["Node", str]] = []
        self.pred: List[Tuple["Node", str]] = []
        self.label = label

    @property
    def lineno(self) -> int:
        return getattr(self.ast, "lineno", 0) if self.ast is not None else 0

    def __repr__(self):
        text = norm(self.ast)[:50] if self.ast is not None else ""
        return f"<{self.id}:{self.kind} {text!r}>"

    def __hash__(self):
        return self.id

    def __eq__(self, other):
        return isinstance(other, Node) and other.id == self.id


def _may_raise(node: ast.AST) -> bool:
    for n in walk_local(node):
        if isinstance(n, (ast.Call, ast.Subscript, ast.Attribute, ast.BinOp, ast.Raise, ast.Assert, ast.Compare, ast.Await, ast.Yield, ast.YieldFrom, ast.Delete, ast.Import, ast.ImportFrom, ast.Starred)):
            return True
    return False


class CFG:
    def __init__(self, func: ast.AST):
        self.func = func
        self.nodes: List[Node] = []
        self.entry = self._new("entry", None)
        self.exit = self._new("exit", None)
        self.xexit = self._new("xexit", None)
        self.by_ast: Dict[ast.AST, Node] = {}
        self._handler_stack: List[Node] = []
        self._loop_stack: List[Tuple[Node, Node]] = []  # (continue target, break target)
        ends = self._block(getattr(func, "body", []), [(self.entry, "next")])
        for n, lab in ends:
            self._edge(n, self.exit, lab)
        self._dom: Optional[Dict[Node, Set[Node]]] = None
        self._pdom: Optional[Dict[Node, Set[Node]]] = None

    # ------------------------------------------------------------ construction
    def _new(self, kind: str, node: Optional[ast.AST], label: str = "") -> Node:
        n = Node(len(self.nodes), kind, node, label)
        self.nodes.append(n)
        return n

    def _edge(self, a: Node, b: Node, label: str) -> None:
        if (b, label) not in a.succ:
            a.succ.append((b, label))
            b.pred.append((a, label))

    def _exc_target(self) -> Node:
        return self._handler_stack[-1] if self._handler_stack else self.xexit

    def _attach(self, node: Node, incoming: Sequence[Tuple[Node, str]]) -> None:
        for n, lab in incoming:
            self._edge(n, node, lab)

    def _stmt_node(self, kind: str, stmt: ast.AST, incoming, probe: Optional[ast.AST] = None) -> Node:
        n = self._new(kind, stmt)
        self.by_ast.setdefault(stmt, n)
        self._attach(n, incoming)
        if _may_raise(probe if probe is not None else stmt):
            self._edge(n, self._exc_target(), "exc")
        return n

    def _block(self, stmts: Sequence[ast.stmt], incoming: List[Tuple[Node, str]]) -> List[Tuple[Node, str]]:
        cur = list(incoming)
        for stmt in stmts:
            if not cur:
                # unreachable code: still build nodes so rules can find them, but unlinked
                cur = []
            cur = self._stmt(stmt, cur)
        return cur

    def _stmt(self, stmt: ast.stmt, incoming: List[Tuple[Node, str]]) -> List[Tuple[Node, str]]:
        if isinstance(stmt, ast.Expr) and isinstance(stmt.value, ast.Constant):
            return incoming  # docstring / bare literal: no semantics, no node
        if isinstance(stmt, (ast.FunctionDef, ast.AsyncFunctionDef, ast.ClassDef)):
            n = self._new("stmt", stmt)
            self.by_ast[stmt] = n
            self._attach(n, incoming)
            return [(n, "next")]
        if isinstance(stmt, ast.If):
            t = self._stmt_node("test", stmt, incoming, probe=stmt.test)
            self.by_ast[stmt.test] = t
            then_ends = self._block(stmt.body, [(t, "true")])
            else_ends = self._block(stmt.orelse, [(t, "false")]) if stmt.orelse else [(t, "false")]
            return then_ends + else_ends
        if isinstance(stmt, (ast.For, ast.AsyncFor)):
            head = self._stmt_node("for", stmt, incoming, probe=stmt.iter)
            after = self._new("join", None, "for-exit")
            self._loop_stack.append((head, after))
            body_ends = self._block(stmt.body, [(head, "loop")])
            self._loop_stack.pop()
            for n, lab in body_ends:
                self._edge(n, head, lab)
            else_ends = self._block(stmt.orelse, [(head, "done")]) if stmt.orelse else [(head, "done")]
            for n, lab in else_ends:
                self._edge(n, after, lab)
            return [(after, "next")]
        if isinstance(stmt, ast.While):
            head = self._stmt_node("test", stmt, incoming, probe=stmt.test)
            self.by_ast[stmt.test] = head
            after = self._new("join", None, "while-exit")
            self._loop_stack.append((head, after))
            body_ends = self._block(stmt.body, [(head, "true")])
            self._loop_stack.pop()
            for n, lab in body_ends:
                self._edge(n, head, lab)
            infinite = isinstance(stmt.test, ast.Constant) and bool(stmt.test.value)
            if not infinite:
                else_ends = self._block(stmt.orelse, [(head, "false")]) if stmt.orelse else [(head, "false")]
                for n, lab in else_ends:
                    self._edge(n, after, lab)
            return [(after, "next")] if after.pred else []
        if isinstance(stmt, (ast.With, ast.AsyncWith)):
            head = self._stmt_node("with", stmt, incoming, probe=ast.Tuple(elts=[i.context_expr for i in stmt.items], ctx=ast.Load()))
            return self._block(stmt.body, [(head, "next")])
        if isinstance(stmt, ast.Try):
            dispatch = self._new("dispatch", stmt)
            has_finally = bool(stmt.finalbody)
            # body executes with this try's dispatch as exception target
            self._handler_stack.append(dispatch)
            body_ends = self._block(stmt.body, incoming)
            self._handler_stack.pop()
            else_ends = self._block(stmt.orelse, body_ends) if stmt.orelse else body_ends
            handler_ends: List[Tuple[Node, str]] = []
            catch_all = False
            for h in stmt.handlers:
                hn = self._new("handler", h)
                self.by_ast[h] = hn
                self._edge(dispatch, hn, "except")
                if h.type is None or (isinstance(h.type, ast.Name) and h.type.id in ("Exception", "BaseException")):
                    catch_all = True
                handler_ends += self._block(h.body, [(hn, "next")])
            if not catch_all:
                self._edge(dispatch, self._exc_target(), "exc")
            ends = else_ends + handler_ends
            if has_finally:
                fin_ends = self._block(stmt.finalbody, ends + [(dispatch, "finally")] if not stmt.handlers else ends)
                return fin_ends
            return ends
        if isinstance(stmt, ast.Return):
            n = self._stmt_node("stmt", stmt, incoming)
            self._edge(n, self.exit, "return")
            return []
        if isinstance(stmt, ast.Raise):
            n = self._new("stmt", stmt)
            self.by_ast[stmt] = n
            self._attach(n, incoming)
            self._edge(n, self._exc_target(), "raise")
            return []
        if isinstance(stmt, ast.Break):
            n = self._new("stmt", stmt)
            self.by_ast[stmt] = n
            self._attach(n, incoming)
            if self._loop_stack:
                self._edge(n, self._loop_stack[-1][1], "break")
            return []
        if isinstance(stmt, ast.Continue):
            n = self._new("stmt", stmt)
            self.by_ast[stmt] = n
            self._attach(n, incoming)
            if self._loop_stack:
                self._edge(n, self._loop_stack[-1][0], "continue")
            return []
        if isinstance(stmt, ast.Assert):
            n = self._stmt_node("stmt", stmt, incoming)
            return [(n, "next")]
        # simple statement
        n = self._stmt_node("stmt", stmt, incoming)
        return [(n, "next")]

    # -------------------------------------------------------------- queries
    def node_of(self, stmt: ast.AST) -> Optional[Node]:
        return self.by_ast.get(stmt)

    def stmt_nodes(self) -> List[Node]:
        return [n for n in self.nodes if n.ast is not None]

    def containing_node(self, sub: ast.AST) -> Optional[Node]:
        """CFG node whose AST (its own part, not nested blocks) contains ``sub``."""
        for n in self.nodes:
            if n.ast is None:
                continue
            for part in _own_parts(n):
                for x in walk_local(part):
                    if x is sub:
                        return n
        return None

    def reachable(self, start: Node, labels_excluded: Iterable[str] = ()) -> Set[Node]:
        excl = set(labels_excluded)
        seen = {start}
        stack = [start]
        while stack:
            cur = stack.pop()
            for nxt, lab in cur.succ:
                if lab in excl or nxt in seen:
                    continue
                seen.add(nxt)
                stack.append(nxt)
        return seen

    def reaches(self, a: Node, b: Node, labels_excluded: Iterable[str] = ()) -> bool:
        """Is there a path a ->+ b (at least one edge)?"""
        excl = set(labels_excluded)
        seen: Set[Node] = set()
        stack = [n for n, lab in a.succ if lab not in excl]
        while stack:
            cur = stack.pop()
            if cur == b:
                return True
            if cur in seen:
                continue
            seen.add(cur)
            stack.extend(n for n, lab in cur.succ if lab not in excl)
        return False

    def _compute_dom(self, forward: bool) -> Dict[Node, Set[Node]]:
        if forward:
            roots = [self.entry]
            preds = lambda n: [p for p, _ in n.pred]
        else:
            roots = [self.exit, self.xexit]
            preds = lambda n: [s for s, _ in n.succ]
        allnodes = set(self.nodes)
        dom: Dict[Node, Set[Node]] = {}
        for n in self.nodes:
            dom[n] = {n} if n in roots else set(allnodes)
        changed = True
        order = self.nodes if forward else list(reversed(self.nodes))
        while changed:
            changed = False
            for n in order:
                if n in roots:
                    continue
                ps = preds(n)
                if ps:
                    new = set.intersection(*(dom[p] for p in ps)) | {n}
                else:
                    new = {n}
                if new != dom[n]:
                    dom[n] = new
                    changed = True
        return dom

    def dominates(self, a: Node, b: Node) -> bool:
        """Every path ENTRY -> b passes through a."""
        if self._dom is None:
            self._dom = self._compute_dom(True)
        return a in self._dom[b]

    def postdominates(self, a: Node, b: Node) -> bool:
        """Every path b -> (EXIT|XEXIT) passes through a."""
        if self._pdom is None:
            self._pdom = self._compute_dom(False)
        return a in self._pdom[b]

    def is_reachable_from_entry(self, n: Node) -> bool:
        return n == self.entry or self.reaches(self.entry, n)

    def normal_exit_reachable_from(self, n: Node) -> bool:
        return self.reaches(n, self.exit) or n == self.exit

    def all_paths_raise(self) -> bool:
        """No path from ENTRY reaches the normal EXIT."""
        return not self.reaches(self.entry, self.exit)

    def paths_avoiding(self, start: Node, goal: Node, avoid: Set[Node], labels_excluded: Iterable[str] = ()) -> bool:
        """Is there a path start ->* goal that does not pass through any node in avoid?"""
        excl = set(labels_excluded)
        if start in avoid:
            return False
        seen = {start}
        stack = [start]
        while stack:
            cur = stack.pop()
            if cur == goal:
                return True
            for nxt, lab in cur.succ:
                if lab in excl or nxt in seen or nxt in avoid:
                    continue
                seen.add(nxt)
                stack.append(nxt)
        return False

    def edge_dominates(self, test: Node, label: str, target: Node) -> bool:
        """Every path ENTRY -> target leaves ``test`` through its ``label`` edge.

        Decided by removing the other out-edges of ``test`` ... equivalently: target is not
        reachable from ENTRY when the ``label`` edges of ``test`` are cut."""
        # cut the edge(s) test --label--> x and check reachability
        seen = {self.entry}
        stack = [self.entry]
        while stack:
            cur = stack.pop()
            if cur == target:
                return False
            for nxt, lab in cur.succ:
                if cur == test and lab == label:
                    continue
                if nxt in seen:
                    continue
                seen.add(nxt)
                stack.append(nxt)
        return True


def _own_parts(n: Node) -> List[ast.AST]:
    a = n.ast
    if n.kind == "test" and isinstance(a, (ast.If, ast.While)):
        return [a.test]
    if n.kind == "for":
        return [a.iter, a.target]
    if n.kind == "with":
        parts: List[ast.AST] = []
        for item in a.items:
            parts.append(item.context_expr)
            if item.optional_vars is not None:
                parts.append(item.optional_vars)
        return parts
    if n.kind == "handler":
        return [a.type] if a.type is not None else []
    if n.kind == "dispatch":
        return []
    if isinstance(a, (ast.FunctionDef, ast.AsyncFunctionDef, ast.ClassDef)):
        return []
    return [a]


def own_parts(n: Node) -> List[ast.AST]:
    return _own_parts(n)


_CACHE: Dict[ast.AST, CFG] = {}


def cfg_of(func_node: ast.AST) -> CFG:
    # keyed by the node object itself (identity hash; the dict keeps it alive, so an id can
    # never be reused by another node while its CFG is cached)
    if func_node not in _CACHE:
        _CACHE[func_node] = CFG(func_node)
    return _CACHE[func_node]


def clear_cache() -> None:
    _CACHE.clear()


def branch_raises(cfg: CFG, test: Node, label: str) -> bool:
    """Does the ``label`` edge of ``test`` lead only to a raise (never to normal EXIT nor
    back into code that continues)? I.e. every path from that edge ends in XEXIT/handler
    without passing a node that can reach EXIT normally... decided as: EXIT unreachable
    from the edge target using only non-exceptional edges, and the first statements are
    straight-line up to a Raise."""
    targets = [n for n, lab in test.succ if lab == label]
    if not targets:
        return False
    for t in targets:
        # follow straight-line code; must hit a Raise before any join/exit
        cur = t
        seen = set()
        while True:
            if cur in seen:
                return False
            seen.add(cur)
            if isinstance(cur.ast, ast.Raise) and cur.kind == "stmt":
                break
            nxt = [n for n, lab in cur.succ if lab not in ("exc",)]
            if len(nxt) != 1 or cur.kind in ("test", "for"):
                return False
            cur = nxt[0]
            if cur in (cfg.exit, cfg.xexit):
                return False
    return True
