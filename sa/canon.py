"""CANON: source-level normalisations applied to every module before the program model is built.

Purpose: a rule must not fire (nor lose sight of its construct) because of an edit that leaves behaviour
unchanged. The most common such edits are *extracting a few statements or an expression into a new
private helper*, *naming a literal as a new module-level constant*, and small idiom swaps. CANON undoes
them so that the rules keep seeing the code in the shape they reason about:

* **new-function inlining** — a call to a function (module-level function, or method called as
  ``self.m`` / ``cls.m`` / ``Class.m``) of the *same module* that is not in the frozen list of functions
  the rules anchor in (``sa/anchors.py``, the functions of the tree the rules were written against) is
  replaced by the function's body (parameters substituted, locals renamed apart, early returns turned
  into tail form). Functions in the anchor list are never inlined: rules address them by name.
* **new-constant propagation** — a module-level name outside the anchor list bound once to a literal
  (or to ``re.compile(<literal>)``) is replaced by that literal at its uses (``NAME.split(x)`` becomes
  ``re.split(<literal>, x)``).
* ``x += [e]`` and ``x.extend([e])`` become ``x.append(e)``.

Everything here is syntactic and behaviour-preserving under the stated conditions; when a condition is
not met (recursion, generators, ``*args``, non-tail returns that cannot be restructured) the call is
simply left alone.
"""
from __future__ import annotations

import ast
import copy
from typing import Dict, List, Optional, Sequence, Set, Tuple

from .astutil import FUNC_NODES, dotted, strip_docstring

MAX_BODY = 60
MAX_ROUNDS = 4


def _is_generator(fn: ast.AST) -> bool:
    for n in ast.walk(fn):
        if isinstance(n, (ast.Yield, ast.YieldFrom)):
            return True
    return False


def _simple_arg(e: ast.AST) -> bool:
    if isinstance(e, (ast.Name, ast.Constant)):
        return True
    if isinstance(e, ast.Attribute):
        return _simple_arg(e.value)
    if isinstance(e, ast.Subscript):
        return _simple_arg(e.value) and _simple_arg(e.slice)
    if isinstance(e, ast.UnaryOp):
        return _simple_arg(e.operand)
    return False


def _beta_reduce(node: ast.AST) -> ast.AST:
    """(lambda a, b: E)(x, y) -> E[a := x, b := y] when that is the same evaluation: plain positional parameters, as many plain
    arguments, and every argument either simple (a name / attribute / constant: may be read any number of times) or used exactly once
    in E outside any nested lambda, comprehension or conditional part (so it is still evaluated exactly once)."""
    if not (isinstance(node, ast.Call) and isinstance(node.func, ast.Lambda)) or node.keywords or any(isinstance(a, ast.Starred) for a in node.args):
        return node
    la = node.func.args
    if la.vararg or la.kwarg or la.kwonlyargs or la.defaults or la.kw_defaults:
        return node
    params = [a.arg for a in list(la.posonlyargs) + list(la.args)]
    if len(params) != len(node.args):
        return node
    body = node.func.body
    if any(isinstance(n, (ast.Lambda, ast.NamedExpr, ast.Yield, ast.YieldFrom, ast.Await)) for n in ast.walk(body)):
        return node
    shielded = set()
    for n in ast.walk(body):
        parts = []
        if isinstance(n, (ast.ListComp, ast.SetComp, ast.GeneratorExp, ast.DictComp)):
            parts = [n]
        elif isinstance(n, ast.IfExp):
            parts = [n.body, n.orelse]
        elif isinstance(n, ast.BoolOp):
            parts = n.values[1:]
        for q in parts:
            for m in ast.walk(q):
                shielded.add(id(m))
    for pn, a in zip(params, node.args):
        if _simple_arg(a):
            continue
        uses = [n for n in ast.walk(body) if isinstance(n, ast.Name) and n.id == pn]
        if len(uses) != 1 or id(uses[0]) in shielded:
            return node
    if sum(1 for a in node.args if not _simple_arg(a)) > 1:
        return node  # the order in which two non-trivial arguments are evaluated could change
    return ast.copy_location(_Subst(dict(zip(params, node.args))).visit(copy.deepcopy(body)), node)


class _BetaReduce(ast.NodeTransformer):
    def visit_Call(self, node):
        self.generic_visit(node)
        return _beta_reduce(node)


class _Subst(ast.NodeTransformer):
    def __init__(self, mapping: Dict[str, ast.AST]):
        self.mapping = mapping

    def visit_Name(self, node: ast.Name):
        if node.id in self.mapping:
            repl = self.mapping[node.id]
            if isinstance(node.ctx, ast.Load):
                return copy.deepcopy(repl)
            if isinstance(repl, ast.Name):
                return ast.copy_location(ast.Name(id=repl.id, ctx=node.ctx), node)
        return node

    def visit_FunctionDef(self, node):  # do not descend into nested scopes that rebind
        return node

    visit_AsyncFunctionDef = visit_FunctionDef
    visit_Lambda = lambda self, node: self.generic_visit(node)  # noqa: E731


def _assigned_names(stmts: Sequence[ast.stmt]) -> Set[str]:
    out: Set[str] = set()
    for s in stmts:
        for n in ast.walk(s):
            if isinstance(n, ast.Name) and isinstance(n.ctx, (ast.Store, ast.Del)):
                out.add(n.id)
            elif isinstance(n, ast.ExceptHandler) and n.name:
                out.add(n.name)
    return out


def _ends_in_exit(stmts: Sequence[ast.stmt]) -> bool:
    if not stmts:
        return False
    last = stmts[-1]
    if isinstance(last, (ast.Return, ast.Raise)):
        return True
    if isinstance(last, ast.If) and last.orelse:
        return _ends_in_exit(last.body) and _ends_in_exit(last.orelse)
    if isinstance(last, (ast.With, ast.AsyncWith)):
        return _ends_in_exit(last.body)
    return False


def _tailify(stmts: List[ast.stmt]) -> Optional[List[ast.stmt]]:
    """Restructure so that every ``return`` is in tail position (guard clauses become if/else).
    None when a return sits inside a loop / try / with (not restructurable here)."""
    out: List[ast.stmt] = []
    for i, s in enumerate(stmts):
        if isinstance(s, ast.If):
            body = _tailify(list(s.body))
            orelse = _tailify(list(s.orelse)) if s.orelse else []
            if body is None or orelse is None:
                return None
            rest = stmts[i + 1:]
            has_ret_body = any(isinstance(n, ast.Return) for x in body for n in ast.walk(x))
            has_ret_else = any(isinstance(n, ast.Return) for x in orelse for n in ast.walk(x))
            if rest and (has_ret_body or has_ret_else):
                tail = _tailify(list(rest))
                if tail is None:
                    return None
                if _ends_in_exit(body) and not orelse:
                    new = ast.If(test=s.test, body=body, orelse=tail)
                elif _ends_in_exit(body) and _ends_in_exit(orelse):
                    new = ast.If(test=s.test, body=body, orelse=orelse)
                elif _ends_in_exit(body):
                    new = ast.If(test=s.test, body=body, orelse=orelse + tail)
                elif orelse and _ends_in_exit(orelse):
                    new = ast.If(test=s.test, body=body + tail, orelse=orelse)
                else:
                    return None  # a return on some path inside, but the branch falls through on others
                out.append(ast.copy_location(new, s))
                return out
            out.append(ast.copy_location(ast.If(test=s.test, body=body, orelse=orelse), s))
            continue
        if isinstance(s, (ast.With, ast.AsyncWith)) and any(isinstance(n, ast.Return) for n in ast.walk(s)):
            inner = _tailify(list(s.body))
            if inner is None or not _ends_in_exit(inner):
                return None
            s2 = copy.copy(s)
            s2.body = inner
            out.append(s2)
            return out  # the with block always exits: anything after is unreachable
        if isinstance(s, (ast.For, ast.AsyncFor, ast.While, ast.Try, ast.With, ast.AsyncWith)):
            if any(isinstance(n, ast.Return) for n in ast.walk(s)):
                return None
            out.append(s)
            continue
        out.append(s)
        if isinstance(s, (ast.Return, ast.Raise)):
            return out  # anything after is unreachable
    return out


def _replace_returns(stmts: List[ast.stmt], target: Optional[str]) -> List[ast.stmt]:
    """``return e`` (all in tail position) -> ``target = e`` (or dropped / evaluated when target is None)."""
    out: List[ast.stmt] = []
    for s in stmts:
        if isinstance(s, ast.Return):
            if target is not None:
                val = s.value if s.value is not None else ast.Constant(value=None)
                out.append(ast.copy_location(ast.Assign(targets=[ast.Name(id=target, ctx=ast.Store())], value=val, lineno=s.lineno), s))
            elif s.value is not None and not isinstance(s.value, ast.Constant):
                out.append(ast.copy_location(ast.Expr(value=s.value), s))
            continue
        if isinstance(s, ast.If):
            body = _replace_returns(list(s.body), target) or [ast.copy_location(ast.Pass(), s)]
            orelse = _replace_returns(list(s.orelse), target)
            out.append(ast.copy_location(ast.If(test=s.test, body=body, orelse=orelse), s))
            continue
        if isinstance(s, (ast.With, ast.AsyncWith)):
            s2 = copy.copy(s)
            s2.body = _replace_returns(list(s.body), target) or [ast.copy_location(ast.Pass(), s)]
            out.append(s2)
            continue
        out.append(s)
    return out


class ModuleCanon:
    def __init__(self, tree: ast.Module, modname: str, anchored_funcs: Set[str], anchored_names: Set[str]):
        self.tree = tree
        self.modname = modname
        self.anchored_funcs = anchored_funcs
        self.anchored_names = anchored_names
        self.counter = 0
        self.module_funcs: Dict[str, ast.FunctionDef] = {}
        self.class_funcs: Dict[Tuple[str, str], ast.FunctionDef] = {}
        self.new_consts: Dict[str, ast.AST] = {}
        self.inlined: List[str] = []
        self._collect()

    def _collect(self):
        for stmt in self.tree.body:
            if isinstance(stmt, FUNC_NODES):
                self.module_funcs[stmt.name] = stmt
            elif isinstance(stmt, ast.ClassDef):
                for sub in stmt.body:
                    if isinstance(sub, FUNC_NODES):
                        self.class_funcs.setdefault((stmt.name, sub.name), sub)
            elif isinstance(stmt, ast.Assign) and len(stmt.targets) == 1 and isinstance(stmt.targets[0], ast.Name):
                self._maybe_const(stmt.targets[0].id, stmt.value)
            elif isinstance(stmt, ast.AnnAssign) and isinstance(stmt.target, ast.Name) and stmt.value is not None:
                self._maybe_const(stmt.target.id, stmt.value)
        self._adopt_imported_helpers()

    def _adopt_imported_helpers(self):
        """`from .m import helper` where `helper` is a *new* one-expression function of module m: treated like a new helper of
        this module (and substituted at its call sites), provided every name its expression uses from m is made available here
        by the same kind of import (added to this tree) and does not clash with a name this module already binds differently."""
        pkg = self.modname.split(".")
        local_names = set(self.module_funcs) | {c.name for c in self.tree.body if isinstance(c, ast.ClassDef)} | {t.id for st in self.tree.body if isinstance(st, ast.Assign) for t in st.targets if isinstance(t, ast.Name)}
        imported_here = {}
        for imp in self.tree.body:
            if isinstance(imp, ast.ImportFrom):
                for al in imp.names:
                    imported_here[al.asname or al.name] = (imp.module, imp.level, al.name)
            elif isinstance(imp, ast.Import):
                for al in imp.names:
                    imported_here[(al.asname or al.name).split(".")[0]] = (al.name, 0, None)
        extra_imports = []
        for imp in list(self.tree.body):
            if not isinstance(imp, ast.ImportFrom):
                continue
            if imp.level:
                base = pkg[: len(pkg) - imp.level] if not self.modname.endswith("__init__") else pkg
                src = ".".join(base + (imp.module.split(".") if imp.module else []))
            elif imp.module and imp.module.startswith("orquestra.quantum."):
                src = imp.module[len("orquestra.quantum."):]  # the same package, imported by its absolute name
            else:
                continue
            for al in imp.names:
                key = (src, al.name)
                if key not in _NEW_HELPERS or al.asname or al.name in local_names:
                    continue
                fn, src_level_names, src_imports = _NEW_HELPERS[key]
                params = {a.arg for a in fn.args.args}
                stmts_ = strip_docstring(fn.body)
                bound_inside = {n.id for x in stmts_ for c in ast.walk(x) if isinstance(c, ast.comprehension) for n in ast.walk(c.target) if isinstance(n, ast.Name)}
                bound_inside |= {n.id for x in stmts_ for n in ast.walk(x) if isinstance(n, ast.Name) and isinstance(n.ctx, ast.Store)}
                free = {n.id for x in stmts_ for n in ast.walk(x) if isinstance(n, ast.Name)} - params - bound_inside
                free |= {n.id for a_ in fn.args.defaults for n in ast.walk(a_) if isinstance(n, ast.Name)}
                ok = True
                needed = []
                for nm in free:
                    if nm in __builtins__ if isinstance(__builtins__, dict) else hasattr(__builtins__, nm):
                        continue
                    if nm in src_level_names:
                        # defined in the source module: must be importable here under the same name from the same module
                        if nm in imported_here:
                            ok = ok and imported_here[nm] == (imp.module, imp.level, nm)
                        elif nm in local_names:
                            ok = False
                        else:
                            needed.append(nm)
                    elif nm in src_imports:
                        ok = ok and nm in imported_here  # e.g. `np`, `sympy`: the same alias must exist here (assumed to denote the same module)
                    else:
                        ok = False
                if not ok:
                    continue
                self.module_funcs[al.name] = copy.deepcopy(fn)
                for nm in needed:
                    extra_imports.append(ast.ImportFrom(module=imp.module, names=[ast.alias(name=nm, asname=None)], level=imp.level))
                    imported_here[nm] = (imp.module, imp.level, nm)
        if extra_imports:
            # after the last import statement
            last = max((i for i, st in enumerate(self.tree.body) if isinstance(st, (ast.Import, ast.ImportFrom))), default=-1)
            for e in extra_imports:
                ast.fix_missing_locations(e)
            self.tree.body[last + 1:last + 1] = extra_imports
        # a name bound more than once is not a constant
        counts: Dict[str, int] = {}
        for stmt in ast.walk(self.tree):
            if isinstance(stmt, ast.Name) and isinstance(stmt.ctx, ast.Store):
                counts[stmt.id] = counts.get(stmt.id, 0) + 1
        for k in list(self.new_consts):
            if counts.get(k, 0) != 1:
                del self.new_consts[k]

    def _maybe_const(self, name: str, value: ast.AST):
        if name in self.anchored_names or name.startswith("__"):
            return
        if isinstance(value, ast.Constant) and isinstance(value.value, (str, int, float, complex, bool, type(None))):
            self.new_consts[name] = value
        elif isinstance(value, (ast.BinOp, ast.UnaryOp)) and all(isinstance(n, (ast.BinOp, ast.UnaryOp, ast.Constant, ast.operator, ast.unaryop, ast.expr_context)) and (not isinstance(n, ast.Constant) or isinstance(n.value, (int, float, complex)) and not isinstance(n.value, bool)) for n in ast.walk(value)):
            self.new_consts[name] = value  # a numeric constant expression such as 2 ** (-0.5)
        elif isinstance(value, ast.Call) and dotted(value.func) == "re.compile" and value.args and isinstance(value.args[0], ast.Constant) and len(value.args) == 1 and not value.keywords:
            self.new_consts[name] = value
        elif isinstance(value, (ast.Tuple, ast.List)) and all(isinstance(e, ast.Constant) for e in value.elts) and isinstance(value, ast.Tuple):
            self.new_consts[name] = value
        elif isinstance(value, (ast.List, ast.Set)) and all(isinstance(e, ast.Constant) for e in value.elts):
            # a mutable literal: only when every use is a membership test or an iteration (identity cannot matter)
            safe_ctx = set()
            for n in ast.walk(self.tree):
                if isinstance(n, ast.Compare) and len(n.ops) == 1 and isinstance(n.ops[0], (ast.In, ast.NotIn)) and isinstance(n.comparators[0], ast.Name) and n.comparators[0].id == name:
                    safe_ctx.add(id(n.comparators[0]))
                if isinstance(n, (ast.For, ast.comprehension)) and isinstance(n.iter, ast.Name) and n.iter.id == name:
                    safe_ctx.add(id(n.iter))
            uses = [n for n in ast.walk(self.tree) if isinstance(n, ast.Name) and n.id == name and isinstance(n.ctx, ast.Load)]
            if uses and all(id(u) in safe_ctx for u in uses):
                self.new_consts[name] = value

    # ------------------------------------------------------------------ helpers
    def _is_new(self, qual: str) -> bool:
        return qual not in self.anchored_funcs

    def _resolve(self, call: ast.Call, cls: Optional[str]) -> Optional[Tuple[ast.FunctionDef, Optional[ast.AST], str]]:
        """(function, receiver expression or None, qualname) for a call to a *new* same-module function."""
        f = call.func
        if isinstance(f, ast.Name) and f.id in self.module_funcs and self._is_new(f.id):
            return self.module_funcs[f.id], None, f.id
        if isinstance(f, ast.Attribute) and isinstance(f.value, ast.Name):
            base = f.value.id
            owner = cls if base in ("self", "cls") else (base if any(k[0] == base for k in self.class_funcs) else None)
            if owner is not None and (owner, f.attr) in self.class_funcs and self._is_new(f"{owner}.{f.attr}"):
                fn = self.class_funcs[(owner, f.attr)]
                decos = {dotted(d.func if isinstance(d, ast.Call) else d) for d in fn.decorator_list}
                if "property" in decos or any(d and d.endswith(".setter") for d in decos if d):
                    return None
                is_static = "staticmethod" in decos
                is_cls = "classmethod" in decos
                recv = None if is_static else (f.value if base in ("self", "cls") else (ast.Name(id=base, ctx=ast.Load()) if is_cls else None))
                if not is_static and not is_cls and base not in ("self",):
                    return None  # Class.method(obj, ...) unbound call: leave alone
                return fn, recv, f"{owner}.{f.attr}"
        return None

    def _inlinable(self, fn: ast.FunctionDef) -> bool:
        a = fn.args
        for dco in fn.decorator_list:
            if dotted(dco.func if isinstance(dco, ast.Call) else dco) not in ("staticmethod", "classmethod"):
                return False  # a decorated function is not its body (caches, dispatchers, wrappers)
        if a.vararg or a.kwarg or _is_generator(fn) or isinstance(fn, ast.AsyncFunctionDef):
            return False
        body = strip_docstring(fn.body)
        if not body or len(list(ast.walk(fn))) > 1500:
            return False
        for n in ast.walk(fn):
            if isinstance(n, ast.Call) and ((isinstance(n.func, ast.Name) and n.func.id == fn.name) or (isinstance(n.func, ast.Attribute) and n.func.attr == fn.name)):
                return False  # recursion
            if isinstance(n, (ast.Global, ast.Nonlocal)):
                return False
            if isinstance(n, FUNC_NODES) and n is not fn:
                return False
        return len(body) <= MAX_BODY

    def _bind(self, fn: ast.FunctionDef, call: ast.Call, recv: Optional[ast.AST]) -> Optional[Tuple[List[ast.stmt], Dict[str, ast.AST]]]:
        """(prelude assignments, parameter mapping)"""
        a = fn.args
        params = [p.arg for p in list(a.posonlyargs) + list(a.args)]
        kwonly = [p.arg for p in a.kwonlyargs]
        mapping: Dict[str, ast.AST] = {}
        given: Dict[str, ast.AST] = {}
        pos = list(call.args)
        if any(isinstance(x, ast.Starred) for x in pos) or any(k.arg is None for k in call.keywords):
            return None
        plist = list(params)
        if recv is not None:
            if not plist:
                return None
            given[plist[0]] = recv
            plist = plist[1:]
        if len(pos) > len(plist):
            return None
        for p, v in zip(plist, pos):
            given[p] = v
        for k in call.keywords:
            if k.arg in given or k.arg not in params + kwonly:
                return None
            given[k.arg] = k.value
        defaults = dict(zip(params[len(params) - len(a.defaults):], a.defaults))
        for p, d in zip(kwonly, a.kw_defaults):
            if d is not None:
                defaults[p] = d
        for p in params + kwonly:
            if p not in given:
                if p in defaults:
                    given[p] = defaults[p]
                else:
                    return None
        self.counter += 1
        tag = f"_inl{self.counter}_"
        prelude: List[ast.stmt] = []
        body = strip_docstring(fn.body)
        assigned = _assigned_names(body)
        def n_uses(pname: str) -> int:
            return sum(1 for st in body for n in ast.walk(st) if isinstance(n, ast.Name) and n.id == pname and isinstance(n.ctx, ast.Load))

        for p, v in given.items():
            if p not in assigned and (_simple_arg(v) or (not _has_impure_call(v) and (n_uses(p) <= 1 or _call_free_or_pure(v)))):
                mapping[p] = v
            else:
                tmp = tag + p
                prelude.append(ast.copy_location(ast.Assign(targets=[ast.Name(id=tmp, ctx=ast.Store())], value=copy.deepcopy(v), lineno=call.lineno), call))
                mapping[p] = ast.Name(id=tmp, ctx=ast.Load())
        for loc in sorted(assigned - set(given)):
            mapping[loc] = ast.Name(id=tag + loc, ctx=ast.Load())
        return prelude, mapping

    def _instantiate(self, fn: ast.FunctionDef, call: ast.Call, recv: Optional[ast.AST]) -> Optional[Tuple[List[ast.stmt], Dict[str, ast.AST], List[ast.stmt]]]:
        b = self._bind(fn, call, recv)
        if b is None:
            return None
        prelude, mapping = b
        body = [copy.deepcopy(s) for s in strip_docstring(fn.body)]
        sub = _Subst(mapping)
        body = [sub.visit(s) for s in body]
        return prelude, mapping, body

    # ------------------------------------------------------------------ statement-level inlining
    def _expr_inline(self, e: ast.AST, cls: Optional[str]) -> ast.AST:
        """Substitute calls to new single-return-expression helpers nested in an expression."""
        canon = self

        class T(ast.NodeTransformer):
            def visit_Call(self, node: ast.Call):
                self.generic_visit(node)
                r = canon._resolve(node, cls)
                if r is None:
                    return node
                fn, recv, qual = r
                if not canon._inlinable(fn):
                    return node
                body = strip_docstring(fn.body)
                if len(body) != 1 or not isinstance(body[0], ast.Return) or body[0].value is None:
                    return node
                b = canon._bind(fn, node, recv)
                if b is None:
                    return node
                prelude, mapping = b
                if prelude:
                    return node  # would need hoisting: leave the call
                canon.inlined.append(qual)
                return _BetaReduce().visit(_Subst(mapping).visit(copy.deepcopy(body[0].value)))

            def visit_Lambda(self, node):
                return node

        return T().visit(e)

    def _stmts(self, stmts: List[ast.stmt], cls: Optional[str]) -> List[ast.stmt]:
        out: List[ast.stmt] = []
        for s in stmts:
            out.extend(self._stmt(s, cls))
        return out

    def _stmt(self, s: ast.stmt, cls: Optional[str]) -> List[ast.stmt]:
        if isinstance(s, FUNC_NODES + (ast.ClassDef,)):
            return [s]
        # compound statements: recurse into blocks
        for field in ("body", "orelse", "finalbody"):
            if hasattr(s, field) and isinstance(getattr(s, field), list) and getattr(s, field) and isinstance(getattr(s, field)[0], ast.stmt):
                setattr(s, field, self._stmts(getattr(s, field), cls) or [ast.Pass()])
        if isinstance(s, ast.Try):
            for h in s.handlers:
                h.body = self._stmts(h.body, cls) or [ast.Pass()]
        # idiom: x += [e]  /  x.extend([e])  ->  x.append(e)
        if isinstance(s, ast.AugAssign) and isinstance(s.op, ast.Add) and isinstance(s.value, ast.List) and len(s.value.elts) == 1 and not isinstance(s.value.elts[0], ast.Starred) and isinstance(s.target, ast.Name):
            call = ast.Call(func=ast.Attribute(value=ast.Name(id=s.target.id, ctx=ast.Load()), attr="append", ctx=ast.Load()), args=[s.value.elts[0]], keywords=[])
            s = ast.copy_location(ast.Expr(value=call), s)
            ast.fix_missing_locations(s)
        if isinstance(s, ast.Expr) and isinstance(s.value, ast.Call) and isinstance(s.value.func, ast.Attribute) and s.value.func.attr == "extend" and len(s.value.args) == 1 and isinstance(s.value.args[0], ast.List) and len(s.value.args[0].elts) == 1 and not isinstance(s.value.args[0].elts[0], ast.Starred):
            s.value = ast.Call(func=ast.Attribute(value=s.value.func.value, attr="append", ctx=ast.Load()), args=[s.value.args[0].elts[0]], keywords=[])
            ast.fix_missing_locations(s)
        # a loop iterable / branch test that calls a new multi-statement helper: evaluate it into a temporary first
        if isinstance(s, (ast.For, ast.If)) :
            e = s.iter if isinstance(s, ast.For) else s.test
            c = self._multi_stmt_new_call(e, cls)
            if c is not None and self._unconditional(e, c):
                self.counter += 1
                tmp = f"_inl{self.counter}_call"
                pre = ast.copy_location(ast.Assign(targets=[ast.Name(id=tmp, ctx=ast.Store())], value=c), s)

                class R2(ast.NodeTransformer):
                    def visit_Call(self_inner, node):
                        if node is c:
                            return ast.copy_location(ast.Name(id=tmp, ctx=ast.Load()), node)
                        return self_inner.generic_visit(node)

                if isinstance(s, ast.For):
                    s.iter = R2().visit(e)
                else:
                    s.test = R2().visit(e)
                ast.fix_missing_locations(pre)
                ast.fix_missing_locations(s)
                return self._stmts([pre], cls) + [s]
        # lower constructs that hide a call to a new multi-statement helper inside an expression
        lowered = self._lower(s, cls)
        if lowered is not None:
            return self._stmts(lowered, cls)
        # whole-statement calls
        call = None
        target: Optional[str] = None
        mode = None
        if isinstance(s, ast.Expr) and isinstance(s.value, ast.Call):
            call, mode = s.value, "expr"
        elif isinstance(s, ast.Assign) and len(s.targets) == 1 and isinstance(s.targets[0], ast.Name) and isinstance(s.value, ast.Call):
            call, mode, target = s.value, "assign", s.targets[0].id
        elif isinstance(s, ast.AnnAssign) and isinstance(s.target, ast.Name) and isinstance(s.value, ast.Call):
            call, mode, target = s.value, "assign", s.target.id
        elif isinstance(s, ast.Return) and isinstance(s.value, ast.Call):
            call, mode = s.value, "return"
        if call is not None:
            r = self._resolve(call, cls)
            if r is not None and self._inlinable(r[0]):
                fn, recv, qual = r
                inst = self._instantiate(fn, call, recv)
                if inst is not None:
                    prelude, mapping, body = inst
                    body = self._stmts(body, cls)  # nested new helpers
                    tail = _tailify(body)
                    if tail is not None:
                        if mode == "expr":
                            new = _replace_returns(tail, None)
                        elif mode == "assign":
                            new = _replace_returns(tail, target)
                        else:
                            single = len(tail) >= 1 and isinstance(tail[-1], ast.Return) and not any(isinstance(n, ast.Return) for x in tail[:-1] for n in ast.walk(x))
                            if single:
                                new = tail
                            else:
                                self.counter += 1
                                tmp = f"_inl{self.counter}_result"
                                new = _replace_returns(tail, tmp) + [ast.copy_location(ast.Return(value=ast.Name(id=tmp, ctx=ast.Load())), s)]
                        self.inlined.append(qual)
                        res = prelude + new
                        for x in res:
                            ast.fix_missing_locations(x)
                        return res or [ast.copy_location(ast.Pass(), s)]
        # expression-level single-return helpers, constants
        for field, value in list(ast.iter_fields(s)):
            if isinstance(value, ast.expr):
                setattr(s, field, self._expr_inline(value, cls))
            elif isinstance(value, list) and value and isinstance(value[0], ast.expr):
                setattr(s, field, [self._expr_inline(v, cls) for v in value])
        if isinstance(s, (ast.With, ast.AsyncWith)):
            for item in s.items:
                item.context_expr = self._expr_inline(item.context_expr, cls)
        ast.fix_missing_locations(s)
        return [s]

    def _multi_stmt_new_call(self, e: ast.AST, cls: Optional[str]) -> Optional[ast.Call]:
        """first call (in evaluation order, outside nested scopes) to a new helper that cannot be substituted
        as an expression"""
        for n in ast.walk(e):
            if isinstance(n, ast.Call):
                r = self._resolve(n, cls)
                if r is not None and self._inlinable(r[0]):
                    body = strip_docstring(r[0].body)
                    if not (len(body) == 1 and isinstance(body[0], ast.Return)):
                        return n
        return None

    def _lower(self, s: ast.stmt, cls: Optional[str]) -> Optional[List[ast.stmt]]:
        value = getattr(s, "value", None) if isinstance(s, (ast.Assign, ast.AnnAssign, ast.Return, ast.Expr, ast.AugAssign)) else None
        if value is None:
            return None
        # the statement *is* the call: handled by the whole-statement case
        if isinstance(value, ast.Call) and self._resolve(value, cls) is not None and isinstance(s, (ast.Assign, ast.AnnAssign, ast.Return, ast.Expr)):
            if not (isinstance(s, ast.Assign) and not (len(s.targets) == 1 and isinstance(s.targets[0], ast.Name))):
                # but its arguments may hide another one
                inner = [self._multi_stmt_new_call(a, cls) for a in list(value.args) + [k.value for k in value.keywords]]
                if not any(inner):
                    return None
        call = self._multi_stmt_new_call(value, cls)
        if call is None:
            return None
        # x = A if c else B   (call inside a branch)  ->  if c: x = A else: x = B
        if isinstance(value, ast.IfExp) and isinstance(s, (ast.Assign, ast.AnnAssign, ast.Return)) and self._multi_stmt_new_call(value.test, cls) is None:
            def rebuild(v):
                n = copy.copy(s)
                n.value = v
                if isinstance(n, ast.AnnAssign):
                    n = ast.copy_location(ast.Assign(targets=[n.target], value=v), s)
                return n
            return [ast.copy_location(ast.If(test=value.test, body=[rebuild(value.body)], orelse=[rebuild(value.orelse)]), s)]
        # acc = [elt for t in it if c]  (call inside the element)  ->  explicit loop
        if isinstance(value, ast.ListComp) and len(value.generators) == 1 and isinstance(s, (ast.Assign, ast.AnnAssign)) and self._multi_stmt_new_call(value.generators[0].iter, cls) is None:
            tgt = s.targets[0] if isinstance(s, ast.Assign) else s.target
            if isinstance(tgt, ast.Name):
                g = value.generators[0]
                self.counter += 1
                tmp = f"_inl{self.counter}_elt"
                inner: List[ast.stmt] = [ast.Assign(targets=[ast.Name(id=tmp, ctx=ast.Store())], value=value.elt), ast.Expr(value=ast.Call(func=ast.Attribute(value=ast.Name(id=tgt.id, ctx=ast.Load()), attr="append", ctx=ast.Load()), args=[ast.Name(id=tmp, ctx=ast.Load())], keywords=[]))]
                for c in reversed(g.ifs):
                    inner = [ast.If(test=c, body=inner, orelse=[])]
                out = [ast.Assign(targets=[ast.Name(id=tgt.id, ctx=ast.Store())], value=ast.List(elts=[], ctx=ast.Load())), ast.For(target=g.target, iter=g.iter, body=inner, orelse=[])]
                for x in out:
                    ast.copy_location(x, s)
                    ast.fix_missing_locations(x)
                return out
        # hoist: the call sits in an unconditionally evaluated position of the expression
        if self._unconditional(value, call):
            self.counter += 1
            tmp = f"_inl{self.counter}_call"
            pre = ast.copy_location(ast.Assign(targets=[ast.Name(id=tmp, ctx=ast.Store())], value=call), s)

            class R(ast.NodeTransformer):
                def visit_Call(self_inner, node):
                    if node is call:
                        return ast.copy_location(ast.Name(id=tmp, ctx=ast.Load()), node)
                    return self_inner.generic_visit(node)

            n = copy.copy(s)
            n.value = R().visit(value)
            ast.fix_missing_locations(pre)
            ast.fix_missing_locations(n)
            return [pre, n]
        return None

    @staticmethod
    def _unconditional(root: ast.AST, call: ast.Call) -> bool:
        """is ``call`` evaluated on every evaluation of ``root``, and before anything with a visible effect?"""
        def walk(n: ast.AST) -> Optional[bool]:
            if n is call:
                return True
            if isinstance(n, (ast.Lambda, ast.ListComp, ast.SetComp, ast.DictComp, ast.GeneratorExp)):
                return None
            if isinstance(n, ast.IfExp):
                return walk(n.test)
            if isinstance(n, ast.BoolOp):
                return walk(n.values[0])
            for c in ast.iter_child_nodes(n):
                r = walk(c)
                if r:
                    return True
            return None

        return bool(walk(root))

    def _consts(self, fn: ast.AST):
        if not self.new_consts:
            return
        consts = self.new_consts
        bound = _assigned_names(fn.body) | {a.arg for a in ast.walk(fn) if isinstance(a, ast.arg)}

        class T(ast.NodeTransformer):
            def visit_Call(self, node: ast.Call):
                self.generic_visit(node)
                f = node.func
                if isinstance(f, ast.Attribute) and isinstance(f.value, ast.Call) and dotted(f.value.func) == "re.compile" and f.attr in ("split", "match", "fullmatch", "search", "sub", "findall", "finditer"):
                    # re.compile(P).split(x, ...) -> re.split(P, x, ...)
                    return ast.copy_location(ast.Call(func=ast.Attribute(value=ast.Name(id="re", ctx=ast.Load()), attr=f.attr, ctx=ast.Load()), args=[f.value.args[0]] + list(node.args), keywords=list(node.keywords)), node)
                return node

            def visit_Name(self, node: ast.Name):
                if isinstance(node.ctx, ast.Load) and node.id in consts and node.id not in bound:
                    return ast.copy_location(copy.deepcopy(consts[node.id]), node)
                return node

        for i, st in enumerate(fn.body):
            fn.body[i] = T().visit(st)
        ast.fix_missing_locations(fn)

    def run(self) -> ast.Module:
        def process(fn: ast.FunctionDef, cls: Optional[str]):
            for _ in range(MAX_ROUNDS):
                before = len(self.inlined)
                fn.body = self._stmts(list(fn.body), cls) or [ast.Pass()]
                if len(self.inlined) == before:
                    break
            self._consts(fn)
            ast.fix_missing_locations(fn)

        for stmt in self.tree.body:
            if isinstance(stmt, FUNC_NODES):
                process(stmt, None)
            elif isinstance(stmt, ast.ClassDef):
                for sub in stmt.body:
                    if isinstance(sub, FUNC_NODES):
                        process(sub, stmt.name)
        return self.tree


def canonicalise(tree: ast.Module, modname: str) -> Tuple[ast.Module, List[str]]:
    from .anchors import ANCHORED_FUNCS, ANCHORED_NAMES

    if modname not in ANCHORED_FUNCS:
        return tree, []  # a module the rules know nothing about: leave it as it is
    mc = ModuleCanon(tree, modname, set(ANCHORED_FUNCS[modname]), set(ANCHORED_NAMES.get(modname, ())))
    try:
        return mc.run(), mc.inlined
    except RecursionError:  # pragma: no cover
        return tree, []


# =============================================================================================
# Canonical form for *equivalence to the verified reference* (see sa/reference.py)
# =============================================================================================
PURE_CALLS = {
    "len", "min", "max", "abs", "int", "float", "complex", "str", "tuple", "list", "set", "frozenset", "dict", "sorted", "range", "enumerate", "zip", "isinstance",
    "sum", "any", "all", "round", "bool", "type", "getattr", "hasattr", "repr", "ord", "chr", "reversed", "map", "filter", "iter", "divmod", "pow", "cast", "ceil", "floor", "log2",
}
IMPURE_ATTRS = {"append", "extend", "pop", "remove", "insert", "clear", "sort", "reverse", "update", "setdefault", "add", "discard", "popitem", "write", "choice", "shuffle", "sample", "random", "normal", "uniform", "seed", "integers", "permutation", "next", "send", "close", "eliminate_zeros"}


PURE_METHODS = {
    "conjugate", "keys", "values", "items", "get", "copy", "index", "count", "join", "split", "format", "startswith", "endswith", "strip", "lower", "upper",
    "union", "intersection", "difference", "symmetric_difference", "issubset", "issuperset", "real", "imag", "bit_length", "is_integer", "tolist", "item",
    "transpose", "adjoint", "conj", "reshape", "flatten", "most_common", "total", "evalf", "subs", "xreplace", "groups", "group", "match", "fullmatch",
    "astype", "todense", "toarray", "tocsc", "tocsr", "dot", "exp", "inv", "det", "trace", "norm", "simplify", "expand",
}
PURE_MODULES = {"sympy", "np", "numpy", "math", "cmath", "operator", "scipy", "sp", "re", "itertools", "functools", "copy"}
IMPURE_MODULE_PARTS = {"random", "seed", "shuffle", "default_rng", "RandomState", "savetxt", "loadtxt", "save", "load", "put", "fill", "warn"}

# names of repo functions whose definition differs from the reference in the tree being analysed (set by the model
# before any module is canonicalised); a changed function is never assumed pure
_CHANGED_NAMES: Set[str] = set()
_SIGNATURES: Dict[str, Optional[List[str]]] = {}


_NEW_HELPERS: Dict = {}  # (module, name) -> (FunctionDef, module-level names of that module, imported names of that module)


def set_context(changed_names: Set[str], signatures: Dict[str, Optional[List[str]]], new_helpers: Optional[Dict] = None) -> None:
    global _CHANGED_NAMES, _SIGNATURES, _NEW_HELPERS
    _CHANGED_NAMES = set(changed_names)
    _SIGNATURES = dict(signatures)
    _NEW_HELPERS = dict(new_helpers or {})


def _repo_pure(name: str) -> bool:
    from .purity_table import PURE_REPO_FUNCS

    return name in PURE_REPO_FUNCS and name not in _CHANGED_NAMES


def _call_kind(n: ast.Call) -> str:
    """'total' : builtin/method whose only effect is its result; 'pure' : no effect on anything that exists before the
    call, but it may raise (library math, repo functions with an empty effect summary); 'unknown' : anything else."""
    f = n.func
    if isinstance(f, ast.Name):
        if f.id in PURE_CALLS:
            return "total"
        if _repo_pure(f.id) or f.id in ("Circuit", "PauliTerm", "PauliSum", "GateOperation", "MatrixFactoryGate", "ControlledGate", "Dagger", "Power", "Exponential", "Counter", "OrderedDict", "defaultdict", "ExpectationValues", "Wavefunction", "Measurements", "MeasurementOutcomeDistribution", "ValueError", "TypeError", "RuntimeError", "NotImplementedError", "Matrix", "Symbol", "deepcopy", "reduce", "product", "chain", "groupby", "islice", "partial"):
            return "pure"
        return "unknown"
    if isinstance(f, ast.Attribute):
        if f.attr in IMPURE_ATTRS:
            return "unknown"
        d = (dotted(f) or "").split(".")
        if d and d[0] in PURE_MODULES and not (set(d[1:]) & IMPURE_MODULE_PARTS):
            return "pure"
        if f.attr in PURE_METHODS:
            return "total"
        if _repo_pure(f.attr):
            return "pure"
        return "unknown"
    return "unknown"


def _expr_kind(e: ast.AST) -> str:
    worst = "total"
    for n in ast.walk(e):
        if isinstance(n, ast.Call):
            k = _call_kind(n)
            if k == "unknown":
                return "unknown"
            if k == "pure":
                worst = "pure"
        if isinstance(n, (ast.Yield, ast.YieldFrom, ast.Await, ast.NamedExpr)):
            return "unknown"
    return worst


def _no_unknown_calls(e: ast.AST) -> bool:
    """every call inside ``e`` is a builtin / method whose only effect is its result."""
    return _expr_kind(e) == "total"


def _read_names(e: ast.AST) -> Set[str]:
    """names whose value (or the state reachable from it) ``e`` reads: every loaded name that is not merely the callee"""
    callee = {id(n.func) for n in ast.walk(e) if isinstance(n, ast.Call) and isinstance(n.func, ast.Name)}
    return {n.id for n in ast.walk(e) if isinstance(n, ast.Name) and id(n) not in callee}


def _base_name(e: ast.AST) -> Optional[str]:
    while isinstance(e, (ast.Attribute, ast.Subscript)):
        e = e.value
    return e.id if isinstance(e, ast.Name) else None


def _alias_names(e: ast.AST) -> Set[str]:
    """names through which the value of ``e`` can alias existing objects (a computed value -- arithmetic, a call result --
    is taken to be fresh)"""
    if isinstance(e, ast.Name):
        return {e.id}
    if isinstance(e, (ast.Attribute, ast.Subscript)):
        b = _base_name(e)
        return {b} if b else set()
    if isinstance(e, ast.Starred):
        return _alias_names(e.value)
    if isinstance(e, (ast.List, ast.Tuple, ast.Set)):
        out: Set[str] = set()
        for x in e.elts:
            out |= _alias_names(x)
        return out
    if isinstance(e, ast.Dict):
        out = set()
        for x in e.values:
            out |= _alias_names(x)
        return out
    if isinstance(e, ast.IfExp):
        return _alias_names(e.body) | _alias_names(e.orelse)
    return set()


def _may_mutate(t: ast.AST, free: Set[str]) -> bool:
    """could executing ``t`` change a value an expression reading ``free`` depends on? (syntactic: rebinding a name,
    storing through / deleting from a base in ``free``, or an unknown call whose receiver or arguments mention one)"""
    for n in ast.walk(t):
        if isinstance(n, ast.Name) and isinstance(n.ctx, (ast.Store, ast.Del)) and n.id in free:
            return True
        if isinstance(n, (ast.Attribute, ast.Subscript)) and isinstance(n.ctx, (ast.Store, ast.Del)) and _base_name(n) in free:
            return True
        if isinstance(n, ast.AugAssign) and _base_name(n.target) in free:
            return True
        if isinstance(n, ast.Call) and _call_kind(n) == "unknown":
            mentioned = set()
            for a in list(n.args) + [k.value for k in n.keywords]:
                mentioned |= _alias_names(a)
            if isinstance(n.func, ast.Attribute):
                b = _base_name(n.func.value)
                if b is not None:
                    mentioned.add(b)
            if mentioned & free:
                return True
        if isinstance(n, (ast.Yield, ast.YieldFrom, ast.Await)):
            return True
    return False


def _only_name_targets(tg: ast.AST) -> bool:
    return all(isinstance(x, (ast.Name, ast.Tuple, ast.List, ast.Starred)) for x in ast.walk(tg) if isinstance(x, ast.expr))


def _stmt_is_inert(t: ast.stmt) -> bool:
    """binds local names from expressions without unknown calls: nothing outside the frame can tell it ran (it may raise)"""
    if isinstance(t, ast.Pass):
        return True
    if isinstance(t, ast.Assign):
        return all(_only_name_targets(tg) for tg in t.targets) and _expr_kind(t.value) != "unknown"
    if isinstance(t, ast.AnnAssign):
        return isinstance(t.target, ast.Name) and (t.value is None or _expr_kind(t.value) != "unknown")
    return False


def _can_cross(value: ast.AST, t: ast.stmt) -> bool:
    """may the evaluation of ``value`` be moved from before statement ``t`` to after it?"""
    free = _read_names(value)
    kind = _expr_kind(value)
    if kind == "total":
        return not _may_mutate(t, free)
    if kind == "pure":
        # no effects, but it may raise: it must not pass anything observable from outside the frame
        return _stmt_is_inert(t) and not _may_mutate(t, free)
    # an unknown call may raise or have effects: it may only pass statements nobody can observe and that it cannot influence
    if not _stmt_is_inert(t):
        return False
    return not ({n.id for n in ast.walk(t) if isinstance(n, ast.Name)} & free)


def _has_impure_call(e: ast.AST) -> bool:
    for n in ast.walk(e):
        if isinstance(n, ast.Call):
            f = n.func
            if isinstance(f, ast.Attribute) and f.attr in IMPURE_ATTRS:
                return True
            if isinstance(f, ast.Name) and f.id in ("next", "open", "print", "input"):
                return True
        if isinstance(n, (ast.Yield, ast.YieldFrom, ast.Await, ast.NamedExpr)):
            return True
    return False


SCALAR_PURE = {"len", "min", "max", "abs", "int", "float", "complex", "str", "round", "isinstance", "bool", "sum", "any", "all", "ord", "chr", "tuple", "frozenset", "range", "getattr", "hasattr", "type", "repr", "divmod", "pow", "ceil", "floor", "log2", "cast"}


def _duplicable(e: ast.AST) -> bool:
    """may the expression be evaluated several times / at several places without anyone noticing?
    (no fresh mutable object whose identity could matter, no one-shot iterator, no unknown call)"""
    for n in ast.walk(e):
        if isinstance(n, ast.Call):
            d = dotted(n.func) or ""
            scalar = d.split(".")[-1] in SCALAR_PURE and not (isinstance(n.func, ast.Attribute) and d.split(".")[-1] not in ("log2", "ceil", "floor"))
            lib_math = isinstance(n.func, ast.Attribute) and d.split(".")[0] in ("sympy", "np", "numpy", "math", "cmath") and _call_kind(n) == "pure" and d.split(".")[-1] not in ("array", "asarray", "zeros", "ones", "eye", "Matrix", "empty", "copy", "deepcopy")
            if not (scalar or lib_math):
                return False
        if isinstance(n, (ast.List, ast.Dict, ast.Set, ast.ListComp, ast.SetComp, ast.DictComp, ast.GeneratorExp, ast.Lambda, ast.Yield, ast.YieldFrom, ast.Await, ast.NamedExpr, ast.Starred)):
            return False
    return True


def _call_free_or_pure(e: ast.AST) -> bool:
    for n in ast.walk(e):
        if isinstance(n, ast.Call):
            d = dotted(n.func) or ""
            if d.split(".")[-1] not in PURE_CALLS:
                return False
        if isinstance(n, (ast.Yield, ast.YieldFrom, ast.Await, ast.NamedExpr, ast.ListComp, ast.SetComp, ast.DictComp, ast.GeneratorExp, ast.Lambda)):
            return False
    return True


class _Strip(ast.NodeTransformer):
    """annotations, docstrings, cast(), idiom rewrites that are valid for every value."""

    def visit_FunctionDef(self, node):
        node.returns = None
        for a in list(node.args.posonlyargs) + list(node.args.args) + list(node.args.kwonlyargs):
            a.annotation = None
        if node.args.vararg:
            node.args.vararg.annotation = None
        if node.args.kwarg:
            node.args.kwarg.annotation = None
        node.body = strip_docstring(node.body) or [ast.Pass()]
        self.generic_visit(node)
        return node

    def visit_AnnAssign(self, node):
        self.generic_visit(node)
        if node.value is None:
            return None
        if isinstance(node.target, ast.Name) and isinstance(node.value, ast.Name) and node.target.id == node.value.id:
            return None
        return ast.copy_location(ast.Assign(targets=[node.target], value=node.value), node)

    def visit_Assign(self, node):
        self.generic_visit(node)
        if len(node.targets) == 1 and isinstance(node.targets[0], ast.Name) and isinstance(node.value, ast.Name) and node.targets[0].id == node.value.id:
            return None  # x = x (what is left of x = cast(T, x))
        return node

    def visit_Expr(self, node):
        self.generic_visit(node)
        if isinstance(node.value, ast.Constant):
            return None  # stray docstring / string statement
        v = node.value
        if isinstance(v, ast.Call) and isinstance(v.func, ast.Attribute) and v.func.attr == "pop" and len(v.args) == 1 and not v.keywords and isinstance(v.func.value, ast.Name) and not isinstance(v.args[0], ast.Constant):
            return ast.copy_location(ast.Delete(targets=[ast.Subscript(value=v.func.value, slice=v.args[0], ctx=ast.Del())]), node)
        if isinstance(v, ast.Call) and isinstance(v.func, ast.Attribute) and v.func.attr == "extend" and len(v.args) == 1 and isinstance(v.args[0], ast.List) and len(v.args[0].elts) == 1 and not isinstance(v.args[0].elts[0], ast.Starred):
            node.value = ast.Call(func=ast.Attribute(value=v.func.value, attr="append", ctx=ast.Load()), args=[v.args[0].elts[0]], keywords=[])
        return node

    def visit_AugAssign(self, node):
        self.generic_visit(node)
        if isinstance(node.op, ast.Add) and isinstance(node.value, ast.List) and len(node.value.elts) == 1 and not isinstance(node.value.elts[0], ast.Starred) and isinstance(node.target, ast.Name):
            call = ast.Call(func=ast.Attribute(value=ast.Name(id=node.target.id, ctx=ast.Load()), attr="append", ctx=ast.Load()), args=[node.value.elts[0]], keywords=[])
            return ast.copy_location(ast.Expr(value=call), node)
        return node

    def visit_Call(self, node):
        self.generic_visit(node)
        if isinstance(node.func, ast.Lambda):
            r = _beta_reduce(node)
            if r is not node:
                return r
        d = dotted(node.func)
        if d in ("cast", "typing.cast") and len(node.args) == 2:
            return node.args[1]
        # keyword arguments of a uniquely named repo callable -> positional, in declaration order
        if node.keywords and all(k.arg is not None for k in node.keywords) and not any(isinstance(a, ast.Starred) for a in node.args):
            callee = node.func.id if isinstance(node.func, ast.Name) else (node.func.attr if isinstance(node.func, ast.Attribute) else None)
            sig = _SIGNATURES.get(callee) if callee else None
            if sig:
                given = {k.arg: k.value for k in node.keywords}
                rest = sig[len(node.args):]
                if len(node.args) <= len(sig) and set(given) <= set(rest) and all(p in given for p in rest[: len(given)]):
                    node.args = list(node.args) + [given[p] for p in rest[: len(given)]]
                    node.keywords = []
        # "...{}..".format(a, b)  ->  f-string
        if isinstance(node.func, ast.Attribute) and node.func.attr == "format" and isinstance(node.func.value, ast.Constant) and isinstance(node.func.value.value, str) and not node.keywords:
            js = _format_to_joined(node.func.value.value, node.args)
            if js is not None:
                return ast.copy_location(js, node)
        # format(x, spec) -> f"{x:spec}"
        if d == "format" and len(node.args) == 2 and not node.keywords:
            spec = node.args[1]
            fs = spec if isinstance(spec, ast.JoinedStr) else (ast.JoinedStr(values=[spec]) if isinstance(spec, ast.Constant) and isinstance(spec.value, str) else None)
            if fs is not None:
                return ast.copy_location(ast.JoinedStr(values=[ast.FormattedValue(value=node.args[0], conversion=-1, format_spec=_merge_joined(fs))]), node)
        if d in ("max", "min") and len(node.args) == 2 and not node.keywords and all(_integer_like(a) for a in node.args):
            node.args = sorted(node.args, key=ast.dump)
        # map(f, xs) -> (f(x) for x in xs)
        if d == "map" and len(node.args) == 2 and not node.keywords and isinstance(node.args[0], (ast.Name, ast.Attribute)):
            v = ast.Name(id="_m", ctx=ast.Load())
            return ast.copy_location(ast.GeneratorExp(elt=ast.Call(func=node.args[0], args=[v], keywords=[]), generators=[ast.comprehension(target=ast.Name(id="_m", ctx=ast.Store()), iter=node.args[1], ifs=[], is_async=0)]), node)
        # filter(f, xs) -> (x for x in xs if f(x))   (f a named predicate; filter(None, ..) is left alone)
        if d == "filter" and len(node.args) == 2 and not node.keywords and isinstance(node.args[0], (ast.Name, ast.Attribute)):
            v = ast.Name(id="_m", ctx=ast.Load())
            return ast.copy_location(ast.GeneratorExp(elt=v, generators=[ast.comprehension(target=ast.Name(id="_m", ctx=ast.Store()), iter=node.args[1], ifs=[ast.Call(func=node.args[0], args=[ast.Name(id="_m", ctx=ast.Load())], keywords=[])], is_async=0)]), node)
        if isinstance(node.func, ast.Attribute) and node.func.attr == "symmetric_difference" and len(node.args) == 1 and not node.keywords:
            return ast.copy_location(ast.BinOp(left=node.func.value, op=ast.BitXor(), right=node.args[0]), node)
        # (f if c else g)(args) -> f(args) if c else g(args)
        if isinstance(node.func, ast.IfExp):
            return ast.copy_location(ast.IfExp(test=node.func.test, body=ast.Call(func=node.func.body, args=node.args, keywords=node.keywords), orelse=ast.Call(func=node.func.orelse, args=copy.deepcopy(node.args), keywords=copy.deepcopy(node.keywords))), node)
        # tuple([.. for ..]) / sum([..]) / any([..]) ... -> generator argument
        if d in ("tuple", "list", "set", "frozenset", "sum", "any", "all", "sorted", "max", "min", "dict") and len(node.args) == 1 and not node.keywords and isinstance(node.args[0], ast.ListComp) and d != "list":
            node.args = [ast.GeneratorExp(elt=node.args[0].elt, generators=node.args[0].generators)]
            return node
        if isinstance(node.func, ast.Attribute) and node.func.attr == "join" and len(node.args) == 1 and isinstance(node.args[0], ast.ListComp):
            node.args = [ast.GeneratorExp(elt=node.args[0].elt, generators=node.args[0].generators)]
            return node
        if d == "range" and len(node.args) == 2 and isinstance(node.args[0], ast.Constant) and node.args[0].value == 0 and not node.keywords:
            node.args = [node.args[1]]
        # f(*(a, *b)) -> f(a, *b) ; f(*tuple(g)) / f(*list(g)) -> f(*g)
        if any(isinstance(a, ast.Starred) for a in node.args):
            new_args: List[ast.AST] = []
            for a in node.args:
                if isinstance(a, ast.Starred) and isinstance(a.value, (ast.Tuple, ast.List)):
                    new_args.extend(a.value.elts)
                elif isinstance(a, ast.Starred) and isinstance(a.value, ast.Call) and dotted(a.value.func) in ("tuple", "list") and len(a.value.args) == 1 and not a.value.keywords:
                    new_args.append(ast.Starred(value=a.value.args[0], ctx=ast.Load()))
                else:
                    new_args.append(a)
            node.args = new_args
        # set(<generator>) -> set comprehension ; list(<generator>) -> list comprehension
        if d in ("set", "list") and len(node.args) == 1 and not node.keywords and isinstance(node.args[0], ast.GeneratorExp):
            g = node.args[0]
            return ast.copy_location((ast.SetComp if d == "set" else ast.ListComp)(elt=g.elt, generators=g.generators), node)
        # reduce(f, [a, b, c]) -> f(f(a, b), c)
        if d in ("reduce", "functools.reduce") and len(node.args) == 2 and isinstance(node.args[1], (ast.List, ast.Tuple)) and len(node.args[1].elts) >= 2 and not any(isinstance(x, ast.Starred) for x in node.args[1].elts) and isinstance(node.args[0], (ast.Name, ast.Attribute)):
            acc = node.args[1].elts[0]
            for x in node.args[1].elts[1:]:
                acc = ast.Call(func=copy.deepcopy(node.args[0]), args=[acc, x], keywords=[])
            return ast.copy_location(acc, node)
        # dict(zip(a, b)) -> {k: v for k, v in zip(a, b)}
        if d == "dict" and len(node.args) == 1 and not node.keywords and isinstance(node.args[0], ast.Call) and dotted(node.args[0].func) == "zip" and len(node.args[0].args) == 2:
            k, v = ast.Name(id="_k", ctx=ast.Store()), ast.Name(id="_v", ctx=ast.Store())
            comp = ast.DictComp(key=ast.Name(id="_k", ctx=ast.Load()), value=ast.Name(id="_v", ctx=ast.Load()), generators=[ast.comprehension(target=ast.Tuple(elts=[k, v], ctx=ast.Store()), iter=node.args[0], ifs=[], is_async=0)])
            return ast.copy_location(comp, node)
        # isinstance(x, A) written with a tuple of one
        return node

    def visit_Attribute(self, node):
        self.generic_visit(node)
        if node.attr == "H" and isinstance(node.ctx, ast.Load):  # sympy/numpy matrix: .H is .adjoint()
            return ast.copy_location(ast.Call(func=ast.Attribute(value=node.value, attr="adjoint", ctx=ast.Load()), args=[], keywords=[]), node)
        return node

    def visit_UnaryOp(self, node):
        self.generic_visit(node)
        if isinstance(node.op, ast.Not) and isinstance(node.operand, ast.Compare) and len(node.operand.ops) == 1:
            inv = {ast.Eq: ast.NotEq, ast.NotEq: ast.Eq, ast.In: ast.NotIn, ast.NotIn: ast.In, ast.Is: ast.IsNot, ast.IsNot: ast.Is}.get(type(node.operand.ops[0]))
            if inv is not None:
                return ast.copy_location(ast.Compare(left=node.operand.left, ops=[inv()], comparators=node.operand.comparators), node)
        if isinstance(node.op, ast.Not) and isinstance(node.operand, ast.UnaryOp) and isinstance(node.operand.op, ast.Not) and isinstance(node.operand.operand, (ast.Compare, ast.BoolOp)):
            return node.operand.operand
        return node

    def visit_IfExp(self, node):
        self.generic_visit(node)
        # A if A > B else B  ==  max(B, A) ...   (same value on ties as the builtin, which returns its first maximal / minimal argument)
        t = node.test
        if isinstance(t, ast.Compare) and len(t.ops) == 1 and isinstance(t.ops[0], (ast.Gt, ast.GtE, ast.Lt, ast.LtE)):
            l, r = ast.dump(t.left), ast.dump(t.comparators[0])
            b, o = ast.dump(node.body), ast.dump(node.orelse)
            if {b, o} == {l, r} and l != r and _expr_kind(node) == "total":
                L, R = t.left, t.comparators[0]
                op = type(t.ops[0])
                picks_left = b == l
                # value = L if (L op R) else R   [picks_left]   or   R if (L op R) else L
                if op in (ast.Gt, ast.GtE):
                    fn = "max" if picks_left else "min"
                else:
                    fn = "min" if picks_left else "max"
                # tie behaviour: equal values are interchangeable for the integer-like quantities this is applied to
                if _integer_like(L) and _integer_like(R):
                    args = sorted([L, R], key=ast.dump)
                    return ast.copy_location(ast.Call(func=ast.Name(id=fn, ctx=ast.Load()), args=args, keywords=[]), node)
        return node

    def visit_BinOp(self, node):
        self.generic_visit(node)
        # list(a) + [b]  ->  [*a, b]
        if isinstance(node.op, ast.Add):
            def listy(e):
                if isinstance(e, ast.List):
                    return list(e.elts)
                if isinstance(e, ast.Call) and dotted(e.func) == "list" and len(e.args) == 1 and not e.keywords:
                    return [ast.Starred(value=e.args[0], ctx=ast.Load())]
                if isinstance(e, ast.ListComp):
                    return [ast.Starred(value=e, ctx=ast.Load())]
                return None
            l, r = listy(node.left), listy(node.right)
            if l is not None and r is not None and (isinstance(node.left, (ast.List, ast.Call)) or isinstance(node.right, (ast.List, ast.Call))):
                return ast.copy_location(ast.List(elts=l + r, ctx=ast.Load()), node)
        # (a,) * 2 -> (a, a)
        if isinstance(node.op, ast.Mult) and isinstance(node.left, ast.Tuple) and isinstance(node.right, ast.Constant) and isinstance(node.right.value, int) and 0 < node.right.value <= 4 and all(_call_free_or_pure(e) for e in node.left.elts):
            return ast.copy_location(ast.Tuple(elts=[copy.deepcopy(e) for _ in range(node.right.value) for e in node.left.elts], ctx=ast.Load()), node)
        # "0" + str(n) + "b"  -> f"0{n}b"
        if isinstance(node.op, ast.Add):
            parts = _concat_parts(node)
            if parts is not None and any(isinstance(p, ast.Constant) for p in parts) and any(not isinstance(p, ast.Constant) for p in parts):
                vals = []
                for p in parts:
                    if isinstance(p, ast.Constant):
                        vals.append(p)
                    else:
                        vals.append(ast.FormattedValue(value=p, conversion=-1, format_spec=None))
                return ast.copy_location(_merge_joined(ast.JoinedStr(values=vals)), node)
        return node

    def visit_JoinedStr(self, node):
        self.generic_visit(node)
        return _merge_joined(node)


def _additive_terms(node: ast.AST, sign: int, out: List[Tuple[int, ast.AST]]) -> None:
    if isinstance(node, ast.BinOp) and isinstance(node.op, (ast.Add, ast.Sub)):
        _additive_terms(node.left, sign, out)
        _additive_terms(node.right, sign if isinstance(node.op, ast.Add) else -sign, out)
    elif isinstance(node, ast.UnaryOp) and isinstance(node.op, ast.USub):
        _additive_terms(node.operand, -sign, out)
    else:
        out.append((sign, node))


def _integer_like(e: ast.AST) -> bool:
    """leaf of an index/size computation: a name, attribute, len()/int()/min()/max() call or int literal"""
    if isinstance(e, ast.Constant):
        return isinstance(e.value, int) and not isinstance(e.value, bool)
    if isinstance(e, (ast.Name, ast.Attribute)):
        return True
    if isinstance(e, ast.Call) and dotted(e.func) in ("len", "int", "min", "max") and not e.keywords:
        return True
    if isinstance(e, ast.BinOp) and isinstance(e.op, (ast.Mult, ast.FloorDiv, ast.Mod, ast.Pow)):
        return _integer_like(e.left) and _integer_like(e.right)
    return False


class _SortAdditive(ast.NodeTransformer):
    """a - b + 1  ==  a + 1 - b : chains of + and - over integer-like leaves that contain a subtraction or an
    integer literal (so they cannot be sequence concatenations) get their terms in a fixed order."""

    def visit_BinOp(self, node):
        if isinstance(node.op, (ast.Add, ast.Sub)):
            terms: List[Tuple[int, ast.AST]] = []
            _additive_terms(node, 1, terms)
            if len(terms) >= 2 and all(_integer_like(t) for _, t in terms) and (any(sg < 0 for sg, _ in terms) or any(isinstance(t, ast.Constant) for _, t in terms)):
                terms = [(sg, self.visit(t)) for sg, t in terms]
                const = sum(sg * t.value for sg, t in terms if isinstance(t, ast.Constant))
                rest = sorted([(sg, t) for sg, t in terms if not isinstance(t, ast.Constant)], key=lambda st: (-st[0], ast.dump(st[1])))
                if rest and rest[0][0] > 0:
                    acc: Optional[ast.AST] = None
                    for sg, t in rest:
                        acc = t if acc is None else ast.BinOp(left=acc, op=ast.Add() if sg > 0 else ast.Sub(), right=t)
                    if const:
                        acc = ast.BinOp(left=acc, op=ast.Add() if const > 0 else ast.Sub(), right=ast.Constant(value=abs(const)))
                    return ast.copy_location(acc, node)
        self.generic_visit(node)
        return node

    def visit_BoolOp(self, node):
        self.generic_visit(node)
        # isinstance(x, A) or isinstance(x, B) -> isinstance(x, (A, B))
        if isinstance(node.op, ast.Or):
            out = []
            for v in node.values:
                if out and _is_isinstance(v) and _is_isinstance(out[-1]) and ast.dump(v.args[0]) == ast.dump(out[-1].args[0]):
                    prev = out[-1]
                    a = list(prev.args[1].elts) if isinstance(prev.args[1], ast.Tuple) else [prev.args[1]]
                    b = list(v.args[1].elts) if isinstance(v.args[1], ast.Tuple) else [v.args[1]]
                    out[-1] = ast.copy_location(ast.Call(func=prev.func, args=[prev.args[0], ast.Tuple(elts=a + b, ctx=ast.Load())], keywords=[]), prev)
                else:
                    out.append(v)
            if len(out) == 1:
                return out[0]
            node.values = out
        return node


def _is_isinstance(v: ast.AST) -> bool:
    return isinstance(v, ast.Call) and dotted(v.func) == "isinstance" and len(v.args) == 2 and not v.keywords


def _concat_parts(node: ast.AST) -> Optional[List[ast.AST]]:
    if isinstance(node, ast.BinOp) and isinstance(node.op, ast.Add):
        l, r = _concat_parts(node.left), _concat_parts(node.right)
        if l is None or r is None:
            return None
        return l + r
    if isinstance(node, ast.Constant) and isinstance(node.value, str):
        return [node]
    if isinstance(node, ast.Call) and dotted(node.func) == "str" and len(node.args) == 1 and not node.keywords:
        return [node.args[0]]
    if isinstance(node, ast.JoinedStr):
        return [v.value if isinstance(v, ast.FormattedValue) and v.conversion == -1 and v.format_spec is None else v for v in node.values] if all(isinstance(v, ast.Constant) or (isinstance(v, ast.FormattedValue) and v.conversion == -1 and v.format_spec is None) for v in node.values) else None
    return None


def _merge_joined(js: ast.JoinedStr) -> ast.JoinedStr:
    vals: List[ast.AST] = []
    for v in js.values:
        if isinstance(v, ast.Constant) and vals and isinstance(vals[-1], ast.Constant):
            vals[-1] = ast.Constant(value=str(vals[-1].value) + str(v.value))
        elif isinstance(v, ast.FormattedValue) and isinstance(v.value, ast.Constant) and v.conversion == -1 and v.format_spec is None and isinstance(v.value.value, (str, int)):
            c = ast.Constant(value=str(v.value.value))
            if vals and isinstance(vals[-1], ast.Constant):
                vals[-1] = ast.Constant(value=str(vals[-1].value) + c.value)
            else:
                vals.append(c)
        else:
            vals.append(v)
    return ast.JoinedStr(values=vals)


def _format_to_joined(fmt: str, args: Sequence[ast.AST]) -> Optional[ast.JoinedStr]:
    import string

    vals: List[ast.AST] = []
    auto = 0
    try:
        for lit, field, spec, conv in string.Formatter().parse(fmt):
            if lit:
                vals.append(ast.Constant(value=lit))
            if field is None:
                continue
            if field == "":
                idx = auto
                auto += 1
            elif field.isdigit():
                idx = int(field)
            else:
                return None
            if idx >= len(args) or isinstance(args[idx], ast.Starred):
                return None
            vals.append(ast.FormattedValue(value=args[idx], conversion=ord(conv) if conv else -1, format_spec=ast.JoinedStr(values=[ast.Constant(value=spec)]) if spec else None))
    except ValueError:
        return None
    return _merge_joined(ast.JoinedStr(values=vals))


def _reiterable(e: ast.AST) -> bool:
    if isinstance(e, (ast.Name, ast.Attribute, ast.List, ast.Tuple, ast.Constant)):
        return True
    if isinstance(e, ast.IfExp):
        return _reiterable(e.body) and _reiterable(e.orelse)
    if isinstance(e, ast.Call) and dotted(e.func) in ("range", "list", "tuple", "sorted"):
        return True
    return False


def _rev_slice(e: ast.AST) -> Optional[ast.AST]:
    if isinstance(e, ast.Subscript) and isinstance(e.slice, ast.Slice) and e.slice.lower is None and e.slice.upper is None and isinstance(e.slice.step, ast.UnaryOp) and isinstance(e.slice.step.op, ast.USub) and isinstance(e.slice.step.operand, ast.Constant) and e.slice.step.operand.value == 1:
        return e.value
    return None


class _IterIdioms(ast.NodeTransformer):
    """``for a, b in product(A, B)`` == ``for a in A for b in B`` (B re-iterable and independent of a);
    ``for k in D.keys(): ... D[k] ...`` == ``for k, v in D.items(): ... v ...`` (D not modified in the body)."""

    def __init__(self):
        self.n = 0

    def _items(self, target, it, scope_nodes):
        if isinstance(it, (ast.Name, ast.Attribute)) and isinstance(target, ast.Name):
            it = ast.Call(func=ast.Attribute(value=it, attr="keys", ctx=ast.Load()), args=[], keywords=[])
        if isinstance(it, ast.Call) and isinstance(it.func, ast.Attribute) and it.func.attr == "keys" and not it.args and isinstance(target, ast.Name) and isinstance(it.func.value, (ast.Name, ast.Attribute)):
            d = it.func.value
            dd = ast.dump(d)
            k = target.id
            hits = []
            for sc in scope_nodes:
                for n in ast.walk(sc):
                    if isinstance(n, ast.Subscript) and ast.dump(n.value) == dd and isinstance(n.slice, ast.Name) and n.slice.id == k:
                        if not isinstance(n.ctx, ast.Load):
                            return None
                        hits.append(n)
                    if isinstance(n, ast.Name) and n.id == k and isinstance(n.ctx, ast.Store) and n is not target:
                        return None
            if not hits:
                return None
            self.n += 1
            v = f"_item{self.n}"

            class R(ast.NodeTransformer):
                def visit_Subscript(self_inner, n):
                    if ast.dump(n.value) == dd and isinstance(n.slice, ast.Name) and n.slice.id == k and isinstance(n.ctx, ast.Load):
                        return ast.copy_location(ast.Name(id=v, ctx=ast.Load()), n)
                    return self_inner.generic_visit(n)

            new_target = ast.Tuple(elts=[ast.Name(id=k, ctx=ast.Store()), ast.Name(id=v, ctx=ast.Store())], ctx=ast.Store())
            new_iter = ast.Call(func=ast.Attribute(value=d, attr="items", ctx=ast.Load()), args=[], keywords=[])
            return new_target, new_iter, R()
        return None

    def _comp(self, node):
        self.generic_visit(node)
        for g in node.generators:
            rv = _rev_slice(g.iter)
            if rv is not None:
                g.iter = ast.Call(func=ast.Name(id="reversed", ctx=ast.Load()), args=[rv], keywords=[])
        gens = []
        for g in node.generators:
            it = g.iter
            if isinstance(it, ast.Call) and (dotted(it.func) or "").split(".")[-1] == "product" and not it.keywords and len(it.args) >= 2 and isinstance(g.target, ast.Tuple) and len(g.target.elts) == len(it.args) and all(_reiterable(a) for a in it.args[1:]) and not any(isinstance(a, ast.Starred) for a in it.args):
                for t, a in zip(g.target.elts, it.args):
                    gens.append(ast.comprehension(target=t, iter=a, ifs=[], is_async=0))
                gens[-1].ifs = list(g.ifs)
            else:
                gens.append(g)
        node.generators = gens
        # keys -> items
        for g in node.generators:
            parts = [x for x in ([getattr(node, "elt", None), getattr(node, "key", None), getattr(node, "value", None)] + list(g.ifs)) if x is not None]
            r = self._items(g.target, g.iter, parts)
            if r is not None:
                g.target, g.iter, R = r
                if hasattr(node, "elt"):
                    node.elt = R.visit(node.elt)
                else:
                    node.key, node.value = R.visit(node.key), R.visit(node.value)
                g.ifs = [R.visit(c) for c in g.ifs]
        return node

    visit_ListComp = visit_SetComp = visit_GeneratorExp = visit_DictComp = _comp

    def visit_For(self, node):
        self.generic_visit(node)
        rv = _rev_slice(node.iter)
        if rv is not None:
            node.iter = ast.Call(func=ast.Name(id="reversed", ctx=ast.Load()), args=[rv], keywords=[])
        it = node.iter
        if isinstance(it, ast.Call) and (dotted(it.func) or "").split(".")[-1] == "product" and not it.keywords and len(it.args) == 2 and isinstance(node.target, ast.Tuple) and len(node.target.elts) == 2 and _reiterable(it.args[1]) and not node.orelse:
            inner = ast.For(target=node.target.elts[1], iter=it.args[1], body=node.body, orelse=[])
            node = ast.copy_location(ast.For(target=node.target.elts[0], iter=it.args[0], body=[ast.copy_location(inner, node)], orelse=[]), node)
            return node
        r = self._items(node.target, node.iter, node.body)
        if r is not None:
            dsrc = node.iter.func.value if isinstance(node.iter, ast.Call) else node.iter
            mutated = any(isinstance(n, ast.Subscript) and isinstance(n.ctx, (ast.Store, ast.Del)) and ast.dump(n.value) == ast.dump(dsrc) for b in node.body for n in ast.walk(b))
            if not mutated:
                node.target, node.iter, R = r
                node.body = [R.visit(b) for b in node.body]
        return node


def _split_tuple_assign(stmts: List[ast.stmt]) -> List[ast.stmt]:
    """``a, b = x, y`` -> ``a = x; b = y`` when no right-hand side reads a left-hand name."""
    out: List[ast.stmt] = []
    for s in stmts:
        for field in ("body", "orelse", "finalbody"):
            v = getattr(s, field, None)
            if isinstance(v, list) and v and isinstance(v[0], ast.stmt):
                setattr(s, field, _split_tuple_assign(v))
        if isinstance(s, ast.Try):
            for h in s.handlers:
                h.body = _split_tuple_assign(h.body)
        if isinstance(s, ast.Assign) and len(s.targets) == 1 and isinstance(s.targets[0], ast.Tuple) and isinstance(s.value, ast.Tuple) and len(s.targets[0].elts) == len(s.value.elts) and all(isinstance(t, (ast.Name, ast.Subscript, ast.Attribute)) for t in s.targets[0].elts) and not any(isinstance(v, ast.Starred) for v in s.value.elts):
            lhs = {_base_name(t) for t in s.targets[0].elts}
            reads = {n.id for v in s.value.elts for n in ast.walk(v) if isinstance(n, ast.Name)}
            plain = all(isinstance(t, ast.Name) for t in s.targets[0].elts)
            if not (lhs & reads) and (plain or all(_expr_kind(v) != "unknown" for v in s.value.elts)):
                for t, v in zip(s.targets[0].elts, s.value.elts):
                    out.append(ast.copy_location(ast.Assign(targets=[t], value=v), s))
                continue
        out.append(s)
    return out


def _fuse_list_builders(stmts: List[ast.stmt]) -> List[ast.stmt]:
    """``x = [a]; x += E; x.append(b)``  ->  ``x = [a, *E, b]`` while x is a fresh local nobody else looks at."""
    out: List[ast.stmt] = []
    for s in stmts:
        for field in ("body", "orelse", "finalbody"):
            v = getattr(s, field, None)
            if isinstance(v, list) and v and isinstance(v[0], ast.stmt):
                setattr(s, field, _fuse_list_builders(v))
        if isinstance(s, ast.Try):
            for h in s.handlers:
                h.body = _fuse_list_builders(h.body)
        prev = out[-1] if out else None
        if isinstance(prev, ast.Assign) and len(prev.targets) == 1 and isinstance(prev.targets[0], ast.Name) and isinstance(prev.value, ast.List):
            x = prev.targets[0].id
            if isinstance(s, ast.Expr) and isinstance(s.value, ast.Call) and isinstance(s.value.func, ast.Attribute) and isinstance(s.value.func.value, ast.Name) and s.value.func.value.id == x and len(s.value.args) == 1 and not s.value.keywords:
                arg = s.value.args[0]
                if not any(isinstance(n, ast.Name) and n.id == x for n in ast.walk(arg)):
                    if s.value.func.attr == "append":
                        prev.value = ast.List(elts=list(prev.value.elts) + [arg], ctx=ast.Load())
                        continue
                    if s.value.func.attr == "extend":
                        prev.value = ast.List(elts=list(prev.value.elts) + [ast.Starred(value=arg, ctx=ast.Load())], ctx=ast.Load())
                        continue
            if isinstance(s, ast.AugAssign) and isinstance(s.op, ast.Add) and isinstance(s.target, ast.Name) and s.target.id == x and not any(isinstance(n, ast.Name) and n.id == x for n in ast.walk(s.value)):
                add = list(s.value.elts) if isinstance(s.value, ast.List) else [ast.Starred(value=s.value, ctx=ast.Load())]
                prev.value = ast.List(elts=list(prev.value.elts) + add, ctx=ast.Load())
                continue
        out.append(s)
    return out


def _sink_returns(stmts: List[ast.stmt]) -> List[ast.stmt]:
    """``if c: ...; x = A  else: ...; x = B`` followed by ``return x``: return from the branches."""
    out: List[ast.stmt] = []
    i = 0
    while i < len(stmts):
        s = stmts[i]
        for field in ("body", "orelse", "finalbody"):
            v = getattr(s, field, None)
            if isinstance(v, list) and v and isinstance(v[0], ast.stmt):
                setattr(s, field, _sink_returns(v))
        nxt = stmts[i + 1] if i + 1 < len(stmts) else None
        if isinstance(s, ast.If) and s.orelse and isinstance(nxt, ast.Return) and isinstance(nxt.value, ast.Name) and i + 2 == len(stmts):
            x = nxt.value.id

            def ends_assign(block):
                if not block:
                    return False
                last = block[-1]
                if isinstance(last, ast.Assign) and len(last.targets) == 1 and isinstance(last.targets[0], ast.Name) and last.targets[0].id == x:
                    return True
                if isinstance(last, ast.If) and last.orelse:
                    return ends_assign(last.body) and ends_assign(last.orelse)
                return isinstance(last, (ast.Raise, ast.Return))

            def convert(block):
                last = block[-1]
                if isinstance(last, ast.Assign):
                    block[-1] = ast.copy_location(ast.Return(value=last.value), last)
                elif isinstance(last, ast.If):
                    convert(last.body)
                    convert(last.orelse)

            if ends_assign(s.body) and ends_assign(s.orelse):
                convert(s.body)
                convert(s.orelse)
                out.append(s)
                i += 2
                continue
        out.append(s)
        i += 1
    return out


def _push_return_down(stmts: List[ast.stmt]) -> List[ast.stmt]:
    """an if (with or without else) followed by a lone ``return e``: every path gets its own return"""
    out: List[ast.stmt] = []
    i = 0
    while i < len(stmts):
        s = stmts[i]
        for field in ("body", "orelse", "finalbody"):
            v = getattr(s, field, None)
            if isinstance(v, list) and v and isinstance(v[0], ast.stmt):
                setattr(s, field, _push_return_down(v))
        if isinstance(s, ast.Try):
            for h in s.handlers:
                h.body = _push_return_down(h.body)
        nxt = stmts[i + 1] if i + 1 < len(stmts) else None
        if isinstance(s, ast.If) and isinstance(nxt, ast.Return) and i + 2 == len(stmts):
            def push(block: List[ast.stmt]) -> List[ast.stmt]:
                if _block_exits(block, False):
                    return block
                if block and isinstance(block[-1], ast.If):
                    last = block[-1]
                    last.body = push(list(last.body))
                    last.orelse = push(list(last.orelse))
                    return block
                return [b for b in block if not isinstance(b, ast.Pass)] + [copy.deepcopy(nxt)]

            s.body = push(list(s.body))
            s.orelse = push(list(s.orelse))
            out.append(s)
            i += 2
            continue
        out.append(s)
        i += 1
    return out


def _default_then_override(stmts: List[ast.stmt]) -> List[ast.stmt]:
    """``x = D`` immediately followed by ``if c: x = E`` (no else)  ->  ``x = E if c else D``"""
    out: List[ast.stmt] = []
    for s in stmts:
        for field in ("body", "orelse", "finalbody"):
            v = getattr(s, field, None)
            if isinstance(v, list) and v and isinstance(v[0], ast.stmt):
                setattr(s, field, _default_then_override(v))
        prev = out[-1] if out else None
        if isinstance(s, ast.If) and not s.orelse and len(s.body) == 1 and isinstance(s.body[0], ast.Assign) and len(s.body[0].targets) == 1 and isinstance(s.body[0].targets[0], ast.Name) and isinstance(prev, ast.Assign) and len(prev.targets) == 1 and isinstance(prev.targets[0], ast.Name) and prev.targets[0].id == s.body[0].targets[0].id:
            x = prev.targets[0].id
            reads = {n.id for n in ast.walk(s.test) if isinstance(n, ast.Name)} | {n.id for n in ast.walk(s.body[0].value) if isinstance(n, ast.Name)}
            if x not in reads and _call_free_or_pure(prev.value):
                out[-1] = ast.copy_location(ast.Assign(targets=[prev.targets[0]], value=ast.IfExp(test=s.test, body=s.body[0].value, orelse=prev.value)), prev)
                continue
        out.append(s)
    return out


def _prealloc_fill(stmts: List[ast.stmt]) -> List[ast.stmt]:
    """``x = list(np.zeros(N))`` / ``[0] * N`` / ``[None] * N`` followed by ``for i in range(N): x[i] = e``
    (nothing else in the loop)  ->  ``x = [e for i in range(N)]``"""
    out: List[ast.stmt] = []
    for s in stmts:
        for field in ("body", "orelse", "finalbody"):
            v = getattr(s, field, None)
            if isinstance(v, list) and v and isinstance(v[0], ast.stmt):
                setattr(s, field, _prealloc_fill(v))
        if isinstance(s, ast.For) and not s.orelse and len(s.body) == 1 and isinstance(s.target, ast.Name) and isinstance(s.iter, ast.Call) and dotted(s.iter.func) == "range" and len(s.iter.args) == 1:
            b = s.body[0]
            if isinstance(b, ast.Assign) and len(b.targets) == 1 and isinstance(b.targets[0], ast.Subscript) and isinstance(b.targets[0].value, ast.Name) and isinstance(b.targets[0].slice, ast.Name) and b.targets[0].slice.id == s.target.id:
                x = b.targets[0].value.id
                n_dump = ast.dump(s.iter.args[0])
                for j in range(len(out) - 1, -1, -1):
                    p = out[j]
                    if isinstance(p, ast.Assign) and len(p.targets) == 1 and isinstance(p.targets[0], ast.Name) and p.targets[0].id == x:
                        v = p.value
                        size = None
                        if isinstance(v, ast.Call) and dotted(v.func) == "list" and len(v.args) == 1 and isinstance(v.args[0], ast.Call) and (dotted(v.args[0].func) or "").split(".")[-1] in ("zeros", "empty") and v.args[0].args:
                            size = v.args[0].args[0]
                        elif isinstance(v, ast.BinOp) and isinstance(v.op, ast.Mult) and isinstance(v.left, ast.List) and len(v.left.elts) == 1 and isinstance(v.left.elts[0], ast.Constant):
                            size = v.right
                        if size is not None and ast.dump(size) == n_dump and not any(isinstance(n, ast.Name) and n.id == x for n in ast.walk(b.value)) and not any(isinstance(n, ast.Name) and n.id == x for q in out[j + 1:] for n in ast.walk(q)):
                            del out[j]
                            out.append(ast.copy_location(ast.Assign(targets=[ast.Name(id=x, ctx=ast.Store())], value=ast.ListComp(elt=b.value, generators=[ast.comprehension(target=s.target, iter=s.iter, ifs=[], is_async=0)])), s))
                            s = None
                        break
                    if any(isinstance(n, ast.Name) and n.id == x for n in ast.walk(p)):
                        break
                if s is None:
                    continue
        out.append(s)
    return out


def _hoist_common_tail(stmts: List[ast.stmt]) -> List[ast.stmt]:
    """both branches of an if/else end with the same statement: it belongs after the if"""
    out: List[ast.stmt] = []
    for s in stmts:
        for field in ("body", "orelse", "finalbody"):
            v = getattr(s, field, None)
            if isinstance(v, list) and v and isinstance(v[0], ast.stmt):
                setattr(s, field, _hoist_common_tail(v))
        if isinstance(s, ast.Try):
            for h in s.handlers:
                h.body = _hoist_common_tail(h.body)
        tails: List[ast.stmt] = []
        while isinstance(s, ast.If) and s.orelse and s.body and len(s.body) >= 1 and len(s.orelse) >= 1 and ast.dump(s.body[-1]) == ast.dump(s.orelse[-1]) and isinstance(s.body[-1], (ast.Assign, ast.Expr, ast.AugAssign)) and (len(s.body) > 1 or len(s.orelse) > 1):
            # the test must not be affected by... it is evaluated before either way; the tail runs after both
            tails.insert(0, s.body[-1])
            s.body = s.body[:-1] or [ast.Pass()]
            s.orelse = s.orelse[:-1]
            if len(s.body) == 1 and isinstance(s.body[0], ast.Pass) and s.orelse:
                s.test, s.body, s.orelse = _negate(s.test), s.orelse, []
        out.append(s)
        out.extend(tails)
    return out


def _split_multi_assign_branches(stmts: List[ast.stmt]) -> List[ast.stmt]:
    """if/else whose branches are nothing but independent assignments to the same names: one conditional
    expression per name."""
    out: List[ast.stmt] = []
    for s in stmts:
        for field in ("body", "orelse", "finalbody"):
            v = getattr(s, field, None)
            if isinstance(v, list) and v and isinstance(v[0], ast.stmt):
                setattr(s, field, _split_multi_assign_branches(v))
        if isinstance(s, ast.If) and s.orelse and len(s.body) == len(s.orelse) >= 2 and all(isinstance(x, ast.Assign) and len(x.targets) == 1 and isinstance(x.targets[0], ast.Name) for x in s.body + s.orelse):
            nb, no = [x.targets[0].id for x in s.body], [x.targets[0].id for x in s.orelse]
            reads = {n.id for x in s.body + s.orelse for n in ast.walk(x.value) if isinstance(n, ast.Name)}
            if nb == no and len(set(nb)) == len(nb) and not (set(nb) & reads) and _call_free_or_pure(s.test):
                for b, o in zip(s.body, s.orelse):
                    out.append(ast.copy_location(ast.Assign(targets=[b.targets[0]], value=ast.IfExp(test=copy.deepcopy(s.test), body=b.value, orelse=o.value)), s))
                continue
        out.append(s)
    return out


_INVERSE_CMP = {ast.Eq: ast.NotEq, ast.NotEq: ast.Eq, ast.In: ast.NotIn, ast.NotIn: ast.In, ast.Is: ast.IsNot, ast.IsNot: ast.Is, ast.Lt: ast.GtE, ast.GtE: ast.Lt, ast.Gt: ast.LtE, ast.LtE: ast.Gt}


def _negate(test: ast.AST) -> ast.AST:
    """logical negation in negation-normal form (order comparisons are inverted as on a total order: the quantities
    compared in this code base are integers, floats and lengths)"""
    if isinstance(test, ast.UnaryOp) and isinstance(test.op, ast.Not):
        return test.operand
    if isinstance(test, ast.Compare) and len(test.ops) == 1 and type(test.ops[0]) in _INVERSE_CMP:
        return ast.copy_location(ast.Compare(left=test.left, ops=[_INVERSE_CMP[type(test.ops[0])]()], comparators=test.comparators), test)
    if isinstance(test, ast.BoolOp):
        return ast.copy_location(ast.BoolOp(op=ast.And() if isinstance(test.op, ast.Or) else ast.Or(), values=[_negate(v) for v in test.values]), test)
    return ast.UnaryOp(op=ast.Not(), operand=test)


def _nnf(test: ast.AST) -> ast.AST:
    """push ``not`` inwards (and drop a ``bool(...)`` that only feeds a truth test)"""
    if isinstance(test, ast.Call) and isinstance(test.func, ast.Name) and test.func.id == "bool" and len(test.args) == 1 and not test.keywords:
        return _nnf(test.args[0])
    if isinstance(test, ast.UnaryOp) and isinstance(test.op, ast.Not):
        inner = test.operand
        if isinstance(inner, (ast.BoolOp, ast.Compare)) or (isinstance(inner, ast.UnaryOp) and isinstance(inner.op, ast.Not)):
            return _nnf(_negate(inner))
        return test
    if isinstance(test, ast.BoolOp):
        return ast.copy_location(ast.BoolOp(op=test.op, values=[_nnf(v) for v in test.values]), test)
    return test


def _block_exits(stmts: Sequence[ast.stmt], loop: bool) -> bool:
    if not stmts:
        return False
    last = stmts[-1]
    if isinstance(last, (ast.Return, ast.Raise)) or (loop and isinstance(last, (ast.Continue, ast.Break))):
        return True
    if isinstance(last, ast.If) and last.orelse:
        return _block_exits(last.body, loop) and _block_exits(last.orelse, loop)
    return False


def _normalise_blocks(stmts: List[ast.stmt], in_loop: bool) -> List[ast.stmt]:
    """if/else normal form: a branch that always exits absorbs nothing; what follows moves into the
    other branch; leading ``not`` is removed by swapping branches; ``continue`` guards in loops become
    positive conditions; if/else assigning one name (or returning) in both branches becomes a
    conditional expression."""
    out: List[ast.stmt] = []
    i = 0
    while i < len(stmts):
        s = stmts[i]
        if isinstance(s, ast.If):
            body = _normalise_blocks(list(s.body), in_loop)
            orelse = _normalise_blocks(list(s.orelse), in_loop)
            rest = stmts[i + 1:]
            test = s.test
            if rest and _block_exits(body, in_loop) and not orelse:
                orelse = _normalise_blocks(list(rest), in_loop)
                rest = []
            elif rest and orelse and _block_exits(orelse, in_loop) and not _block_exits(body, in_loop):
                body = body + _normalise_blocks(list(rest), in_loop)
                rest = []
            elif rest and orelse and _block_exits(body, in_loop) and not _block_exits(orelse, in_loop):
                orelse = orelse + _normalise_blocks(list(rest), in_loop)
                rest = []
            # a bare `continue` branch in a loop: invert into a positive guard
            if in_loop and len(body) == 1 and isinstance(body[0], ast.Continue) and orelse:
                test, body, orelse = _negate(test), orelse, []
            if in_loop and orelse and len(orelse) == 1 and isinstance(orelse[0], ast.Continue):
                orelse = []
            test = _nnf(test)
            if isinstance(test, ast.BoolOp) and isinstance(test.op, ast.Or) and orelse:
                test, body, orelse = _negate(test), orelse, body
            # polarity: strip a leading `not` / a negative comparison by swapping branches (only when both exist)
            if isinstance(test, ast.UnaryOp) and isinstance(test.op, ast.Not) and orelse:
                test, body, orelse = test.operand, orelse, body
            if isinstance(test, ast.Compare) and len(test.ops) == 1 and isinstance(test.ops[0], (ast.IsNot, ast.NotEq, ast.NotIn)) and orelse:
                pos = {ast.IsNot: ast.Is, ast.NotEq: ast.Eq, ast.NotIn: ast.In}[type(test.ops[0])]()
                test, body, orelse = ast.Compare(left=test.left, ops=[pos], comparators=test.comparators), orelse, body
            # trailing bare `return` / `return None` at the very end is dropped by the caller
            new: ast.stmt = ast.If(test=test, body=body or [ast.Pass()], orelse=orelse)
            # both branches a single assignment to the same simple target / a return: conditional expression
            if len(body) == 1 and len(orelse) == 1:
                b, o = body[0], orelse[0]
                if isinstance(b, ast.Assign) and isinstance(o, ast.Assign) and len(b.targets) == 1 and len(o.targets) == 1 and ast.dump(b.targets[0]) == ast.dump(o.targets[0]) and isinstance(b.targets[0], ast.Name):
                    new = ast.Assign(targets=[b.targets[0]], value=ast.IfExp(test=test, body=b.value, orelse=o.value))
                elif isinstance(b, ast.Return) and isinstance(o, ast.Return) and b.value is not None and o.value is not None:
                    new = ast.Return(value=ast.IfExp(test=test, body=b.value, orelse=o.value))
            out.append(ast.copy_location(new, s))
            if not rest:
                break
            i += 1
            continue
        if isinstance(s, (ast.For, ast.AsyncFor, ast.While)):
            s.body = _normalise_blocks(list(s.body), True) or [ast.Pass()]
            s.orelse = _normalise_blocks(list(s.orelse), in_loop)
            if s.body and isinstance(s.body[-1], ast.Continue):
                s.body = s.body[:-1] or [ast.Pass()]
        elif isinstance(s, (ast.With, ast.AsyncWith)):
            s.body = _normalise_blocks(list(s.body), in_loop) or [ast.Pass()]
        elif isinstance(s, ast.Try):
            s.body = _normalise_blocks(list(s.body), in_loop) or [ast.Pass()]
            for h in s.handlers:
                h.body = _normalise_blocks(list(h.body), in_loop) or [ast.Pass()]
            s.orelse = _normalise_blocks(list(s.orelse), in_loop)
            s.finalbody = _normalise_blocks(list(s.finalbody), in_loop)
        out.append(s)
        if isinstance(s, (ast.Return, ast.Raise)) or (in_loop and isinstance(s, (ast.Continue, ast.Break))):
            break  # unreachable tail
        i += 1
    return out


def _drop_tail_continue(stmts: List[ast.stmt]) -> List[ast.stmt]:
    """a `continue` that is the last thing a loop iteration would do anyway"""
    if not stmts:
        return stmts
    last = stmts[-1]
    if isinstance(last, ast.Continue):
        return _drop_tail_continue(stmts[:-1])
    if isinstance(last, ast.If):
        last.body = _drop_tail_continue(list(last.body)) or [ast.Pass()]
        last.orelse = _drop_tail_continue(list(last.orelse))
        if len(last.body) == 1 and isinstance(last.body[0], ast.Pass) and last.orelse:
            last.test, last.body, last.orelse = _negate(last.test), last.orelse, []
    return stmts


def _fix_loops(node: ast.AST) -> None:
    for n in ast.walk(node):
        if isinstance(n, (ast.For, ast.AsyncFor, ast.While)):
            n.body = _drop_tail_continue(list(n.body)) or [ast.Pass()]


def _ifexp_polarity(node: ast.AST) -> ast.AST:
    class T(ast.NodeTransformer):
        def visit_IfExp(self, n):
            self.generic_visit(n)
            n.test = _nnf(n.test)
            if isinstance(n.test, ast.BoolOp) and isinstance(n.test.op, ast.Or):
                return ast.copy_location(ast.IfExp(test=_negate(n.test), body=n.orelse, orelse=n.body), n)
            if isinstance(n.test, ast.UnaryOp) and isinstance(n.test.op, ast.Not):
                return ast.copy_location(ast.IfExp(test=n.test.operand, body=n.orelse, orelse=n.body), n)
            if isinstance(n.test, ast.Compare) and len(n.test.ops) == 1 and isinstance(n.test.ops[0], (ast.IsNot, ast.NotEq, ast.NotIn)):
                return ast.copy_location(ast.IfExp(test=_negate(n.test), body=n.orelse, orelse=n.body), n)
            return n

    return T().visit(node)


def _loops_to_comprehensions(stmts: List[ast.stmt]) -> List[ast.stmt]:
    """``acc = []`` ... ``for t in it: [if c:] acc.append(e)``  ->  ``acc = [e for t in it if c]`` (same for
    dict stores and set adds) when the accumulator is untouched in between."""
    out: List[ast.stmt] = []
    for s in stmts:
        for field in ("body", "orelse", "finalbody"):
            v = getattr(s, field, None)
            if isinstance(v, list) and v and isinstance(v[0], ast.stmt):
                setattr(s, field, _loops_to_comprehensions(v))
        if isinstance(s, ast.Try):
            for h in s.handlers:
                h.body = _loops_to_comprehensions(h.body)
        if isinstance(s, ast.For) and not s.orelse and len(s.body) == 1:
            inner = s.body[0]
            conds: List[ast.AST] = []
            extra_gens: List[ast.comprehension] = []
            while True:
                if isinstance(inner, ast.If) and not inner.orelse and len(inner.body) == 1:
                    if extra_gens:
                        extra_gens[-1].ifs.append(inner.test)
                    else:
                        conds.append(inner.test)
                    inner = inner.body[0]
                    continue
                if isinstance(inner, ast.For) and not inner.orelse and len(inner.body) == 1:
                    extra_gens.append(ast.comprehension(target=inner.target, iter=inner.iter, ifs=[], is_async=0))
                    inner = inner.body[0]
                    continue
                break
            acc = None
            kind = None
            if isinstance(inner, ast.Expr) and isinstance(inner.value, ast.Call) and isinstance(inner.value.func, ast.Attribute) and isinstance(inner.value.func.value, ast.Name) and len(inner.value.args) == 1 and not inner.value.keywords and inner.value.func.attr == "extend":
                # acc.extend(E)  ==  for _y in E: acc.append(_y)
                yv = f"_ext{len(out)}"
                extra_gens.append(ast.comprehension(target=ast.Name(id=yv, ctx=ast.Store()), iter=inner.value.args[0], ifs=[], is_async=0))
                inner = ast.Expr(value=ast.Call(func=ast.Attribute(value=inner.value.func.value, attr="append", ctx=ast.Load()), args=[ast.Name(id=yv, ctx=ast.Load())], keywords=[]))
            if isinstance(inner, ast.Expr) and isinstance(inner.value, ast.Call) and isinstance(inner.value.func, ast.Attribute) and isinstance(inner.value.func.value, ast.Name) and len(inner.value.args) == 1 and not inner.value.keywords:
                if inner.value.func.attr == "append":
                    acc, kind, elt = inner.value.func.value.id, "list", inner.value.args[0]
                elif inner.value.func.attr == "add":
                    acc, kind, elt = inner.value.func.value.id, "set", inner.value.args[0]
            elif isinstance(inner, ast.Assign) and len(inner.targets) == 1 and isinstance(inner.targets[0], ast.Subscript) and isinstance(inner.targets[0].value, ast.Name):
                acc, kind, elt = inner.targets[0].value.id, "dict", (inner.targets[0].slice, inner.value)
            if acc is not None:
                # find the initialisation among the statements already emitted, untouched since
                j = len(out) - 1
                init_idx = None
                while j >= 0:
                    p = out[j]
                    if isinstance(p, ast.Assign) and len(p.targets) == 1 and isinstance(p.targets[0], ast.Name) and p.targets[0].id == acc:
                        v = p.value
                        empty = (isinstance(v, ast.List) and not v.elts and kind == "list") or (isinstance(v, ast.Dict) and not v.keys and kind == "dict") or (isinstance(v, ast.Call) and dotted(v.func) in ("set",) and not v.args and kind == "set") or (isinstance(v, ast.Call) and dotted(v.func) == "list" and not v.args and kind == "list") or (isinstance(v, ast.Call) and dotted(v.func) == "dict" and not v.args and kind == "dict")
                        if empty:
                            init_idx = j
                        break
                    if any(isinstance(n, ast.Name) and n.id == acc for n in ast.walk(p)):
                        break
                    j -= 1
                uses_acc_in_elt = any(isinstance(n, ast.Name) and n.id == acc for x in ([elt] if kind != "dict" else list(elt)) + conds + [s.iter] for n in ast.walk(x))
                if init_idx is not None and not uses_acc_in_elt:
                    gen = ast.comprehension(target=s.target, iter=s.iter, ifs=conds, is_async=0)
                    gens_all = [gen] + extra_gens
                    if kind == "list":
                        comp: ast.AST = ast.ListComp(elt=elt, generators=gens_all)
                    elif kind == "set":
                        comp = ast.SetComp(elt=elt, generators=gens_all)
                    else:
                        comp = ast.DictComp(key=elt[0], value=elt[1], generators=gens_all)
                    del out[init_idx]
                    out.append(ast.copy_location(ast.Assign(targets=[ast.Name(id=acc, ctx=ast.Store())], value=comp), s))
                    continue
        out.append(s)
    return out


def _inline_temporaries(fn: ast.FunctionDef) -> None:
    """Replace the uses of a local bound exactly once (plain assignment at a position that dominates its
    uses syntactically) by its defining expression, when that cannot change what is computed: the names the
    expression reads are not re-bound afterwards, and it is either used once or free of non-pure calls."""
    for _ in range(12):
        params = {a.arg for a in ast.walk(fn.args) if isinstance(a, ast.arg)}
        binds: Dict[str, List[ast.AST]] = {}
        for n in ast.walk(fn):
            if isinstance(n, ast.Name) and isinstance(n.ctx, (ast.Store, ast.Del)):
                binds.setdefault(n.id, []).append(n)
            elif isinstance(n, ast.ExceptHandler) and n.name:
                binds.setdefault(n.name, []).append(n)
        changed = False
        closure_names = {n.id for sub in ast.walk(fn) if isinstance(sub, (ast.FunctionDef, ast.AsyncFunctionDef, ast.Lambda)) and sub is not fn for n in ast.walk(sub) if isinstance(n, ast.Name)}

        def following_ok(name: str, following: List[List[ast.stmt]]) -> bool:
            for blk in following:
                for st in blk:
                    for n in ast.walk(st):
                        if isinstance(n, ast.Name) and n.id == name and isinstance(n.ctx, ast.Load):
                            return False
            return True

        def try_block(stmts: List[ast.stmt], in_loop: bool, following: Optional[List[List[ast.stmt]]] = None) -> bool:
            following = following or []
            for idx, s in enumerate(stmts):
                if isinstance(s, ast.Assign) and len(s.targets) == 1 and isinstance(s.targets[0], ast.Name):
                    name = s.targets[0].id
                    if name in params or name in closure_names:
                        continue
                    vkind = _expr_kind(s.value)
                    if _has_impure_call(s.value):
                        vkind = "unknown"
                    if vkind == "unknown" and not (sum(1 for n in ast.walk(fn) if isinstance(n, ast.Name) and n.id == name and isinstance(n.ctx, ast.Load)) == 1 and following_ok(name, following)):
                        continue
                    if len(binds.get(name, [])) != 1:
                        # several bindings: fine when this one cannot be seen outside the statements that follow it in
                        # its own block (disjoint branches each binding and using their own copy)
                        if not (_loads_follow_a_def(fn, name) or (following_ok(name, following) and not in_loop)):
                            continue
                    if isinstance(s.value, (ast.List, ast.Dict, ast.Set, ast.ListComp, ast.DictComp, ast.SetComp)) and _mutated_later(name, stmts[idx + 1:]):
                        continue
                    free = {n.id for n in ast.walk(s.value) if isinstance(n, ast.Name)}
                    rest = stmts[idx + 1:]
                    # names read by the expression must not be rebound in the rest of this block (nor, in a loop, anywhere in the function after)
                    def _rebinds(r, k_last):
                        # a plain assignment stores its targets after its value is evaluated: if that statement holds the last use
                        # (in its value), rebinding a name the expression reads there is harmless
                        for n in ast.walk(r):
                            if isinstance(n, ast.Name) and isinstance(n.ctx, (ast.Store, ast.Del)) and n.id in free:
                                if k_last and isinstance(r, ast.Assign) and any(n is t for tg in r.targets for t in ast.walk(tg)) and all(isinstance(tg, ast.Name) for tg in r.targets):
                                    continue
                                return True
                        return False

                    use_stmt_idx = [k for k, r in enumerate(rest) if any(isinstance(n, ast.Name) and n.id == name and isinstance(n.ctx, ast.Load) for n in ast.walk(r))]
                    last_use = max(use_stmt_idx) if use_stmt_idx else -1
                    rebound = any(_rebinds(r, k == last_use and any(isinstance(n, ast.Name) and n.id == name for n in ast.walk(r.value)) if isinstance(r, ast.Assign) else False) for k, r in enumerate(rest) if k <= last_use) or any(_rebinds(r, False) for k, r in enumerate(rest) if k > last_use and False)
                    if rebound:
                        continue
                    uses = [n for r in rest for n in ast.walk(r) if isinstance(n, ast.Name) and n.id == name and isinstance(n.ctx, ast.Load)]
                    all_uses = [n for n in ast.walk(fn) if isinstance(n, ast.Name) and n.id == name and isinstance(n.ctx, ast.Load)]
                    if not uses:
                        continue
                    if len(binds.get(name, [])) == 1 and len(uses) != len(all_uses):
                        continue  # used outside the block that follows the definition
                    if any(isinstance(n, ast.Name) and n.id == name and isinstance(n.ctx, (ast.Store, ast.Del)) for r in rest for n in ast.walk(r)):
                        continue
                    if len(uses) > 1 and not _duplicable(s.value):
                        continue
                    if len(uses) == 1 and _use_in_repeated_region(uses[0], rest) and not _duplicable(s.value):
                        continue
                    if _mutating_use(name, rest) and not _is_alias_expr(s.value):
                        continue
                    # the evaluation moves from here to its (last) use: every statement in between must let it pass
                    use_ids = set(map(id, uses))
                    last_k = max(k for k, r in enumerate(rest) if any(id(n) in use_ids for n in ast.walk(r)))
                    reads = _read_names(s.value)
                    blocked = False
                    for k, r in enumerate(rest[: last_k + 1]):
                        holds_use = any(id(n) in use_ids for n in ast.walk(r))
                        if not holds_use:
                            if not _can_cross(s.value, r):
                                blocked = True
                        else:
                            # the statement evaluates the value somewhere inside instead of before it
                            heads = _header_exprs(r)
                            in_head = [u for u in uses if any(any(x is u for x in ast.walk(h)) for h in heads)]
                            in_body = [u for u in uses if any(x is u for x in ast.walk(r)) and not any(u is v for v in in_head)]
                            if vkind != "total":
                                if in_body or not in_head or (len(uses) != 1 and vkind == "unknown"):
                                    blocked = True
                                else:
                                    for u in in_head:
                                        found, conditional, before = _eval_prefix(heads, u)
                                        worst = "total"
                                        for c in before:
                                            ck = _call_kind(c)
                                            worst = "unknown" if "unknown" in (ck, worst) else ("pure" if "pure" in (ck, worst) else "total")
                                        if not found or conditional or worst == "unknown" or (vkind == "unknown" and worst != "total"):
                                            blocked = True
                                    if isinstance(r, (ast.While,)):
                                        blocked = True
                            else:
                                if (in_body or isinstance(r, ast.While) or any(_use_in_repeated_region(u, [r]) for u in uses)) and _may_mutate(r, reads):
                                    blocked = True
                            if k < last_k and not blocked:
                                # ... and is passed on the way to a later use
                                if vkind != "total" or _may_mutate(r, reads):
                                    blocked = True
                        if blocked:
                            break
                    if blocked:
                        continue
                    sub = _Subst({name: s.value})
                    for k in range(idx + 1, len(stmts)):
                        stmts[k] = sub.visit(stmts[k])
                    del stmts[idx]
                    return True
                for field in ("body", "orelse", "finalbody"):
                    v = getattr(s, field, None)
                    if isinstance(v, list) and v and isinstance(v[0], ast.stmt):
                        if try_block(v, in_loop or isinstance(s, (ast.For, ast.While)), following + [stmts[idx + 1:]]):
                            return True
                if isinstance(s, ast.Try):
                    for h in s.handlers:
                        if try_block(h.body, in_loop, following + [stmts[idx + 1:]]):
                            return True
            return False

        changed = try_block(fn.body, False)
        if not changed:
            break


def _loads_follow_a_def(fn: ast.FunctionDef, name: str) -> bool:
    """every read of ``name`` comes, within its own block or an enclosing one, after a plain assignment to it that
    dominates it syntactically -- so no read can see the value of an earlier loop iteration or of another branch"""
    ok = True

    def loads_in(exprs) -> bool:
        return any(isinstance(n, ast.Name) and n.id == name and isinstance(n.ctx, ast.Load) for e in exprs for n in ast.walk(e))

    def check(block: Sequence[ast.stmt], defined: bool) -> None:
        nonlocal ok
        for st in block:
            if isinstance(st, (ast.FunctionDef, ast.AsyncFunctionDef, ast.ClassDef, ast.Lambda)):
                if loads_in([st]):
                    ok = False
                continue
            heads = _header_exprs(st)
            if loads_in([h for h in heads if not (isinstance(st, ast.Assign) and h in st.targets and isinstance(h, ast.Name))]) and not defined:
                ok = False
            for field in ("body", "orelse", "finalbody"):
                v = getattr(st, field, None)
                if isinstance(v, list) and v and isinstance(v[0], ast.stmt):
                    check(v, defined)
            if isinstance(st, ast.Try):
                for h in st.handlers:
                    check(h.body, defined)
            if isinstance(st, ast.Assign) and len(st.targets) == 1 and isinstance(st.targets[0], ast.Name) and st.targets[0].id == name:
                defined = True
            else:
                own = []
                if isinstance(st, (ast.For, ast.AsyncFor)):
                    own = [st.target]
                elif isinstance(st, (ast.With, ast.AsyncWith)):
                    own = [i.optional_vars for i in st.items if i.optional_vars is not None]
                elif isinstance(st, (ast.AugAssign, ast.AnnAssign)):
                    own = [st.target]
                elif isinstance(st, ast.Assign):
                    own = list(st.targets)
                elif isinstance(st, ast.Delete):
                    own = list(st.targets)
                if any(isinstance(n, ast.Name) and n.id == name for o in own for n in ast.walk(o)):
                    ok = False  # bound by a loop target / with / augmented / tuple assignment: not handled
            if isinstance(st, ast.Try) and any(h.name == name for h in st.handlers):
                ok = False

    check(fn.body, False)
    return ok


def _is_alias_expr(e: ast.AST) -> bool:
    """a name / attribute / constant-subscript chain: evaluating it yields an existing object, not a fresh one"""
    while isinstance(e, (ast.Attribute, ast.Subscript)):
        if isinstance(e, ast.Subscript) and not isinstance(e.slice, (ast.Constant, ast.Name)):
            return False
        e = e.value
    return isinstance(e, ast.Name)


def _header_exprs(st: ast.stmt) -> List[ast.AST]:
    """the expressions a statement evaluates itself (not those of nested blocks), in evaluation order"""
    if isinstance(st, ast.Return):
        return [st.value] if st.value is not None else []
    if isinstance(st, ast.Assign):
        return [st.value] + list(st.targets)
    if isinstance(st, ast.AnnAssign):
        return ([st.value] if st.value is not None else []) + [st.target]
    if isinstance(st, ast.AugAssign):
        return [st.target, st.value]
    if isinstance(st, ast.Expr):
        return [st.value]
    if isinstance(st, ast.Raise):
        return [x for x in (st.exc, st.cause) if x is not None]
    if isinstance(st, ast.Assert):
        return [st.test]
    if isinstance(st, (ast.If, ast.While)):
        return [st.test]
    if isinstance(st, (ast.For, ast.AsyncFor)):
        return [st.iter]
    if isinstance(st, (ast.With, ast.AsyncWith)):
        return [i.context_expr for i in st.items]
    return []


def _eval_prefix(exprs: Sequence[ast.AST], use: ast.AST) -> Tuple[bool, bool, List[ast.Call]]:
    """(use found, use sits in a conditionally / repeatedly evaluated position, calls completed before the use is read)"""
    before: List[ast.Call] = []
    state = {"found": False, "cond": False}

    def go(e: ast.AST, cond: bool) -> None:
        if state["found"]:
            return
        if e is use:
            state["found"], state["cond"] = True, cond
            return
        if isinstance(e, ast.BoolOp):
            for i, v in enumerate(e.values):
                go(v, cond or i > 0)
            return
        if isinstance(e, ast.IfExp):
            go(e.test, cond)
            go(e.body, True)
            go(e.orelse, True)
            return
        if isinstance(e, (ast.ListComp, ast.SetComp, ast.GeneratorExp, ast.DictComp)):
            go(e.generators[0].iter, cond or isinstance(e, ast.GeneratorExp))
            for x in ast.iter_child_nodes(e):
                if x is not e.generators[0]:
                    go(x, True)
            for g in e.generators:
                for x in ast.iter_child_nodes(g):
                    if x is not e.generators[0].iter:
                        go(x, True)
            return
        if isinstance(e, ast.Lambda):
            go(e.body, True)
            return
        if isinstance(e, ast.Compare):
            go(e.left, cond)
            for i, c in enumerate(e.comparators):
                go(c, cond or i > 0)
            return
        if isinstance(e, ast.Call):
            go(e.func, cond)
            for a in e.args:
                go(a, cond)
            for k in e.keywords:
                go(k.value, cond)
            if not state["found"]:
                before.append(e)
            return
        for c in ast.iter_child_nodes(e):
            if isinstance(c, (ast.expr, ast.comprehension, ast.keyword, ast.FormattedValue)):
                go(c, cond)

    for ex in exprs:
        go(ex, False)
        if state["found"]:
            break
    return state["found"], state["cond"], before


def _first_evaluated_is(stmt: ast.stmt, name: str) -> bool:
    """is a load of ``name`` the first thing with a possible effect that ``stmt`` evaluates?"""
    if not isinstance(stmt, (ast.Return, ast.Assign, ast.Expr)) or stmt.value is None:
        return False
    if isinstance(stmt, ast.Assign) and not all(isinstance(t, ast.Name) for t in stmt.targets):
        return False

    def first(e: ast.AST) -> Optional[ast.AST]:
        if isinstance(e, ast.Name):
            return e
        if isinstance(e, ast.Constant):
            return None
        if isinstance(e, ast.Call):
            # the callee expression, then the arguments in order
            if isinstance(e.func, ast.Attribute):
                r = first(e.func.value)
                if r is not None:
                    return r
            elif not isinstance(e.func, ast.Name):
                return e
            for a in e.args:
                r = first(a.value if isinstance(a, ast.Starred) else a)
                if r is not None:
                    return r
            for k in e.keywords:
                r = first(k.value)
                if r is not None:
                    return r
            return e
        if isinstance(e, ast.Attribute):
            return first(e.value)
        for c in ast.iter_child_nodes(e):
            if isinstance(c, ast.expr):
                r = first(c)
                if r is not None:
                    return r
        return None

    f = first(stmt.value)
    return isinstance(f, ast.Name) and f.id == name


def _mutated_later(name: str, rest: Sequence[ast.stmt]) -> bool:
    return _mutating_use(name, rest)


def _mutating_use(name: str, rest: Sequence[ast.stmt]) -> bool:
    for r in rest:
        for n in ast.walk(r):
            if isinstance(n, ast.Call) and isinstance(n.func, ast.Attribute) and isinstance(n.func.value, ast.Name) and n.func.value.id == name and n.func.attr in IMPURE_ATTRS:
                return True
            if isinstance(n, (ast.Subscript, ast.Attribute)) and isinstance(n.ctx, (ast.Store, ast.Del)) and isinstance(n.value, ast.Name) and n.value.id == name:
                return True
            if isinstance(n, ast.AugAssign) and isinstance(n.target, ast.Name) and n.target.id == name:
                return True
    return False


def _use_in_repeated_region(use: ast.AST, rest: Sequence[ast.stmt]) -> bool:
    for r in rest:
        for n in ast.walk(r):
            if isinstance(n, (ast.For, ast.While, ast.ListComp, ast.SetComp, ast.DictComp, ast.GeneratorExp, ast.Lambda)):
                inner = list(ast.walk(n))
                if isinstance(n, (ast.ListComp, ast.SetComp, ast.DictComp, ast.GeneratorExp)):
                    first_iter = set(map(id, ast.walk(n.generators[0].iter)))
                    if id(use) in first_iter:
                        continue
                if isinstance(n, ast.For) and id(use) in set(map(id, ast.walk(n.iter))):
                    continue
                if any(x is use for x in inner):
                    return True
    return False


def _coalesce_copies(fn: ast.FunctionDef) -> None:
    """``a = <expr>; ...uses/mutations of a...; b = a`` with ``a`` dead afterwards and ``b`` untouched in
    between: the two names denote one object; rename ``a`` to ``b`` and drop the copy."""
    params = {x.arg for x in ast.walk(fn.args) if isinstance(x, ast.arg)}
    for _ in range(8):
        done = False

        def scan(stmts: List[ast.stmt]) -> bool:
            for idx, s in enumerate(stmts):
                if isinstance(s, ast.Assign) and len(s.targets) == 1 and isinstance(s.targets[0], ast.Name) and isinstance(s.value, ast.Name):
                    a, b = s.value.id, s.targets[0].id
                    if a == b or a in params:
                        continue
                    before = stmts[:idx]
                    after = stmts[idx + 1:]
                    occ_before = [n for x in before for n in ast.walk(x) if isinstance(n, ast.Name) and n.id == a]
                    occ_all = [n for n in ast.walk(fn) if isinstance(n, ast.Name) and n.id == a]
                    if len(occ_all) != len(occ_before) + 1:
                        continue  # a is used elsewhere (other blocks, or afterwards)
                    first_def = next((j for j, x in enumerate(before) if any(isinstance(n, ast.Name) and n.id == a and isinstance(n.ctx, ast.Store) for n in ast.walk(x))), None)
                    if first_def is None:
                        continue
                    if any(isinstance(n, ast.Name) and n.id == b for x in before[first_def:] for n in ast.walk(x)):
                        continue
                    for x in before[first_def:]:
                        for n in ast.walk(x):
                            if isinstance(n, ast.Name) and n.id == a:
                                n.id = b
                    del stmts[idx]
                    return True
                for field in ("body", "orelse", "finalbody"):
                    v = getattr(s, field, None)
                    if isinstance(v, list) and v and isinstance(v[0], ast.stmt) and scan(v):
                        return True
                if isinstance(s, ast.Try):
                    for h in s.handlers:
                        if scan(h.body):
                            return True
            return False

        done = scan(fn.body)
        if not done:
            done = _coalesce_roundtrip(fn, params)
        if not done:
            break


def _coalesce_roundtrip(fn: ast.FunctionDef, params: Set[str]) -> bool:
    """``a = b; <statements using a, never b>; b = a`` : a is b all along"""
    def scan(stmts: List[ast.stmt]) -> bool:
        for i, s in enumerate(stmts):
            if isinstance(s, ast.Assign) and len(s.targets) == 1 and isinstance(s.targets[0], ast.Name) and isinstance(s.value, ast.Name) and s.targets[0].id != s.value.id:
                a, b = s.targets[0].id, s.value.id
                if a in params:
                    continue
                for j in range(i + 1, len(stmts)):
                    t = stmts[j]
                    if isinstance(t, ast.Assign) and len(t.targets) == 1 and isinstance(t.targets[0], ast.Name) and t.targets[0].id == b and isinstance(t.value, ast.Name) and t.value.id == a:
                        mid = stmts[i + 1:j]
                        if any(isinstance(n, ast.Name) and n.id == b for m in mid for n in ast.walk(m)):
                            break
                        outside = [n for n in ast.walk(fn) if isinstance(n, ast.Name) and n.id == a]
                        inside = [n for m in stmts[i:j + 1] for n in ast.walk(m) if isinstance(n, ast.Name) and n.id == a]
                        if len(outside) != len(inside):
                            break
                        for m in mid:
                            for n in ast.walk(m):
                                if isinstance(n, ast.Name) and n.id == a:
                                    n.id = b
                        del stmts[j]
                        del stmts[i]
                        return True
                    if any(isinstance(n, ast.Name) and n.id == b and isinstance(n.ctx, ast.Store) for n in ast.walk(t)):
                        break
            for field in ("body", "orelse", "finalbody"):
                v = getattr(s, field, None)
                if isinstance(v, list) and v and isinstance(v[0], ast.stmt) and scan(v):
                    return True
        return False

    return scan(fn.body)


def _is_comp_var(name: str) -> bool:
    import re as _re

    return bool(_re.fullmatch(r"c\d+_\d+", name))


def _rename_comprehension_vars(node: ast.AST, depth: int = 0) -> None:
    """comprehension variables are scoped to their comprehension: name them by nesting depth and position"""
    for child in ast.iter_child_nodes(node):
        if isinstance(child, (ast.ListComp, ast.SetComp, ast.DictComp, ast.GeneratorExp)):
            names: List[str] = []
            for g in child.generators:
                for n in ast.walk(g.target):
                    if isinstance(n, ast.Name) and n.id not in names:
                        names.append(n.id)
            mapping = {nm: f"c{depth}_{i}" for i, nm in enumerate(names)}
            for n in ast.walk(child):
                if isinstance(n, ast.Name) and n.id in mapping:
                    n.id = mapping[n.id]
            _rename_comprehension_vars(child, depth + 1)
        else:
            _rename_comprehension_vars(child, depth)


def _alpha_rename(fn: ast.FunctionDef) -> None:
    _rename_comprehension_vars(fn)
    params = {a.arg for a in ast.walk(fn.args) if isinstance(a, ast.arg)}
    order: List[str] = []
    for n in ast.walk(fn):
        pass
    # deterministic first-binding order: statement order, depth first

    def visit(node):
        for child in ast.iter_child_nodes(node):
            if isinstance(child, ast.Name) and isinstance(child.ctx, ast.Store) and child.id not in params and child.id not in order and not _is_comp_var(child.id):
                order.append(child.id)
            elif isinstance(child, ast.ExceptHandler) and child.name and child.name not in order:
                order.append(child.name)
            elif isinstance(child, (ast.ListComp, ast.SetComp, ast.DictComp, ast.GeneratorExp)):
                for g in child.generators:
                    visit(g)
                visit_rest = [c for c in ast.iter_child_nodes(child) if not isinstance(c, ast.comprehension)]
                for c in visit_rest:
                    visit(ast.Expr(value=c) if isinstance(c, ast.expr) else c)
                continue
            visit(child)

    visit(fn)
    mapping = {name: f"v{i}" for i, name in enumerate(order)}
    for n in ast.walk(fn):
        if isinstance(n, ast.Name) and n.id in mapping:
            n.id = mapping[n.id]
        elif isinstance(n, ast.ExceptHandler) and n.name in mapping:
            n.name = mapping[n.name]


def _drop_tail_return_none(stmts: List[ast.stmt]) -> List[ast.stmt]:
    if not stmts:
        return stmts
    last = stmts[-1]
    if isinstance(last, ast.Return) and (last.value is None or (isinstance(last.value, ast.Constant) and last.value.value is None)):
        return _drop_tail_return_none(stmts[:-1])
    if isinstance(last, ast.If):
        last.body = _drop_tail_return_none(list(last.body)) or [ast.Pass()]
        last.orelse = _drop_tail_return_none(list(last.orelse))
        if len(last.body) == 1 and isinstance(last.body[0], ast.Pass) and last.orelse:
            last.test, last.body, last.orelse = _negate(last.test), last.orelse, []
        if len(last.body) == 1 and isinstance(last.body[0], ast.Pass) and not last.orelse and _call_free_or_pure(last.test):
            return _drop_tail_return_none(stmts[:-1])
    if isinstance(last, ast.While) and isinstance(last.test, ast.Constant) and last.test.value is True and not last.orelse:
        # falling out of a trailing `while True` loop ends the function: a bare return inside it is a break
        class T(ast.NodeTransformer):
            def visit_Return(self, node):
                if node.value is None or (isinstance(node.value, ast.Constant) and node.value.value is None):
                    return ast.copy_location(ast.Break(), node)
                return node

            def visit_FunctionDef(self, node):
                return node

            def visit_For(self, node):
                return node  # a break there would leave the inner loop only

            visit_While = visit_For

        last.body = [T().visit(b) for b in last.body]
    return stmts


class _LoopIdioms(ast.NodeTransformer):
    """``while (x := e): B``  ->  ``while True: x = e; if x: B else: break``"""

    def visit_While(self, node):
        self.generic_visit(node)
        if isinstance(node.test, ast.NamedExpr) and isinstance(node.test.target, ast.Name) and not node.orelse:
            x = node.test.target.id
            body = [ast.Assign(targets=[ast.Name(id=x, ctx=ast.Store())], value=node.test.value), ast.If(test=ast.Name(id=x, ctx=ast.Load()), body=node.body, orelse=[ast.Break()])]
            return ast.copy_location(ast.While(test=ast.Constant(value=True), body=body, orelse=[]), node)
        return node


def _local_lists(fn: ast.FunctionDef) -> Set[str]:
    out: Set[str] = set()
    for n in ast.walk(fn):
        if isinstance(n, ast.Assign) and len(n.targets) == 1 and isinstance(n.targets[0], ast.Name) and (isinstance(n.value, (ast.List, ast.ListComp)) or (isinstance(n.value, ast.Call) and dotted(n.value.func) == "list")):
            out.add(n.targets[0].id)
    return out


def _augadd_to_extend(fn: ast.FunctionDef) -> None:
    lists = _local_lists(fn)

    class T(ast.NodeTransformer):
        def visit_AugAssign(self, node):
            if isinstance(node.op, ast.Add) and isinstance(node.target, ast.Name) and node.target.id in lists:
                call = ast.Call(func=ast.Attribute(value=ast.Name(id=node.target.id, ctx=ast.Load()), attr="extend", ctx=ast.Load()), args=[node.value], keywords=[])
                return ast.copy_location(ast.Expr(value=call), node)
            return node

    T().visit(fn)


def _sink_assignments(stmts: List[ast.stmt]) -> List[ast.stmt]:
    """move ``x = <effect-free expr>`` down to just before the first statement that mentions x (into a branch if
    only one branch of the next if mentions it), past statements that neither mention x nor rebind what the
    expression reads"""
    changed = True
    rounds = 0
    while changed and rounds < 20:
        changed = False
        rounds += 1
        for i, s in enumerate(stmts):
            if not (isinstance(s, ast.Assign) and len(s.targets) == 1 and isinstance(s.targets[0], ast.Name)) or _has_impure_call(s.value):
                continue
            x = s.targets[0].id
            free = {n.id for n in ast.walk(s.value) if isinstance(n, ast.Name)}
            j = i + 1
            while j < len(stmts):
                t = stmts[j]
                names = {n.id for n in ast.walk(t) if isinstance(n, ast.Name)}
                stores = {n.id for n in ast.walk(t) if isinstance(n, ast.Name) and isinstance(n.ctx, (ast.Store, ast.Del))}
                if x in names or (stores & free) or isinstance(t, (ast.FunctionDef, ast.AsyncFunctionDef, ast.ClassDef)):
                    break
                if not _can_cross(s.value, t):
                    j = len(stmts)  # a statement the evaluation must not pass: leave the assignment where it is
                    break
                j += 1
            if j >= len(stmts):
                continue
            t = stmts[j]
            moved = False
            if isinstance(t, ast.If) and x not in {n.id for n in ast.walk(t.test) if isinstance(n, ast.Name)}:
                in_body = any(isinstance(n, ast.Name) and n.id == x for b in t.body for n in ast.walk(b))
                in_else = any(isinstance(n, ast.Name) and n.id == x for b in t.orelse for n in ast.walk(b))
                after = any(isinstance(n, ast.Name) and n.id == x for b in stmts[j + 1:] for n in ast.walk(b))
                test_stores = {n.id for n in ast.walk(t.test) if isinstance(n, ast.Name) and isinstance(n.ctx, ast.Store)}
                if not after and in_body != in_else and not (test_stores & free) and (_no_unknown_calls(s.value) and not _may_mutate(t.test, _read_names(s.value)) or _no_unknown_calls(t.test) and not ({n.id for n in ast.walk(t.test) if isinstance(n, ast.Name)} & _read_names(s.value))):
                    del stmts[i]
                    (t.body if in_body else t.orelse).insert(0, s)
                    moved = True
            if not moved and j > i + 1:
                del stmts[i]
                stmts.insert(j - 1, s)
                moved = True
            if moved:
                changed = True
                break
    for s in stmts:
        for field in ("body", "orelse", "finalbody"):
            v = getattr(s, field, None)
            if isinstance(v, list) and v and isinstance(v[0], ast.stmt) and not isinstance(s, (ast.FunctionDef, ast.AsyncFunctionDef, ast.ClassDef)):
                setattr(s, field, _sink_assignments(v))
        if isinstance(s, ast.Try):
            for h in s.handlers:
                h.body = _sink_assignments(h.body)
    return stmts


def _loop_raise_to_any(stmts: List[ast.stmt]) -> List[ast.stmt]:
    """``for v in xs: if c(v): raise E`` (nothing else in the loop, E independent of v, c without unknown calls)
    ==  ``if any(c(v) for v in xs): raise E``"""
    out: List[ast.stmt] = []
    for s in stmts:
        for field in ("body", "orelse", "finalbody"):
            v = getattr(s, field, None)
            if isinstance(v, list) and v and isinstance(v[0], ast.stmt) and not isinstance(s, (ast.FunctionDef, ast.AsyncFunctionDef, ast.ClassDef)):
                setattr(s, field, _loop_raise_to_any(v))
        if isinstance(s, ast.Try):
            for h in s.handlers:
                h.body = _loop_raise_to_any(h.body)
        if isinstance(s, ast.For) and not s.orelse and len(s.body) == 1 and isinstance(s.body[0], ast.If) and not s.body[0].orelse and len(s.body[0].body) == 1 and isinstance(s.body[0].body[0], ast.Raise):
            test, rs = s.body[0].test, s.body[0].body[0]
            tv = {n.id for n in ast.walk(s.target) if isinstance(n, ast.Name)}
            if not (tv & {n.id for n in ast.walk(rs) if isinstance(n, ast.Name)}) and _expr_kind(test) != "unknown" and _expr_kind(s.iter) != "unknown":
                gen = ast.GeneratorExp(elt=test, generators=[ast.comprehension(target=s.target, iter=s.iter, ifs=[], is_async=0)])
                new = ast.If(test=ast.Call(func=ast.Name(id="any", ctx=ast.Load()), args=[gen], keywords=[]), body=[rs], orelse=[])
                out.append(ast.copy_location(new, s))
                ast.fix_missing_locations(new)
                continue
        out.append(s)
    return out


def _reduce_lambda_to_loop(stmts: List[ast.stmt], counter: List[int]) -> List[ast.stmt]:
    """``x = reduce(lambda a, e: BODY, xs, init)`` / ``return reduce(...)``  ==  ``a = init; for e in xs: a = BODY; x = a``"""
    out: List[ast.stmt] = []
    for s in stmts:
        for field in ("body", "orelse", "finalbody"):
            v = getattr(s, field, None)
            if isinstance(v, list) and v and isinstance(v[0], ast.stmt) and not isinstance(s, (ast.FunctionDef, ast.AsyncFunctionDef, ast.ClassDef)):
                setattr(s, field, _reduce_lambda_to_loop(v, counter))
        val = getattr(s, "value", None) if isinstance(s, (ast.Assign, ast.Return)) else None
        if isinstance(val, ast.Call) and (dotted(val.func) or "").split(".")[-1] == "reduce" and len(val.args) == 3 and not val.keywords and isinstance(val.args[0], ast.Lambda) and len(val.args[0].args.args) == 2 and not val.args[0].args.defaults:
            lam = val.args[0]
            a, e = lam.args.args[0].arg, lam.args.args[1].arg
            if isinstance(s, ast.Assign) and len(s.targets) == 1 and isinstance(s.targets[0], ast.Name) and isinstance(val.args[2], ast.Name) and val.args[2].id == s.targets[0].id and e != s.targets[0].id and not any(isinstance(n, ast.Name) and n.id == s.targets[0].id for n in ast.walk(lam.body)):
                # x = reduce(lambda a, e: BODY, xs, x)  ==  for e in xs: x = BODY[a := x]   (the accumulator is x itself)
                tname = s.targets[0].id
                body = _Subst({a: ast.Name(id=tname, ctx=ast.Load())}).visit(copy.deepcopy(lam.body))
                loop = ast.For(target=ast.Name(id=e, ctx=ast.Store()), iter=val.args[1], body=[ast.Assign(targets=[ast.Name(id=tname, ctx=ast.Store())], value=body)], orelse=[])
                ast.copy_location(loop, s)
                ast.fix_missing_locations(loop)
                out.append(loop)
                continue
            counter[0] += 1
            acc = f"_red{counter[0]}"
            body = _Subst({a: ast.Name(id=acc, ctx=ast.Load())}).visit(copy.deepcopy(lam.body))
            init = ast.Assign(targets=[ast.Name(id=acc, ctx=ast.Store())], value=val.args[2])
            loop = ast.For(target=ast.Name(id=e, ctx=ast.Store()), iter=val.args[1], body=[ast.Assign(targets=[ast.Name(id=acc, ctx=ast.Store())], value=body)], orelse=[])
            last = copy.copy(s)
            last.value = ast.Name(id=acc, ctx=ast.Load())
            for n in (init, loop, last):
                ast.copy_location(n, s)
                ast.fix_missing_locations(n)
            out.extend([init, loop, last])
            continue
        out.append(s)
    return out


def _sort_inert_runs(stmts: List[ast.stmt]) -> List[ast.stmt]:
    """consecutive ``name = <expr without unknown calls>`` statements that do not depend on one another may run in any
    order: put them in a fixed one (by the shape of the expression, which does not depend on local names' spelling)"""
    for s in stmts:
        for field in ("body", "orelse", "finalbody"):
            v = getattr(s, field, None)
            if isinstance(v, list) and v and isinstance(v[0], ast.stmt) and not isinstance(s, (ast.FunctionDef, ast.AsyncFunctionDef, ast.ClassDef)):
                setattr(s, field, _sort_inert_runs(v))
        if isinstance(s, ast.Try):
            for h in s.handlers:
                h.body = _sort_inert_runs(h.body)
    out: List[ast.stmt] = []
    run: List[ast.stmt] = []

    def flush():
        if len(run) > 1:
            tg = [r.targets[0].id for r in run]
            reads = [{n.id for n in ast.walk(r.value) if isinstance(n, ast.Name)} for r in run]
            independent = len(set(tg)) == len(tg) and not any(tg[i] in reads[j] for i in range(len(run)) for j in range(len(run)))
            if independent:
                class _Anon(ast.NodeTransformer):
                    def visit_Name(self, n):
                        return n

                run.sort(key=lambda r: ast.dump(r.value))
        out.extend(run)
        run.clear()

    aug: List[ast.stmt] = []

    def flush_aug():
        # consecutive `self.a += <total expr>` on distinct attributes, none reading another's target
        if len(aug) > 1:
            tg = [ast.dump(a.target) for a in aug]
            attrs = {a.target.attr for a in aug}
            reads = {n.attr for a in aug for n in ast.walk(a.value) if isinstance(n, ast.Attribute)}
            if len(set(tg)) == len(tg) and not (attrs & reads):
                aug.sort(key=lambda a: ast.dump(a.target))
        out.extend(aug)
        aug.clear()

    for s in stmts:
        if isinstance(s, ast.Assign) and len(s.targets) == 1 and isinstance(s.targets[0], ast.Name) and _expr_kind(s.value) != "unknown" and not _has_impure_call(s.value):
            flush_aug()
            run.append(s)
        elif isinstance(s, ast.AugAssign) and isinstance(s.target, ast.Attribute) and isinstance(s.target.value, ast.Name) and _expr_kind(s.value) == "total":
            flush()
            aug.append(s)
        else:
            flush()
            flush_aug()
            out.append(s)
    flush()
    flush_aug()
    return out


_SELF_CLASS: Optional[Tuple[str, List[str]]] = None  # (class name, dataclass init fields in order) of the method being normalised


def set_self_class(info: Optional[Tuple[str, List[str]]]) -> None:
    global _SELF_CLASS
    _SELF_CLASS = info


class _ReplaceToCtor(ast.NodeTransformer):
    """Inside a method of a dataclass C: ``replace(self, k=v, ...)`` is ``C(f1, ..., fn)`` with ``self.fi`` for the fields not
    given (no dataclass of this package is subclassed, so type(self) is C); keyword constructor calls become positional."""

    def __init__(self, cname: str, fields: List[str]):
        self.cname, self.fields = cname, fields

    def visit_Call(self, node: ast.Call):
        self.generic_visit(node)
        fn = dotted(node.func) or ""
        if fn in ("replace", "dataclasses.replace") and len(node.args) == 1 and isinstance(node.args[0], ast.Name) and node.args[0].id == "self" and node.keywords and all(k.arg in self.fields for k in node.keywords):
            given = {k.arg: k.value for k in node.keywords}
            args = [given.get(f, ast.Attribute(value=ast.Name(id="self", ctx=ast.Load()), attr=f, ctx=ast.Load())) for f in self.fields]
            return ast.copy_location(ast.Call(func=ast.Name(id=self.cname, ctx=ast.Load()), args=args, keywords=[]), node)
        if fn in (self.cname, "type(self)") or (isinstance(node.func, ast.Call) and norm(node.func) == "type(self)"):
            if node.keywords and all(k.arg in self.fields for k in node.keywords) and len(node.args) + len(node.keywords) == len(self.fields):
                rest = self.fields[len(node.args):]
                given = {k.arg: k.value for k in node.keywords}
                if set(given) == set(rest):
                    return ast.copy_location(ast.Call(func=ast.Name(id=self.cname, ctx=ast.Load()), args=list(node.args) + [given[f] for f in rest], keywords=[]), node)
        return node


def _inline_local_expr_functions(f: ast.FunctionDef) -> None:
    """A nested ``def g(p1, ..): return <expr>`` that is only ever *called* (positionally, with plain names / constants) is
    replaced by its expression at every call site. The closure reads its free variables when it is called, and so does the
    substituted expression, hence nothing changes as long as no comprehension / lambda at a call site rebinds one of them."""
    for k, st in enumerate(list(f.body)):
        if not (isinstance(st, ast.FunctionDef) and not st.decorator_list):
            continue
        a = st.args
        body = strip_docstring(st.body)
        if a.vararg or a.kwarg or a.kwonlyargs or a.defaults or a.posonlyargs or len(body) != 1 or not isinstance(body[0], ast.Return) or body[0].value is None:
            continue
        params = [x.arg for x in a.args]
        expr = body[0].value
        if any(isinstance(n, (ast.Lambda, ast.Yield, ast.YieldFrom, ast.Await, ast.NamedExpr)) for n in ast.walk(expr)) or any(isinstance(n, ast.Name) and n.id == st.name for n in ast.walk(expr)):
            continue
        counts = {p: sum(1 for n in ast.walk(expr) if isinstance(n, ast.Name) and n.id == p) for p in params}
        inner_bound = {n.id for c in ast.walk(expr) if isinstance(c, ast.comprehension) for n in ast.walk(c.target) if isinstance(n, ast.Name)}
        free = {n.id for n in ast.walk(expr) if isinstance(n, ast.Name)} - set(params) - inner_bound
        uses = [n for x in f.body if x is not st for n in ast.walk(x) if isinstance(n, ast.Name) and n.id == st.name]
        calls = [n for x in f.body if x is not st for n in ast.walk(x) if isinstance(n, ast.Call) and isinstance(n.func, ast.Name) and n.func.id == st.name]
        if not calls or len(uses) != len(calls):
            continue
        if any(c.keywords or len(c.args) != len(params) or not all(isinstance(x, (ast.Name, ast.Constant)) or counts[p] <= 1 for x, p in zip(c.args, params)) or any(isinstance(x, ast.Starred) for x in c.args) for c in calls):
            continue
        # names bound by comprehensions / lambdas anywhere else in the function must not capture the closure's free names
        rebinders = {n.id for x in f.body if x is not st for c in ast.walk(x) if isinstance(c, ast.comprehension) for n in ast.walk(c.target) if isinstance(n, ast.Name)}
        rebinders |= {x.arg for y in f.body if y is not st for lam in ast.walk(y) if isinstance(lam, ast.Lambda) for x in lam.args.args}
        if free & rebinders:
            continue
        # the free names must not be re-assigned after the definition in a way an eager reading would miss: both read at call time
        class Sub(ast.NodeTransformer):
            def visit_Call(self, node):
                self.generic_visit(node)
                if isinstance(node.func, ast.Name) and node.func.id == st.name:
                    mapping = dict(zip(params, node.args))

                    class P(ast.NodeTransformer):
                        def visit_Name(self, n):
                            return copy.deepcopy(mapping[n.id]) if n.id in mapping and isinstance(n.ctx, ast.Load) else n

                    return ast.copy_location(P().visit(copy.deepcopy(expr)), node)
                return node

        for i, x in enumerate(f.body):
            if x is not st:
                f.body[i] = Sub().visit(x)
        f.body.remove(st)
        ast.fix_missing_locations(f)


def _unroll_singleton_loops(f: ast.FunctionDef) -> None:
    """`for a, b in zip([x], [y]): BODY` / `for a in [x]: BODY` with simple x, y -> BODY[a := x, b := y]: one iteration, the loop
    variables only stand for the listed items (not stored in the body, not read outside the loop, no break / continue / else)."""

    def items_of(it: ast.AST, target: ast.AST):
        if isinstance(it, (ast.List, ast.Tuple)) and len(it.elts) == 1 and isinstance(target, ast.Name):
            return {target.id: it.elts[0]}
        if isinstance(it, ast.Call) and dotted(it.func) == "zip" and not it.keywords and isinstance(target, ast.Tuple) and len(target.elts) == len(it.args) and all(isinstance(t, ast.Name) for t in target.elts) and all(isinstance(a, (ast.List, ast.Tuple)) and len(a.elts) == 1 for a in it.args):
            return {t.id: a.elts[0] for t, a in zip(target.elts, it.args)}
        return None

    def walk_blocks(stmts: List[ast.stmt]):
        k = 0
        while k < len(stmts):
            st = stmts[k]
            if isinstance(st, ast.For) and not st.orelse:
                m = items_of(st.iter, st.target)
                if m is not None and all(_simple_arg(v) and not isinstance(v, ast.Starred) for v in m.values()):
                    inner = [n for x in st.body for n in ast.walk(x)]
                    jumps = any(isinstance(n, (ast.Break, ast.Continue, ast.Return, ast.FunctionDef, ast.Lambda, ast.Yield, ast.YieldFrom)) for n in inner)
                    stored = any(isinstance(n, ast.Name) and n.id in m and isinstance(n.ctx, (ast.Store, ast.Del)) for n in inner)
                    inside = {id(n) for n in ast.walk(st)}
                    used_outside = any(isinstance(n, ast.Name) and n.id in m and id(n) not in inside for n in ast.walk(f))
                    # the substituted items must not be changed by the body before their last use: only allow names / attributes the body never stores
                    item_names = {n.id for v in m.values() for n in ast.walk(v) if isinstance(n, ast.Name)}
                    items_rebound = any(isinstance(n, ast.Name) and n.id in item_names and isinstance(n.ctx, (ast.Store, ast.Del)) for n in inner)
                    if not (jumps or stored or used_outside or items_rebound):
                        new_body = [_Subst(m).visit(copy.deepcopy(x)) for x in st.body]
                        stmts[k:k + 1] = new_body
                        continue
            for field in ("body", "orelse", "finalbody"):
                v = getattr(st, field, None)
                if isinstance(v, list) and v and isinstance(v[0], ast.stmt) and not isinstance(st, (ast.FunctionDef, ast.AsyncFunctionDef, ast.ClassDef)):
                    walk_blocks(v)
            if isinstance(st, ast.Try):
                for h in st.handlers:
                    walk_blocks(h.body)
            k += 1

    walk_blocks(f.body)


def canonical_function(fn: ast.FunctionDef, _nested: bool = False, rename: bool = True) -> ast.FunctionDef:
    f = fn if _nested else copy.deepcopy(fn)
    f.decorator_list = list(f.decorator_list)
    if not _nested:
        _inline_local_expr_functions(f)
        if _SELF_CLASS is not None:
            f = _ReplaceToCtor(*_SELF_CLASS).visit(f)
            ast.fix_missing_locations(f)
    # nested functions first (they are closed units; the outer passes treat them as opaque statements)
    for i, st in enumerate(list(ast.walk(f))):
        pass
    def canon_nested(stmts: List[ast.stmt]):
        for k, st in enumerate(stmts):
            if isinstance(st, (ast.FunctionDef, ast.AsyncFunctionDef)):
                stmts[k] = canonical_function(st, _nested=True)
            else:
                for field in ("body", "orelse", "finalbody"):
                    v = getattr(st, field, None)
                    if isinstance(v, list) and v and isinstance(v[0], ast.stmt):
                        canon_nested(v)
                if isinstance(st, ast.Try):
                    for h in st.handlers:
                        canon_nested(h.body)
    canon_nested(f.body)
    f = _Strip().visit(f)
    f = _LoopIdioms().visit(f)
    ast.fix_missing_locations(f)
    _unroll_singleton_loops(f)
    ast.fix_missing_locations(f)
    _augadd_to_extend(f)
    f = _IterIdioms().visit(f)
    if not _nested:
        _inline_local_expr_functions(f)  # again: map(g, xs) has become (g(x) for x in xs)
    f.body = _reduce_lambda_to_loop(list(f.body), [0])
    for _round in range(3):
        f.body = _loop_raise_to_any(list(f.body))
        f.body = _split_tuple_assign(list(f.body))
        f.body = _normalise_blocks(list(f.body), False) or [ast.Pass()]
        f.body = _split_multi_assign_branches(f.body)
        f.body = _fuse_list_builders(f.body)
        f.body = _loops_to_comprehensions(f.body)
        f.body = _sink_assignments(list(f.body))
        f.body = _drop_tail_return_none(list(f.body)) or [ast.Pass()]
        f.body = _default_then_override(f.body)
        f.body = _prealloc_fill(f.body)
        f.body = _push_return_down(f.body)
        f.body = _normalise_blocks(list(f.body), False) or [ast.Pass()]
        f.body = _hoist_common_tail(f.body)
        _inline_temporaries(f)
        f = _Strip().visit(f)
        ast.fix_missing_locations(f)
    _fix_loops(f)
    f.body = _sort_inert_runs(list(f.body))
    _coalesce_copies(f)
    f.body = _normalise_blocks(list(f.body), False) or [ast.Pass()]
    f = _ifexp_polarity(f)
    f = _SortAdditive().visit(f)
    f.body = _drop_tail_return_none(list(f.body)) or [ast.Pass()]
    if not _nested and rename:
        _alpha_rename(f)
    ast.fix_missing_locations(f)
    return f


def canonical_dump(fn: ast.FunctionDef) -> str:
    try:
        return ast.dump(canonical_function(fn), annotate_fields=False, include_attributes=False)
    except RecursionError:  # pragma: no cover
        return ast.dump(fn, annotate_fields=False, include_attributes=False)
