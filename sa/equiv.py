"""EQUIV: automatically generated *equivalent mutants* -- small behaviour-preserving rewrites of the repository's own
functions -- on which every check must stay silent.

    /venv/bin/python -m sa.equiv [--n 300] [--seed 1] [--jobs 14] [--props C01,C02] [-v]

Each variant applies ONE micro-rewrite to ONE function of a module that some property anchors in, re-prints that function
with ``ast.unparse`` (the rest of the file is kept byte for byte) and hands the result to the checks in memory
(``Repo(overrides=...)``); nothing is written to /repo and nothing is executed. The rewrites are chosen so that they are
behaviour-preserving for every input by construction:

  rename      a local variable (not a parameter, not global/nonlocal, not captured by a nested function) is renamed
  swap-if     ``if c: A else: B``  ->  ``if not c: B else: A``
  else-return ``if c: <ends in return/raise>; rest``  <->  ``if c: ... else: rest``
  neq         ``a != b`` <-> ``not a == b``, ``a is not b`` <-> ``not a is b``, ``a not in b`` <-> ``not a in b``
  temp-out    ``return <expr>`` / ``x = <expr>``  ->  ``_t = <expr>; return _t`` / ``_t = <expr>; x = _t``
  temp-in     ``t = <expr>`` immediately followed by a statement whose only use of ``t`` is evaluated first -> inlined
  comp-loop   ``x = [e for v in it (if c)]``  ->  ``x = []; for v in it: (if c:) x.append(e)``
  append      ``x += [e]``  ->  ``x.append(e)``  (x a list built in this function)

A variant that makes a check exit non-zero is a false alarm (VIOLATION) or a loss of the construct (ANALYSIS-ERROR); both are
listed. This is the measured form of "never raise an alarm on code where the property holds" for small edits; the corpus of
large refactorings is in /verif/benign.
"""
from __future__ import annotations

import argparse
import ast
import copy
import json
import os
import random
import sys
from concurrent.futures import ProcessPoolExecutor
from typing import Dict, List, Optional, Tuple

VERIF = os.path.dirname(os.path.dirname(os.path.abspath(__file__)))
SRC_PREFIX = "src/orquestra/quantum/"


def anchored_files() -> Dict[str, List[str]]:
    """repo-relative source file -> properties anchored in it (from properties.jsonl)"""
    out: Dict[str, List[str]] = {}
    for line in open(os.path.join(VERIF, "properties.jsonl")):
        p = json.loads(line)
        for f in p.get("anchors", {}).get("files", []):
            if f.endswith(".py") and f.startswith("src/"):
                out.setdefault(f, []).append(p["id"])
    return out


# ------------------------------------------------------------------------------------------------ rewrites
def _locals_renamable(fn: ast.FunctionDef) -> List[str]:
    params = {a.arg for a in ast.walk(fn.args) if isinstance(a, ast.arg)}
    banned = set(params)
    for n in ast.walk(fn):
        if isinstance(n, (ast.Global, ast.Nonlocal)):
            banned |= set(n.names)
        if isinstance(n, (ast.FunctionDef, ast.AsyncFunctionDef, ast.Lambda, ast.ClassDef)) and n is not fn:
            banned |= {x.id for x in ast.walk(n) if isinstance(x, ast.Name)}
            banned |= {a.arg for a in ast.walk(n) if isinstance(a, ast.arg)}
        if isinstance(n, ast.Call) and isinstance(n.func, ast.Name) and n.func.id in ("locals", "vars", "eval", "exec"):
            return []
    stored = []
    for n in ast.walk(fn):
        if isinstance(n, ast.Name) and isinstance(n.ctx, ast.Store) and n.id not in banned and n.id not in stored and not n.id.startswith("__"):
            stored.append(n.id)
        if isinstance(n, ast.ExceptHandler) and n.name and n.name not in banned and n.name not in stored:
            stored.append(n.name)
    # keyword argument names of calls must not collide (renaming does not touch them, fine)
    return stored


def rw_rename(fn: ast.FunctionDef, rng: random.Random) -> Optional[str]:
    names = _locals_renamable(fn)
    if not names:
        return None
    old = rng.choice(names)
    used = {n.id for n in ast.walk(fn) if isinstance(n, ast.Name)} | {a.arg for a in ast.walk(fn) if isinstance(a, ast.arg)}
    new = old + "_renamed"
    while new in used:
        new += "_"
    for n in ast.walk(fn):
        if isinstance(n, ast.Name) and n.id == old:
            n.id = new
        if isinstance(n, ast.ExceptHandler) and n.name == old:
            n.name = new
    return f"rename {old}->{new}"


def _blocks(fn: ast.AST):
    for n in ast.walk(fn):
        for field in ("body", "orelse", "finalbody"):
            v = getattr(n, field, None)
            if isinstance(v, list) and v and isinstance(v[0], ast.stmt):
                yield n, field, v
        if isinstance(n, ast.Try):
            for h in n.handlers:
                yield h, "body", h.body


def rw_swap_if(fn: ast.FunctionDef, rng: random.Random) -> Optional[str]:
    cands = [n for n in ast.walk(fn) if isinstance(n, ast.If) and n.orelse and not (len(n.orelse) == 1 and isinstance(n.orelse[0], ast.If))]
    if not cands:
        return None
    n = rng.choice(cands)
    n.test = ast.UnaryOp(op=ast.Not(), operand=n.test)
    n.body, n.orelse = n.orelse, n.body
    return "swap-if"


def _exits(block: List[ast.stmt]) -> bool:
    return bool(block) and isinstance(block[-1], (ast.Return, ast.Raise))


def rw_else_return(fn: ast.FunctionDef, rng: random.Random) -> Optional[str]:
    cands = []
    for owner, field, blk in _blocks(fn):
        if isinstance(owner, (ast.For, ast.While, ast.AsyncFor)) and field == "body":
            pass
        for i, s in enumerate(blk):
            if isinstance(s, ast.If) and not s.orelse and _exits(s.body) and i + 1 < len(blk):
                cands.append(("to-else", blk, i))
            if isinstance(s, ast.If) and s.orelse and _exits(s.body) and i + 1 == len(blk) and not (len(s.orelse) == 1 and isinstance(s.orelse[0], ast.If)):
                cands.append(("from-else", blk, i))
    if not cands:
        return None
    kind, blk, i = rng.choice(cands)
    s = blk[i]
    if kind == "to-else":
        s.orelse = blk[i + 1:]
        del blk[i + 1:]
    else:
        rest = s.orelse
        s.orelse = []
        blk.extend(rest)
    return "else-return:" + kind


def rw_neq(fn: ast.FunctionDef, rng: random.Random) -> Optional[str]:
    inv = {ast.NotEq: ast.Eq, ast.IsNot: ast.Is, ast.NotIn: ast.In}
    cands = [n for n in ast.walk(fn) if isinstance(n, ast.Compare) and len(n.ops) == 1 and type(n.ops[0]) in inv]
    if not cands:
        return None
    target = rng.choice(cands)

    class T(ast.NodeTransformer):
        def visit_Compare(self, node):
            self.generic_visit(node)
            if node is target:
                return ast.UnaryOp(op=ast.Not(), operand=ast.Compare(left=node.left, ops=[inv[type(node.ops[0])]()], comparators=node.comparators))
            return node

    T().visit(fn)
    return "neq"


def rw_temp_out(fn: ast.FunctionDef, rng: random.Random) -> Optional[str]:
    cands = []
    for owner, field, blk in _blocks(fn):
        for i, s in enumerate(blk):
            if isinstance(s, ast.Return) and s.value is not None and not isinstance(s.value, (ast.Name, ast.Constant)):
                cands.append((blk, i))
            if isinstance(s, ast.Assign) and len(s.targets) == 1 and isinstance(s.targets[0], ast.Name) and isinstance(s.value, (ast.Call, ast.BinOp)):
                cands.append((blk, i))
    if not cands:
        return None
    blk, i = rng.choice(cands)
    s = blk[i]
    used = {n.id for n in ast.walk(fn) if isinstance(n, ast.Name)}
    t = "_tmp_value"
    while t in used:
        t += "_"
    pre = ast.Assign(targets=[ast.Name(id=t, ctx=ast.Store())], value=s.value)
    s.value = ast.Name(id=t, ctx=ast.Load())
    blk.insert(i, pre)
    return "temp-out"


def rw_temp_in(fn: ast.FunctionDef, rng: random.Random) -> Optional[str]:
    from .canon import _eval_prefix, _header_exprs

    cands = []
    for owner, field, blk in _blocks(fn):
        for i in range(len(blk) - 1):
            s, nxt = blk[i], blk[i + 1]
            if isinstance(s, ast.Assign) and len(s.targets) == 1 and isinstance(s.targets[0], ast.Name) and isinstance(nxt, (ast.Return, ast.Assign, ast.Expr)):
                name = s.targets[0].id
                loads = [n for n in ast.walk(fn) if isinstance(n, ast.Name) and n.id == name and isinstance(n.ctx, ast.Load)]
                stores = [n for n in ast.walk(fn) if isinstance(n, ast.Name) and n.id == name and isinstance(n.ctx, (ast.Store, ast.Del))]
                here = [n for n in ast.walk(nxt) if isinstance(n, ast.Name) and n.id == name and isinstance(n.ctx, ast.Load)]
                if len(loads) == 1 and len(here) == 1 and len(stores) == 1:
                    found, cond, before = _eval_prefix(_header_exprs(nxt), here[0])
                    if found and not cond and not before:
                        cands.append((blk, i, name))
    if not cands:
        return None
    blk, i, name = rng.choice(cands)
    val = blk[i].value

    class T(ast.NodeTransformer):
        def visit_Name(self, node):
            if node.id == name and isinstance(node.ctx, ast.Load):
                return val
            return node

    blk[i + 1] = T().visit(blk[i + 1])
    del blk[i]
    return f"temp-in {name}"


def rw_comp_loop(fn: ast.FunctionDef, rng: random.Random) -> Optional[str]:
    cands = []
    for owner, field, blk in _blocks(fn):
        for i, s in enumerate(blk):
            if isinstance(s, ast.Assign) and len(s.targets) == 1 and isinstance(s.targets[0], ast.Name) and isinstance(s.value, ast.ListComp) and len(s.value.generators) == 1 and not s.value.generators[0].is_async:
                x = s.targets[0].id
                if not any(isinstance(n, ast.Name) and n.id == x for n in ast.walk(s.value)):
                    # the comprehension variable becomes a function local: it must not clash with anything
                    tv = {n.id for n in ast.walk(s.value.generators[0].target) if isinstance(n, ast.Name)}
                    others = {n.id for n in ast.walk(fn) if isinstance(n, ast.Name) and not any(n is m for m in ast.walk(s.value))} | {a.arg for a in ast.walk(fn) if isinstance(a, ast.arg)}
                    if not (tv & others):
                        cands.append((blk, i))
    if not cands:
        return None
    blk, i = rng.choice(cands)
    s = blk[i]
    g = s.value.generators[0]
    x = s.targets[0].id
    inner: List[ast.stmt] = [ast.Expr(value=ast.Call(func=ast.Attribute(value=ast.Name(id=x, ctx=ast.Load()), attr="append", ctx=ast.Load()), args=[s.value.elt], keywords=[]))]
    for c in reversed(g.ifs):
        inner = [ast.If(test=c, body=inner, orelse=[])]
    blk[i:i + 1] = [ast.Assign(targets=[ast.Name(id=x, ctx=ast.Store())], value=ast.List(elts=[], ctx=ast.Load())), ast.For(target=g.target, iter=g.iter, body=inner, orelse=[])]
    return "comp-loop"


def rw_append(fn: ast.FunctionDef, rng: random.Random) -> Optional[str]:
    lists = {n.targets[0].id for n in ast.walk(fn) if isinstance(n, ast.Assign) and len(n.targets) == 1 and isinstance(n.targets[0], ast.Name) and isinstance(n.value, (ast.List, ast.ListComp))}
    cands = []
    for owner, field, blk in _blocks(fn):
        for i, s in enumerate(blk):
            if isinstance(s, ast.AugAssign) and isinstance(s.op, ast.Add) and isinstance(s.target, ast.Name) and s.target.id in lists and isinstance(s.value, ast.List) and len(s.value.elts) == 1 and not isinstance(s.value.elts[0], ast.Starred):
                cands.append((blk, i))
    if not cands:
        return None
    blk, i = rng.choice(cands)
    s = blk[i]
    blk[i] = ast.Expr(value=ast.Call(func=ast.Attribute(value=ast.Name(id=s.target.id, ctx=ast.Load()), attr="append", ctx=ast.Load()), args=[s.value.elts[0]], keywords=[]))
    return "append"


REWRITES = [rw_rename, rw_swap_if, rw_else_return, rw_neq, rw_temp_out, rw_temp_in, rw_comp_loop, rw_append]


# ------------------------------------------------------------------------------------------------ variants
def _functions(tree: ast.Module) -> List[Tuple[str, ast.FunctionDef]]:
    out = []
    for s in tree.body:
        if isinstance(s, (ast.FunctionDef,)):
            out.append((s.name, s))
        elif isinstance(s, ast.ClassDef):
            for sub in s.body:
                if isinstance(sub, ast.FunctionDef):
                    out.append((f"{s.name}.{sub.name}", sub))
    return out


def make_variant(repo_root: str, rel: str, rng: random.Random) -> Optional[Tuple[str, str, str]]:
    """-> (description, relative path, new source text) or None"""
    path = os.path.join(repo_root, rel)
    src = open(path, encoding="utf-8").read()
    tree = ast.parse(src)
    funcs = [(q, f) for q, f in _functions(tree) if not any(isinstance(n, (ast.Yield, ast.YieldFrom)) for n in ast.walk(f)) or True]
    if not funcs:
        return None
    for _ in range(12):
        qual, fn = rng.choice(funcs)
        rw = rng.choice(REWRITES)
        work = copy.deepcopy(fn)
        try:
            what = rw(work, rng)
        except Exception:
            what = None
        if what is None:
            continue
        ast.fix_missing_locations(work)
        try:
            new_text = ast.unparse(work)
            ast.parse(new_text)
        except Exception:
            continue
        lines = src.splitlines(keepends=True)
        start = (fn.decorator_list[0].lineno if fn.decorator_list else fn.lineno) - 1
        end = fn.end_lineno
        indent = " " * fn.col_offset
        body = "".join(indent + l + "\n" for l in new_text.splitlines())
        new_src = "".join(lines[:start]) + body + "".join(lines[end:])
        try:
            ast.parse(new_src)
        except SyntaxError:
            continue
        return f"{rel[len(SRC_PREFIX):]}:{qual}:{what}", rel, new_src
    return None


def _run(args):
    root, desc, rel, text, props = args
    from .check import evaluate
    from .report import UNDECIDED, VIOLATION, load_known

    known = {(k["property"], k["key"]) for k in load_known().get("known", [])}
    res = {}
    for p in props:
        status, obligations, msg = evaluate(p, root, {rel: text})
        viol = [o for o in obligations if o.status == VIOLATION and (p, o.key) not in known]
        und = [o for o in obligations if o.status == UNDECIDED]
        st = "violation" if viol else ("error" if (status == "error" or und) else "pass")
        if st != "pass":
            first = (viol or und)
            res[p] = (st, f"{first[0].rule.split(' ')[0]} {first[0].construct[-70:]} :: {first[0].detail[:140]}" if first else msg[:160])
    return desc, res


def main(argv=None):
    ap = argparse.ArgumentParser()
    ap.add_argument("--n", type=int, default=300)
    ap.add_argument("--seed", type=int, default=int(os.environ.get("VERIF_SEED", "1") or 1))
    ap.add_argument("--jobs", type=int, default=14)
    ap.add_argument("--repo", default="/repo")
    ap.add_argument("--props", default=None)
    ap.add_argument("-v", action="store_true")
    a = ap.parse_args(argv)
    rng = random.Random(a.seed)
    files = anchored_files()
    only = set(a.props.split(",")) if a.props else None
    rels = sorted(f for f in files if os.path.exists(os.path.join(a.repo, f)))
    jobs = []
    seen = set()
    tries = 0
    while len(jobs) < a.n and tries < a.n * 20:
        tries += 1
        rel = rng.choice(rels)
        v = make_variant(a.repo, rel, rng)
        if v is None or v[0] in seen:
            continue
        seen.add(v[0])
        props = [p for p in files[rel] if not only or p in only]
        if props:
            jobs.append((a.repo, v[0], v[1], v[2], props))
    with ProcessPoolExecutor(max_workers=a.jobs) as ex:
        results = list(ex.map(_run, jobs, chunksize=2))
    bad_v = bad_e = 0
    per_kind: Dict[str, List[int]] = {}
    for desc, res in results:
        kind = desc.split(":")[-1].split(" ")[0]
        k = per_kind.setdefault(kind, [0, 0])
        k[0] += 1
        if res:
            k[1] += 1
            worst = "violation" if any(v[0] == "violation" for v in res.values()) else "error"
            bad_v += worst == "violation"
            bad_e += worst == "error"
            print(f"{'FALSE-ALARM' if worst == 'violation' else 'UNDECIDED  '} {desc}")
            for p, (st, why) in res.items():
                print(f"      {p} {st}: {why}")
        elif a.v:
            print(f"silent      {desc}")
    print(f"[equiv] variants={len(results)} silent={len(results) - bad_v - bad_e} false-alarm={bad_v} undecided={bad_e}  per rewrite (n, not silent): {per_kind}")
    return 0 if not (bad_v or bad_e) else 1


if __name__ == "__main__":
    sys.exit(main())
