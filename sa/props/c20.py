"""C20 — value-returning operations never modify their arguments."""
from __future__ import annotations

import ast

from ..astutil import body_walk, dotted, norm, short
from ..common import circuit_ctor_calls
from ..effects import Effects, VALUE_CLASSES, is_value_typed

EXPLANATION = (
    "Interprocedural alias/mutation analysis over every function of the package (excluding the test-case tables): "
    "a function violates value semantics when its fixpoint summary says it writes (attribute/subscript store, "
    "delete, in-place augmented assignment, container/ndarray/sparse in-place method, or a callee that does) "
    "through any alias of a parameter or receiver whose static type may be one of the value classes (Circuit, "
    "gates and gate operations, PauliTerm/PauliSum, Measurements, MeasurementOutcomeDistribution, Wavefunction) or "
    "is un-annotated. Designed mutators and hasattr-guarded memo attributes are allow-listed by name. Also: gate "
    "classes and EstimationTask are frozen dataclasses, object.__setattr__ only in __post_init__, Circuit copies its "
    "operation list, every circuit-returning method of Circuit constructs a new object."
)
RULE_TEXT = (
    "instances = (function, parameter) pairs with a value-typed or un-annotated parameter, plus frozen-dataclass and "
    "copy-on-construct obligations; non-trivial = the parameter is in scope of the property; distinct by "
    "(function, parameter)"
)
ASSUMPTIONS = [
    "external (numpy/scipy/sympy/stdlib) callees not listed in MUTATORS/EXTERNAL_MUTATORS do not modify their arguments (list of externals that received a tracked alias is in coverage.externals_assumed_pure)",
    "an augmented assignment to a local name whose static kind is unknown is a rebinding (sites listed in coverage.notes)",
    "class-hierarchy analysis over-approximates dynamic dispatch on untyped receivers",
]

R1 = "C20-D1 no-write-through-argument"
R2 = "C20-D2 frozen-value-classes"
R3 = "C20-D3 circuit-copies"

MEMO_ATTRS = {"_circuit": "PauliTerm.circuit cache", "_is_ising": "PauliSum.is_ising cache", "_circuits": "PauliSum.circuits cache"}
# (class, method) -> reason
DESIGNED_MUTATORS = {
    ("Wavefunction", "__setitem__"): "element assignment is the documented mutator of Wavefunction (C12 constrains it)",
    ("Measurements", "add_counts"): "documented in-place accumulation of counts",
}
CTOR_NAMES = ("__init__", "__post_init__", "__new__")
FROZEN = [
    "circuits._gates:GateOperation", "circuits._gates:MatrixFactoryGate", "circuits._gates:ControlledGate",
    "circuits._gates:Dagger", "circuits._gates:Exponential", "circuits._gates:Power",
    "circuits._gates:CustomGateMatrixFactory", "circuits._gates:CustomGateDefinition",
    "circuits._wavefunction_operations:MultiPhaseOperation", "api.estimation:EstimationTask",
]
EXCLUDED_MODULE_PREFIXES = ("testing", "api.circuit_runner_contracts", "api.wavefunction_simulator_contracts", "api.estimator_contract")


def effects_for(ctx) -> Effects:
    eff = getattr(ctx.repo, "_effects", None)
    if eff is None:
        eff = Effects(ctx.repo, MEMO_ATTRS)
        ctx.repo._effects = eff
    return eff


def mutation_obligations(ctx, rule, funcs, eff=None, only_params=None):
    """Emit one obligation per (function, in-scope parameter)."""
    eff = eff or effects_for(ctx)
    n = 0
    for fi in funcs:
        ctx.analysed(fi)
        summ = eff.summary(fi)
        a = fi.node.args
        params = [p.arg for p in list(a.posonlyargs) + list(a.args) + list(a.kwonlyargs)]
        for p in params:
            if only_params is not None and p not in only_params:
                continue
            if p == "cls" and fi.is_classmethod:
                continue
            in_scope, why = is_value_typed(eff, fi, p)
            if not in_scope:
                continue
            if p == "self" and fi.name in CTOR_NAMES:
                continue
            if p == "self" and fi.cls is not None and (fi.cls.name, fi.name) in DESIGNED_MUTATORS:
                continue
            n += 1
            sites = []
            for (pp, d), ss in summ.mutates.items():
                if pp != p:
                    continue
                for s in ss:
                    if s.memo:
                        continue
                    sites.append((d, s))
            construct = f"{fi.key}({p})"
            if not sites:
                ctx.ok(rule, construct, f"no write through any alias of {p} ({why})", fi)
            else:
                for d, s in sites[:4]:
                    chain = " -> ".join(s.via + (s.func,)) if s.via else s.func
                    ctx.violation(
                        rule,
                        f"{construct}:{s.func}:{s.text}",
                        f"{fi.qualname} modifies its argument '{p}' ({why}; depth {d}): `{s.text}` at {s.where}" + (f" reached via {chain}" if s.via else ""),
                        s.where,
                    )
    return n


def run(ctx):
    repo = ctx.repo
    eff = effects_for(ctx)
    funcs = [f for f in repo.all_functions() if not f.module.name.startswith(EXCLUDED_MODULE_PREFIXES)]
    n = mutation_obligations(ctx, R1, funcs, eff)
    # memo writes must be guarded
    for f in funcs:
        for (p, d), sites in eff.summary(f).mutates.items():
            for s in sites:
                if s.memo and not s.via:
                    ctx.ok(R1, f"{f.key}:memo:{s.memo}", f"hasattr-guarded memoisation of {s.memo} ({MEMO_ATTRS[s.memo]})", s.where)
    # an unguarded write to a memo attribute is an ordinary mutation and already reported above
    ctx.extra["mutation_sites_total"] = len(eff.mutation_sites)
    ctx.extra["mutation_sites_in_constructors"] = sum(1 for s in eff.mutation_sites if s.func.split(".")[-1] in CTOR_NAMES)
    ctx.extra["effect_fixpoint_rounds"] = eff.rounds
    ctx.externals |= eff.externals_seen
    for f in funcs:
        for t in eff.summary(f).unknown_kind_augassign:
            ctx.note("augmented assignment on a name of unknown kind treated as rebinding: " + t)
    # designed mutators exist (so that the allow-list cannot silently go stale)
    for (cname, mname), why in DESIGNED_MUTATORS.items():
        found = [c for c in repo.all_classes() if c.name == cname and mname in c.methods]
        if not found:
            ctx.undecided(R1, f"designed-mutator:{cname}.{mname}", "allow-listed designed mutator no longer exists", "")
    # ---- D2 frozen dataclasses
    for key in FROZEN:
        ci = repo.cls(key)
        ctx.check(ci.is_dataclass and ci.is_frozen, R2, ci.key, "@dataclass(frozen=True)", f"{ci.name} is not a frozen dataclass: its fields can be reassigned after construction", ci)
    for f in funcs:
        for n_ in body_walk(f.node):
            if isinstance(n_, ast.Call) and dotted(n_.func) in ("object.__setattr__", "object.__delattr__"):
                ok = f.name in ("__post_init__", "__init__")
                ctx.check(ok, R2, f"{f.key}:object.__setattr__", "object.__setattr__ only while constructing", f"{f.qualname} bypasses a frozen dataclass with {short(n_)} outside construction", f"{f.module.relpath}:{n_.lineno}")
    # ---- D3 Circuit copies its operation list; circuit-returning methods build new objects
    init = repo.func("circuits._circuit:Circuit.__init__")
    stores = [n_ for n_ in body_walk(init.node) if isinstance(n_, ast.Assign) and norm(n_.targets[0]) == "self._operations"]
    ok = bool(stores) and all(_copies(s.value, "operations") for s in stores)
    ctx.check(ok, R3, init.key, "self._operations = list(operations)", "Circuit.__init__ keeps the caller's operation list by reference: later edits of that list change the circuit", init)
    cls = repo.cls("circuits._circuit:Circuit")
    for name in ("bind", "inverse", "controlled", "__add__"):
        m = cls.methods.get(name)
        if m is None:
            ctx.undecided(R3, f"circuits._circuit:Circuit.{name}", "method missing", cls)
            continue
        rets = eff.summary(m).returns
        aliases_self = [r for r in rets if r[0] == "P" and r[1] == "self" and r[3] == 0 and r[2] == 0]
        ctx.check(not aliases_self, R3, m.key, "returns a newly constructed circuit", f"{m.qualname} can return its receiver itself instead of a new circuit", m)
    ctx.floor("C20-D1", 150)
    ctx.floor("C20-D2", 10)
    ctx.floor("C20-D3", 5)


def _copies(value: ast.AST, param: str) -> bool:
    """``list(param)`` (possibly inside ``X if param is not None else []``) or a comprehension."""
    if isinstance(value, ast.IfExp):
        return all(_copies(v, param) or (isinstance(v, (ast.List, ast.Tuple)) and not v.elts) for v in (value.body, value.orelse))
    if isinstance(value, ast.Call) and dotted(value.func) in ("list", "tuple", "copy.copy", "copy.deepcopy") and len(value.args) == 1:
        return True
    if isinstance(value, (ast.ListComp,)):
        return True
    if isinstance(value, ast.List) and all(isinstance(e, ast.Starred) for e in value.elts):
        return True
    return False
