"""C16 — time-evolution circuits implement exp(-i t H) term by term, and its derivative."""
from __future__ import annotations

import ast
from typing import List, Optional, Tuple

from ..astutil import arg_or_kw, body_walk, const_value, dotted, is_const, norm, positional_params, short, walk_local
from ..cfg import cfg_of, own_parts
from ..common import returned_exprs
from ..flow import Defs
from ..linform import poly, poly_eq, show, p_atom, p_const, p_mul, p_inv, p_add
from ..orient import count_reversals

EXPLANATION = (
    "Structural necessary conditions of the evolution identities, decided on the source of evolution.py: (D1) the "
    "imaginary-part guard on the coefficient is two-sided, raises, and dominates every gate construction; (D2) "
    "Trotter structure: steps outer / terms inner in listed order with per-step time time/n_steps (normal form of the "
    "argument), right-concatenation; per-term circuit is basis + (cnots + RZ(2*t*c) + cnots.inverse()) + "
    "basis.inverse() with H for X and RX(pi/2) for Y, CNOT ladder over ascending qubits, constant term -> empty "
    "circuit before the guard; (D3) unsupported method refused first in both entry points; (D4) derivative "
    "circuits: per-step time of the repeated step and of the un-shifted terms is time/n_steps, the shifted term gets "
    "(time+shift)/n_steps, shift = factor*pi/(4r) and output factor r*factor with r = c.real/n_steps (normal forms), "
    "both signs enumerated, the spliced sequence places the shifted step at exactly one position."
    ' Round 5: (D5) no cache keyed by Pauli terms; is_constant looks at the factors only.'
    ' Round 6: the Hamiltonian parameter is never re-bound before its terms are listed (D2); the two positions compared to place the shift enumerate the same listing (D4).'
)
RULE_TEXT = "instances = guards, loops, call arguments (as polynomial normal forms) and composition expressions in the four functions of evolution.py; distinct by (rule, construct)"
ASSUMPTIONS = [
    "declined: the matrix identity exp(-i t c P) itself and the parameter-shift derivative identity (numeric/analytic); only the formula shapes they rest on are decided",
]

MOD = "evolution"
R1 = "C16-D1 two-sided-imag-guard"
R2 = "C16-D2 trotter-structure"
R3 = "C16-D3 method-guard"
R4 = "C16-D4 derivative-structure"

GATE_NAMES = {"H", "RX", "RY", "RZ", "CNOT", "X", "Y", "Z", "CZ", "SWAP", "PHASE"}


def sidedness(test: ast.AST, quantity_pred) -> Optional[str]:
    """'two' / 'one' / None(unknown) for a guard on a signed quantity."""
    for n in walk_local(test):
        if isinstance(n, ast.Call):
            name = (dotted(n.func) or "").split(".")[-1]
            if name in ("abs", "fabs", "absolute", "isclose", "allclose") and any(quantity_pred(a) for a in n.args):
                return "two"
    cmps = [n for n in walk_local(test) if isinstance(n, ast.Compare) and len(n.ops) == 1 and (quantity_pred(n.left) or quantity_pred(n.comparators[0]))]
    if not cmps:
        return None
    signs = set()
    for c in cmps:
        q_left = quantity_pred(c.left)
        other = c.comparators[0] if q_left else c.left
        op = c.ops[0]
        if isinstance(op, (ast.NotEq, ast.Eq)):
            return "two"
        try:
            v = const_value(other)
        except ValueError:
            return None
        gt = isinstance(op, (ast.Gt, ast.GtE))
        lt = isinstance(op, (ast.Lt, ast.LtE))
        if not (gt or lt):
            return None
        # normalise to "quantity > v" (+) or "quantity < v" (-)
        direction = "+" if (gt and q_left) or (lt and not q_left) else "-"
        if direction == "+" and v >= 0:
            signs.add("+")
        elif direction == "-" and v <= 0:
            signs.add("-")
        else:
            return None
    if signs == {"+", "-"}:
        # both must be in one disjunction
        return "two" if isinstance(test, ast.BoolOp) and isinstance(test.op, ast.Or) else None
    return "one"


def _is_imag(e: ast.AST) -> bool:
    return isinstance(e, ast.Attribute) and e.attr == "imag"


def check_guard(ctx):
    fi = ctx.repo.func(f"{MOD}:time_evolution_for_term")
    ctx.analysed(fi)
    cfg = cfg_of(fi.node)
    guards = [n for n in cfg.nodes if n.kind == "test" and isinstance(n.ast, ast.If) and any(_is_imag(x) or (isinstance(x, ast.Call) and (dotted(x.func) or "").split(".")[-1] in ("imag", "iscomplex", "isreal", "im")) for x in walk_local(n.ast.test))]
    if not guards:
        ctx.violation(R1, fi.key, "no guard on the imaginary part of the coefficient: a complex coefficient is silently truncated to its real part", fi)
        return
    g = guards[0]
    where = f"{fi.module.relpath}:{g.lineno}"
    side = sidedness(g.ast.test, _is_imag)
    if side is None:
        ctx.undecided(R1, fi.key + ":sidedness", f"guard {short(g.ast.test)} has an unrecognised shape (accepted: abs()/isclose(), != 0, or mirrored > tol / < -tol)", where)
    else:
        ctx.check(side == "two", R1, fi.key + ":sidedness", f"guard {short(g.ast.test)} rejects both signs", f"guard {short(g.ast.test)} is one-sided: a coefficient whose imaginary part has the other sign (e.g. 1-1j) passes and is silently truncated", where)
    raises = [x for x, lab in g.succ if lab == "true"]
    ok_raise = bool(raises) and all(isinstance(x.ast, ast.Raise) for x in raises)
    ctx.check(ok_raise, R1, fi.key + ":raises", "the guard raises", "the imaginary-part guard does not raise", where)
    gate_nodes = []
    for n in cfg.nodes:
        if n.ast is None or n.kind in ("dispatch",):
            continue
        for part in own_parts(n):
            for c in walk_local(part):
                if isinstance(c, ast.Call) and isinstance(c.func, ast.Name) and c.func.id in GATE_NAMES:
                    gate_nodes.append(n)
    gate_nodes = list(dict.fromkeys(gate_nodes))
    if not gate_nodes:
        ctx.undecided(R1, fi.key + ":dominates", "no gate construction found in time_evolution_for_term", fi)
    bad = [n for n in gate_nodes if not cfg.dominates(g, n)]
    ctx.check(not bad, R1, fi.key + ":dominates", f"guard dominates all {len(gate_nodes)} gate constructions", f"gate construction at line {bad[0].lineno if bad else 0} can be reached without passing the imaginary-part guard", where)


def _resolver(d: Defs):
    def resolve(name_node: ast.Name):
        if name_node.id in d.params:
            return None
        s = d.single_def(name_node.id)
        return s if isinstance(s, ast.AST) else None

    return resolve


def check_trotter(ctx):
    repo = ctx.repo
    fi = repo.func(f"{MOD}:time_evolution")
    ctx.analysed(fi)
    d = Defs(fi.node)
    calls = [c for c in body_walk(fi.node) if isinstance(c, ast.Call) and dotted(c.func) == "time_evolution_for_term"]
    if len(calls) != 1:
        ctx.undecided(R2, fi.key, f"expected one call to time_evolution_for_term, found {len(calls)}", fi)
        return
    call = calls[0]
    where = f"{fi.module.relpath}:{call.lineno}"
    loops = [l for l in body_walk(fi.node) if isinstance(l, ast.For) and any(x is call for x in ast.walk(l))]
    loops.sort(key=lambda l: l.lineno)
    ok_nest = len(loops) == 2 and norm(loops[0].iter) == "range(n_steps)" and norm(loops[1].iter) == "hamiltonian.terms" and count_reversals(loops[1].iter) == 0
    if len(loops) != 2:
        # not a nest of two `for` statements around the call (a comprehension, a helper, itertools.product ...): construct lost
        ctx.undecided(R2, fi.key + ":loops", f"expected two nested for-loops around time_evolution_for_term, found {[short(l.iter) for l in loops]}", where)
    else:
      ctx.check(ok_nest, R2, fi.key + ":loops", "for step in range(n_steps): for term in hamiltonian.terms", f"loop nest is {[short(l.iter) for l in loops]}: not steps (outer) over the Hamiltonian's terms in listed order (inner)", where)
    # the Hamiltonian whose terms are listed is the caller's, as given: a re-bound parameter (simplified, sorted, filtered ...)
    # has other terms, or the same terms in another order, than the operator the property speaks about
    p0 = positional_params(fi.node)[0]
    rebinds = [s for s in d.assign_stmts.get(p0, [])]
    ctx.check(not rebinds, R2, fi.key + ":operator-as-given", "the Hamiltonian parameter is never re-bound before its terms are listed", f"`{p0}` is re-bound ({short(rebinds[0]) if rebinds else ''}) before the Trotter loop lists its terms: the circuit is then the ordered product of the terms of a *different* listing (like terms merged, re-ordered or dropped), so it is no longer the per-term circuits of the given operator in listed order, and time_evolution_derivatives -- which walks the operator as given -- differentiates another circuit", f"{fi.module.relpath}:{rebinds[0].lineno}" if rebinds else where)
    targ = arg_or_kw(call, 1, "time")
    want = p_mul(p_atom("time"), p_inv(p_atom("n_steps")))
    got = poly(targ, _resolver(d)) if targ is not None else None
    ctx.check(poly_eq(got, want), R2, fi.key + ":step-time", "each term evolves for time/n_steps", f"per-step time is {short(targ)} = {show(got)}, not time/n_steps", where)
    t0 = arg_or_kw(call, 0, "term")
    if len(loops) != 2:
        ctx.undecided(R2, fi.key + ":term-arg", "no loop over the terms to compare the argument with", where)
    else:
      ctx.check(len(loops) == 2 and isinstance(t0, ast.Name) and norm(loops[1].target) == t0.id, R2, fi.key + ":term-arg", "the loop's term is evolved", f"time_evolution_for_term receives {short(t0)} rather than the current term", where)
    # accumulation on the right
    from ..common import stmt_of

    st = stmt_of(fi.node, call)
    acc_ok = False
    acc = None
    if isinstance(st, ast.AugAssign) and isinstance(st.op, ast.Add) and isinstance(st.target, ast.Name) and st.value is call:
        acc_ok, acc = True, st.target.id
    elif isinstance(st, ast.Assign) and isinstance(st.value, ast.BinOp) and isinstance(st.value.op, ast.Add) and st.value.right is call and norm(st.value.left) == norm(st.targets[0]):
        acc_ok, acc = True, norm(st.targets[0])
    rets = returned_exprs(fi.node)
    ctx.check(acc_ok and len(rets) == 1 and norm(rets[0]) == acc, R2, fi.key + ":accumulate", "circuit = circuit + step, returned", f"per-term circuits are not appended on the right of the returned accumulator ({short(st)})", where)

    # ---- per-term circuit
    ft = repo.func(f"{MOD}:time_evolution_for_term")
    ctx.analysed(ft)
    dt = Defs(ft.node)
    cfg = cfg_of(ft.node)
    # constant term returns an empty circuit
    const_tests = [n for n in cfg.nodes if n.kind == "test" and isinstance(n.ast, ast.If) and "is_constant" in norm(n.ast.test)]
    ok_const = False
    if const_tests:
        ct = const_tests[0]
        rs = [x for x, lab in ct.succ if lab == "true"]
        if rs and isinstance(rs[0].ast, ast.Return) and isinstance(rs[0].ast.value, ast.Name):
            nm = rs[0].ast.value.id
            inits = [v for v in dt.defs.get(nm, []) if isinstance(v, ast.Call) and dotted(v.func) == "Circuit" and not v.args and not v.keywords]
            grown_before = [s for s in dt.assign_stmts.get(nm, []) if getattr(s, "lineno", 0) < rs[0].lineno and not (isinstance(getattr(s, "value", None), ast.Call) and dotted(s.value.func) == "Circuit")]
            ok_const = bool(inits) and not grown_before
        elif rs and isinstance(rs[0].ast, ast.Return) and isinstance(rs[0].ast.value, ast.Call) and dotted(rs[0].ast.value.func) == "Circuit" and not rs[0].ast.value.args:
            ok_const = True
    ctx.check(ok_const, R2, ft.key + ":constant-term", "a constant term yields the empty circuit", "a constant term does not return an empty circuit", ft)
    # composition
    rets = returned_exprs(ft.node)
    final = None
    for r in rets:
        e = r
        if isinstance(e, ast.Name):
            cands = [v for v in dt.defs.get(e.id, []) if isinstance(v, ast.BinOp)]
            if cands:
                final = cands[-1]
        elif isinstance(e, ast.BinOp):
            final = e  # the composition is returned directly
    conj = _conjugation(final) if final is not None else None
    if conj is None:
        ctx.violation(R2, ft.key + ":outer-conjugation", f"the term circuit {short(final)} is not basis + core + basis.inverse() with the same basis-change circuit on both sides", ft)
    else:
        A, M = conj
        ctx.ok(R2, ft.key + ":outer-conjugation", f"{A} + (...) + {A}.inverse()", ft)
        inner = M
        if isinstance(inner, ast.Name):
            s = dt.single_def(inner.id)
            inner = s if isinstance(s, ast.AST) else inner
        conj2 = _conjugation(inner)
        if conj2 is None:
            ctx.violation(R2, ft.key + ":ladder-conjugation", f"the Z-rotation core {short(inner)} is not ladder + central + ladder.inverse(): for terms on 3+ qubits the CNOT ladder must be undone in reverse order", ft)
        else:
            ctx.ok(R2, ft.key + ":ladder-conjugation", f"{conj2[0]} + central + {conj2[0]}.inverse()", ft)
            ctx.check(A != conj2[0], R2, ft.key + ":distinct-parts", "basis change and ladder are different circuits", "basis change and CNOT ladder are the same circuit object", ft)
    # basis change per Pauli, central rotation angle, ladder
    loop = [l for l in body_walk(ft.node) if isinstance(l, ast.For) and "qubit_indices" in norm(l.iter)]
    if len(loop) != 1:
        ctx.undecided(R2, ft.key + ":qubit-loop", "expected one loop over the term's qubits", ft)
        return
    loop = loop[0]
    qi = dt.defs.get("qubit_indices", [])
    ok_sorted = any(isinstance(v, ast.Call) and dotted(v.func) == "sorted" and norm(v.args[0]) == "term.qubits" and not v.keywords for v in qi)
    ctx.check(ok_sorted, R2, ft.key + ":ascending-qubits", "qubits visited in ascending order", "the term's qubits are not visited in ascending order (sorted(term.qubits))", ft)
    basis = {}
    for n in ast.walk(loop):
        if isinstance(n, ast.If) and isinstance(n.test, ast.Compare) and len(n.test.comparators) == 1:
            lit = n.test.comparators[0]
            if isinstance(lit, ast.Constant) and lit.value in ("X", "Y", "Z") and isinstance(n.test.ops[0], ast.Eq):
                gates = [c for s in n.body for c in ast.walk(s) if isinstance(c, ast.Call) and isinstance(c.func, (ast.Name, ast.Call))]
                basis[lit.value] = (n, gates)
    qvar = loop.target.elts[1].id if isinstance(loop.target, ast.Tuple) and len(loop.target.elts) == 2 and isinstance(loop.target.elts[1], ast.Name) else (loop.target.id if isinstance(loop.target, ast.Name) else None)
    okx = "X" in basis and any(isinstance(c.func, ast.Name) and c.func.id == "H" and len(c.args) == 1 and norm(c.args[0]) == qvar for c in basis["X"][1])
    ctx.check(okx, R2, ft.key + ":basis-X", "X -> H on that qubit", "an X factor is not diagonalised by H on its own qubit", ft)
    oky = False
    if "Y" in basis:
        for c in basis["Y"][1]:
            if isinstance(c.func, ast.Call) and isinstance(c.func.func, ast.Name) and c.func.func.id == "RX" and len(c.func.args) == 1 and len(c.args) == 1 and norm(c.args[0]) == qvar:
                want = p_mul(p_atom("pi"), p_const(1) if False else {(): __import__("fractions").Fraction(1, 2)})
                oky = poly_eq(poly(c.func.args[0]), want)
    ctx.check(oky, R2, ft.key + ":basis-Y", "Y -> RX(pi/2) on that qubit", "a Y factor is not diagonalised by RX(pi/2) on its own qubit", ft)
    rz = [c for c in ast.walk(loop) if isinstance(c, ast.Call) and isinstance(c.func, ast.Call) and isinstance(c.func.func, ast.Name) and c.func.func.id == "RZ"]
    if not rz:
        # the other spelling of the same circuit: the ladder as consecutive pairs of the ascending qubits, the rotation on the last one
        #   cnots = Circuit([CNOT(c, t) for c, t in zip(qubit_indices, qubit_indices[1:])]);  RZ(2*time*coefficient.real)(qubit_indices[-1])
        rz_all = [c for c in body_walk(ft.node) if isinstance(c, ast.Call) and isinstance(c.func, ast.Call) and isinstance(c.func.func, ast.Name) and c.func.func.id == "RZ"]
        cn_all = [c for c in body_walk(ft.node) if isinstance(c, ast.Call) and isinstance(c.func, ast.Name) and c.func.id == "CNOT"]
        pair_comps = [n for n in body_walk(ft.node) if isinstance(n, (ast.ListComp, ast.GeneratorExp)) and len(n.generators) == 1 and not n.generators[0].ifs and norm(n.generators[0].iter) == "zip(qubit_indices, qubit_indices[1:])" and isinstance(n.generators[0].target, ast.Tuple) and len(n.generators[0].target.elts) == 2]
        if len(rz_all) == 1 and not cn_all:
            # the ladder is built by a helper of this module from the sequence it is given: Circuit([CNOT(c, t) for c, t in zip(p, p[1:])]).
            # The rotation sits on the last of the *ascending* qubits, so the helper must be handed exactly that ascending sequence
            for c in [x for x in body_walk(ft.node) if isinstance(x, ast.Call) and isinstance(x.func, ast.Name) and x.func.id in ft.module.functions and len(x.args) == 1]:
                h = ft.module.functions[c.func.id]
                hp = positional_params(h.node)
                hc = [n for n in body_walk(h.node) if isinstance(n, (ast.ListComp, ast.GeneratorExp)) and len(n.generators) == 1 and len(hp) == 1 and norm(n.generators[0].iter) == f"zip({hp[0]}, {hp[0]}[1:])" and isinstance(n.elt, ast.Call) and dotted(n.elt.func) == "CNOT"]
                if hc:
                    ctx.analysed(h)
                    arg = norm(c.args[0])
                    ctx.check(arg in ("qubit_indices", "tuple(qubit_indices)", "list(qubit_indices)"), R2, ft.key + ":ladder", "the ladder helper receives the ascending qubits", f"the CNOT ladder is built by {h.qualname}({short(c.args[0])}) while the rotation sits on qubit_indices[-1], the last of the *sorted* qubits: for a term whose qubits are not listed in ascending order the ladder accumulates the parity on another qubit than the one that is rotated", f"{ft.module.relpath}:{c.lineno}")
                    want = p_mul(p_const(2), p_mul(p_atom("time"), p_atom("term.coefficient.real")))
                    okrz = poly_eq(poly(rz_all[0].func.args[0]), want) and len(rz_all[0].args) == 1 and norm(rz_all[0].args[0]) == "qubit_indices[-1]"
                    ctx.check(okrz, R2, ft.key + ":central-rotation", "RZ(2*time*coefficient.real) on the last qubit", f"the central rotation is {short(rz_all[0])}, not RZ(2*time*term.coefficient.real) on the last of the ascending qubits", ft)
                    return
        if len(rz_all) == 1 and len(cn_all) == 1 and len(pair_comps) == 1 and pair_comps[0].elt is cn_all[0]:
            want = p_mul(p_const(2), p_mul(p_atom("time"), p_atom("term.coefficient.real")))
            okrz = poly_eq(poly(rz_all[0].func.args[0]), want) and len(rz_all[0].args) == 1 and norm(rz_all[0].args[0]) == "qubit_indices[-1]"
            ctx.check(okrz, R2, ft.key + ":central-rotation", "RZ(2*time*coefficient.real) on the last qubit", f"the central rotation is {short(rz_all[0])}, not RZ(2*time*term.coefficient.real) on the last of the ascending qubits", ft)
            a, b = (norm(x) for x in pair_comps[0].generators[0].target.elts)
            okcn = len(cn_all[0].args) == 2 and [norm(x) for x in cn_all[0].args] == [a, b]
            ctx.check(okcn, R2, ft.key + ":ladder", "CNOT(q_i, q_{i+1}) ladder", f"CNOT ladder is {short(cn_all[0])} over consecutive pairs ({a}, {b}): not CNOT(current qubit, next qubit)", ft)
            ctx.ok(R2, ft.key + ":last-qubit", "rotation on qubit_indices[-1], CNOTs over every consecutive pair before it", ft)
        else:
            ctx.undecided(R2, ft.key + ":central-rotation", "cannot find the central RZ and the CNOT ladder (neither inside the loop over the qubits nor as a pairwise comprehension)", ft)
        return
    okrz = False
    if len(rz) == 1:
        want = p_mul(p_const(2), p_mul(p_atom("time"), p_atom("term.coefficient.real")))
        okrz = poly_eq(poly(rz[0].func.args[0]), want) and len(rz[0].args) == 1 and norm(rz[0].args[0]) == qvar
    ctx.check(okrz, R2, ft.key + ":central-rotation", "RZ(2*time*coefficient.real) on the last qubit", f"the central rotation is {short(rz[0]) if rz else None}, not RZ(2*time*term.coefficient.real) on the current qubit", ft)
    cn = [c for c in ast.walk(loop) if isinstance(c, ast.Call) and isinstance(c.func, ast.Name) and c.func.id == "CNOT"]
    okcn = len(cn) == 1 and len(cn[0].args) == 2 and norm(cn[0].args[0]) == qvar and norm(cn[0].args[1]).replace(" ", "") in ("qubit_indices[i+1]",)
    ctx.check(okcn, R2, ft.key + ":ladder", "CNOT(q_i, q_{i+1}) ladder", f"CNOT ladder is {short(cn[0]) if cn else None}, not CNOT(current qubit, next qubit)", ft)
    # the last-qubit test
    last = [n for n in ast.walk(loop) if isinstance(n, ast.If) and isinstance(n.test, ast.Compare) and norm(n.test.left) == "i"]
    ok_last = False
    if last:
        rhs = last[0].test.comparators[0]
        want1 = p_add(p_atom("L"), p_const(-1))

        def res(nm):
            return None

        txt = norm(rhs).replace("len(term.operations)", "L").replace("len(qubit_indices)", "L").replace("len(term)", "L").replace("len(term.qubits)", "L")
        try:
            ok_last = poly_eq(poly(ast.parse(txt, mode="eval").body), want1) and isinstance(last[0].test.ops[0], ast.Eq)
        except SyntaxError:
            ok_last = False
        in_then = any(c in list(ast.walk(s)) for s in last[0].body for c in rz)
        in_else = any(c in list(ast.walk(s)) for s in last[0].orelse for c in cn)
        ok_last = ok_last and in_then and in_else
    ctx.check(ok_last, R2, ft.key + ":last-qubit", "rotation on the last qubit, CNOTs before it", "the rotation is not placed on exactly the last of the term's qubits with CNOTs on all earlier ones", ft)


def _conjugation(e: Optional[ast.AST]) -> Optional[Tuple[str, ast.AST]]:
    """A + M + A.inverse() -> (A, M)."""
    if not (isinstance(e, ast.BinOp) and isinstance(e.op, ast.Add)):
        return None
    parts: List[ast.AST] = []

    def flat(x):
        if isinstance(x, ast.BinOp) and isinstance(x.op, ast.Add):
            flat(x.left)
            flat(x.right)
        else:
            parts.append(x)

    flat(e)
    if len(parts) != 3:
        return None
    a, m, b = parts
    if not isinstance(a, ast.Name):
        return None
    if isinstance(b, ast.Call) and isinstance(b.func, ast.Attribute) and b.func.attr == "inverse" and not b.args and norm(b.func.value) == a.id:
        return a.id, m
    return None


def check_method_guard(ctx):
    for name in ("time_evolution", "time_evolution_derivatives"):
        fi = ctx.repo.func(f"{MOD}:{name}")
        ctx.analysed(fi)
        cfg = cfg_of(fi.node)
        gs = [n for n in cfg.nodes if n.kind == "test" and isinstance(n.ast, ast.If) and "method" in norm(n.ast.test) and "Trotter" in norm(n.ast.test)]
        ok = False
        if gs:
            g = gs[0]
            t = g.ast.test
            label = "true" if isinstance(t, ast.Compare) and isinstance(t.ops[0], ast.NotEq) else ("false" if isinstance(t, ast.Compare) and isinstance(t.ops[0], ast.Eq) else None)
            if label:
                tg = [x for x, lab in g.succ if lab == label]
                raises = bool(tg) and all(isinstance(x.ast, ast.Raise) for x in tg)
                first = all(cfg.dominates(g, n) for n in cfg.nodes if n.kind in ("stmt", "for", "test") and n is not g and cfg.is_reachable_from_entry(n))
                ok = raises and first
        ctx.check(ok, R3, fi.key, "an unsupported method is refused before anything else", "an unsupported method is not refused up front", fi)


def check_derivatives(ctx):
    repo = ctx.repo
    fi = repo.func(f"{MOD}:time_evolution_derivatives")
    ctx.analysed(fi)
    d = Defs(fi.node)
    res = _resolver(d)
    frac = __import__("fractions").Fraction
    t_over_n = p_mul(p_atom("time"), p_inv(p_atom("n_steps")))
    # repeated step
    rep = [c for c in body_walk(fi.node) if isinstance(c, ast.Call) and dotted(c.func) == "time_evolution"]
    if len(rep) != 1:
        ctx.undecided(R4, fi.key + ":repeated-step", f"expected one call to time_evolution for the repeated step, found {len(rep)}", fi)
    else:
        c = rep[0]
        where = f"{fi.module.relpath}:{c.lineno}"
        targ = arg_or_kw(c, 1, "time")
        ns = arg_or_kw(c, 3, "n_steps")
        got = poly(targ) if targ is not None else None
        single = ns is None or is_const(ns, 1)
        eff = got if single else None
        ctx.check(poly_eq(eff, t_over_n), R4, fi.key + ":repeated-step", "the repeated step evolves for time/n_steps", f"the un-shifted step spliced between the shifted ones is time_evolution({short(targ)}, n_steps={short(ns) if ns is not None else 1}): it must be exactly one Trotter step of duration time/n_steps, otherwise for n_steps > 1 the weighted sum is not the derivative", where)
        h = arg_or_kw(c, 0, "hamiltonian")
        ctx.check(norm(h) == "hamiltonian", R4, fi.key + ":repeated-hamiltonian", "same Hamiltonian", f"the repeated step uses {short(h)}", where)
    # shifted / unshifted per-term time
    calls = [c for c in body_walk(fi.node) if isinstance(c, ast.Call) and dotted(c.func) == "time_evolution_for_term"]
    if len(calls) != 1:
        ctx.undecided(R4, fi.key + ":term-time", "expected one call to time_evolution_for_term", fi)
        return
    c = calls[0]
    where = f"{fi.module.relpath}:{c.lineno}"
    targ = arg_or_kw(c, 1, "time")
    ok = False
    detail = f"time argument {short(targ)} is not `(time+shift)/n_steps if i == j else time/n_steps`"
    if isinstance(targ, ast.IfExp) and isinstance(targ.test, ast.Compare) and isinstance(targ.test.ops[0], (ast.Eq, ast.NotEq)):
        same, other = (targ.body, targ.orelse) if isinstance(targ.test.ops[0], ast.Eq) else (targ.orelse, targ.body)
        shifted = p_mul(p_add(p_atom("time"), p_atom("shift")), p_inv(p_atom("n_steps")))
        ok = poly_eq(poly(same), shifted) and poly_eq(poly(other), t_over_n)
        idx = {norm(targ.test.left), norm(targ.test.comparators[0])}
        ok = ok and idx == {"i", "j"}
    if not isinstance(targ, ast.IfExp):
        ctx.undecided(R4, fi.key + ":term-time", f"the time argument {short(targ)} is not a conditional expression choosing between the shifted and the plain step", where)
    else:
        ctx.check(ok, R4, fi.key + ":term-time", "(time+shift)/n_steps for the differentiated term, time/n_steps for the others", detail, where)
    t0 = arg_or_kw(c, 0, "term")
    inner = [l for l in body_walk(fi.node) if isinstance(l, ast.For) and any(x is c for x in ast.walk(l))]
    inner.sort(key=lambda l: -l.lineno)
    ok_t = bool(inner) and isinstance(inner[0].target, ast.Tuple) and len(inner[0].target.elts) == 2 and norm(inner[0].target.elts[1]) == norm(t0) and norm(inner[0].target.elts[0]) == "j" and norm(inner[0].iter) == "enumerate(terms)"
    # the two indices compared in `i == j` count positions in the same listing
    encl = [l for l in body_walk(fi.node) if isinstance(l, ast.For) and any(x is c for x in ast.walk(l)) and isinstance(l.target, ast.Tuple) and len(l.target.elts) == 2]
    if isinstance(targ, ast.IfExp) and isinstance(targ.test, ast.Compare):
        idxn = {norm(targ.test.left), norm(targ.test.comparators[0])}
        srcs = {}
        for l in encl:
            nm = norm(l.target.elts[0])
            if nm in idxn and isinstance(l.iter, ast.Call) and dotted(l.iter.func) == "enumerate" and l.iter.args:
                a0 = l.iter.args[0]
                if isinstance(a0, ast.Name) and isinstance(d.single_def(a0.id), ast.AST):
                    a0 = d.single_def(a0.id)
                srcs[nm] = norm(a0)
        if len(srcs) == 2:
            ctx.check(len(set(srcs.values())) == 1, R4, fi.key + ":same-listing", "both compared positions enumerate the same listing of terms", f"the positions compared in `{short(targ.test)}` enumerate different listings ({', '.join(f'{k} over {v}' for k, v in sorted(srcs.items()))}): position i of one is not position i of the other, so the shift lands on the wrong term's step and its factor is paired with another term's circuit", where)
        else:
            ctx.undecided(R4, fi.key + ":same-listing", f"cannot find the two enumerations providing {sorted(idxn)}", where)
    if not inner or not isinstance(inner[0].target, ast.Tuple):
        ctx.undecided(R4, fi.key + ":all-terms-in-order", "cannot find the inner `for j, term in enumerate(...)` loop around the per-term call", where)
    else:
      ctx.check(ok_t, R4, fi.key + ":all-terms-in-order", "every term of the Hamiltonian, in order, in each derivative circuit", "a derivative circuit does not contain every term of the Hamiltonian in listed order", where)
    # r, shift, output factor
    want_r = p_mul(p_atom("term_1.coefficient.real"), p_inv(p_atom("n_steps")))
    got_r = poly(ast.Name(id="r", ctx=ast.Load()), res)
    ctx.check(poly_eq(got_r, want_r), R4, fi.key + ":r", "r = coefficient.real / n_steps", f"r = {show(got_r)}, not coefficient.real/n_steps", fi)
    sdef = d.single_def("shift")
    got_s = poly(sdef) if isinstance(sdef, ast.AST) else None
    want_s = p_mul(p_mul(p_atom("factor"), p_atom("pi")), p_inv(p_mul(p_const(4), p_atom("r"))))
    ctx.check(poly_eq(got_s, want_s), R4, fi.key + ":shift", "shift = factor*pi/(4 r)", f"shift is {short(sdef)} = {show(got_s)}, not factor*pi/(4*r) with the signed r: for negative coefficients the shifted circuits and their factors no longer match", fi)
    apps = [n for n in body_walk(fi.node) if isinstance(n, ast.Call) and isinstance(n.func, ast.Attribute) and n.func.attr == "append" and norm(n.func.value) == "output_factors"]
    ok_f = len(apps) == 1 and poly_eq(poly(apps[0].args[0]), p_mul(p_atom("r"), p_atom("factor")))
    ctx.check(ok_f, R4, fi.key + ":factor", "output factor = r*factor", "the returned factor is not r*factor", fi)
    fdef = d.single_def("factors")
    ok_signs = isinstance(fdef, (ast.List, ast.Tuple)) and sorted(_num(e) for e in fdef.elts) == [-1.0, 1.0]
    ctx.check(ok_signs, R4, fi.key + ":signs", "both shift signs +1, -1", f"shift signs are {short(fdef)}, not (+1, -1)", fi)
    # one circuit appended per (term, sign); n_steps>1 branch uses the spliced sequences
    gen = repo.func(f"{MOD}:_generate_circuit_sequence")
    ctx.analysed(gen)
    gcalls = [x for x in body_walk(fi.node) if isinstance(x, ast.Call) and dotted(x.func) == "_generate_circuit_sequence"]
    okg = len(gcalls) == 1 and [norm(a) for a in gcalls[0].args] == ["repeated_circuit", "different_circuit", "n_steps", "position"]
    ctx.check(okg, R4, fi.key + ":splice-call", "_generate_circuit_sequence(repeated, shifted, n_steps, position)", f"spliced sequence is built by {short(gcalls[0]) if gcalls else None}", fi)
    pos_loops = [l for l in body_walk(fi.node) if isinstance(l, ast.For) and norm(l.target) == "position"]
    if not pos_loops:
        ctx.undecided(R4, fi.key + ":positions", "cannot find the loop over the positions of the shifted step", fi)
    else:
      ctx.check(len(pos_loops) == 1 and norm(pos_loops[0].iter) == "range(n_steps)", R4, fi.key + ":positions", "one spliced sequence per position 0..n_steps-1", "the shifted step is not placed at every position 0..n_steps-1", fi)
    # the generator: position guard and selection
    ok_sel = False
    for n in body_walk(gen.node):
        if isinstance(n, ast.IfExp) and isinstance(n.test, ast.Compare) and {norm(n.test.left), norm(n.test.comparators[0])} == {"i", "position"}:
            rep_e, dif_e = (n.body, n.orelse) if isinstance(n.test.ops[0], ast.NotEq) else (n.orelse, n.body)
            ok_sel = norm(rep_e) == "repeated_circuit" and norm(dif_e) == "different_circuit"
    rng = [g for n in body_walk(gen.node) if isinstance(n, (ast.ListComp, ast.GeneratorExp)) for g in n.generators if norm(g.iter) == "range(length)"]
    sel_seen = any(isinstance(n, ast.IfExp) and isinstance(n.test, ast.Compare) and "position" in norm(n.test) for n in body_walk(gen.node))
    if not sel_seen:
        ctx.undecided(R4, gen.key, "cannot find the conditional expression that selects the shifted step by position", gen)
    else:
      ctx.check(ok_sel and bool(rng), R4, gen.key, "different circuit exactly at `position`, repeated elsewhere, length copies in order", "the spliced sequence does not put the shifted step at exactly the requested position among `length` steps", gen)


def _num(e):
    try:
        return float(const_value(e))
    except ValueError:
        return None


def run(ctx):
    from . import c03 as _c03

    _c03.check_is_constant(ctx, "C16-D2 trotter-structure")
    from ..lints import check_caches

    check_caches(ctx, "C16-D5 caches", ['evolution'])
    check_guard(ctx)
    check_trotter(ctx)
    check_method_guard(ctx)
    check_derivatives(ctx)
    ctx.floor("C16-D1", 3)
    ctx.floor("C16-D2", 12)
    ctx.floor("C16-D3", 2)
    ctx.floor("C16-D4", 10)
