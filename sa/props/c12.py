"""C12 — a wavefunction object is normalised after every operation on it."""
from __future__ import annotations

import ast

from ..astutil import body_walk, dotted, is_const, norm, positional_params, short, walk_local
from ..cfg import cfg_of, own_parts
from ..common import returned_exprs
from ..flow import Defs
from ..records import check_pair, loader_accepts_path_and_file
from .c20 import effects_for

EXPLANATION = (
    "(D1) constructor: the power-of-two test raises before anything is stored and a _check_normalization call on the "
    "stored vector dominates the normal exit; (D2) __setitem__ typestate: the old *element* is read from "
    "self._amplitude_vector[idx] before the write, the write is followed by the check, and the handler of the check's "
    "ValueError stores the saved element back to the same subscript and leaves only by raising; (D3) who-writes: "
    "inside the class only __init__ and __setitem__ store to _amplitude_vector (or its elements), no other module "
    "writes that attribute, bind has no effect on the receiver and returns the receiver itself (nothing to bind) or "
    "goes through the constructor, converting its ValueError; functions building wavefunctions from arrays go through "
    "the constructor; (D4) _check_normalization: numeric branch sums |a|^2 and raises unless isclose(.., 1), "
    "symbolic branch sums the numeric entries (probe accepts complex numbers) and raises when the sum exceeds 1; "
    "probabilities are |amplitudes|^2; (D5) save/load key agreement and loader interface. "
    "(D2o) __setitem__ never replaces the amplitude container between the write and the rollback; (D2s) the saved old value is a copy (a slice of a numpy vector is a view); (D4c) the numeric-entry classifier is complete for symbol-free expressions (no is_Number-style atomic predicates); (D5o) no one-sided test on an imaginary part on the save path; (D6) the flip ordering is arange(2**n) viewed as n axes of extent 2 with every axis reversed and flattened again (exactly the bit-reversal permutation, an involution), and flip_amplitudes indexes the amplitudes by the ordering of their own length; (D7) the Dicke constructor drives the next-same-weight step from the smallest integer of the weight, keeps a value exactly while it fits in n bits, and stores 1/sqrt(number kept) at the kept indices of zeros(2**n)."
    ' Round 5: no cached_property on the mutable wavefunction; loaded arrays reach the constructor as stored (C11).'
    ' Round 7: no function of wavefunction.py keeps module-level state, no query method stores on the receiver (D3).'
)
RULE_TEXT = "instances = CFG nodes of the constructor/__setitem__/bind, stores to the amplitude field anywhere in the package, branches of the normalisation check, record keys; distinct by (rule, construct)"
ASSUMPTIONS = [
    "declined: the bit trick _get_next_number_with_same_hamming_weight itself (an arithmetic identity on integers: solver territory), probabilities summing to 1 numerically",
    "informational, not claimed: accessors hand out the internal array by reference and np.asarray may alias the caller's array; rollback of a *slice* assignment saves a numpy view",
]

WF = "wavefunction"
R1 = "C12-D1 constructor-checks"
R2 = "C12-D2 setitem-rollback"
R3 = "C12-D3 who-writes"
R4 = "C12-D4 normalisation-test"
R5 = "C12-D5 record"
FIELD = "_amplitude_vector"


def _is_field_store(n: ast.AST) -> bool:
    """store to X._amplitude_vector or X._amplitude_vector[...]"""
    tgts = []
    if isinstance(n, ast.Assign):
        tgts = n.targets
    elif isinstance(n, (ast.AugAssign, ast.AnnAssign)):
        tgts = [n.target]
    elif isinstance(n, ast.Delete):
        tgts = n.targets
    for t in tgts:
        base = t.value if isinstance(t, ast.Subscript) else t
        if isinstance(base, ast.Attribute) and base.attr == FIELD:
            return True
    if isinstance(n, ast.Call) and dotted(n.func) in ("setattr", "object.__setattr__") and len(n.args) >= 2 and isinstance(n.args[1], ast.Constant) and n.args[1].value == FIELD:
        return True
    return False


def check_constructor(ctx):
    fi = ctx.repo.func(f"{WF}:Wavefunction.__init__")
    ctx.analysed(fi)
    cfg = cfg_of(fi.node)
    stores = [n for n in cfg.nodes if n.kind == "stmt" and _is_field_store(n.ast)]
    checks = [n for n in cfg.nodes if n.ast is not None and any(isinstance(c, ast.Call) and norm(c.func).endswith("_check_normalization") for p in own_parts(n) for c in walk_local(p))]
    size_tests = [n for n in cfg.nodes if n.kind == "test" and isinstance(n.ast, ast.If) and ("count('1')" in norm(n.ast.test) or any(isinstance(x, ast.BinOp) and isinstance(x.op, ast.BitAnd) for x in ast.walk(n.ast.test)) or "log2" in norm(n.ast.test) or "bit_length" in norm(n.ast.test))]
    if not stores or not size_tests:
        ctx.undecided(R1, fi.key, f"constructor shape not recognised (stores={len(stores)}, checks={len(checks)}, size tests={len(size_tests)})", fi)
        return
    if not checks:
        ctx.violation(R1, fi.key + ":normalisation-check", "the constructor never calls _check_normalization: an un-normalised vector can become a Wavefunction", fi)
        return
    st = size_tests[0]
    raises = [x for x, lab in st.succ if lab == "true"]
    ok_size = bool(raises) and all(isinstance(x.ast, ast.Raise) for x in raises) and all(cfg.dominates(st, s) for s in stores)
    ctx.check(ok_size, R1, fi.key + ":power-of-two", "length test raises before any store", "a vector whose length is not a power of two can be stored (the size test does not raise before the store)", fi)
    ok_chk = any(cfg.dominates(c, cfg.exit) for c in checks) and all(any(cfg.reaches(s, c) for c in checks) for s in stores)
    ctx.check(ok_chk, R1, fi.key + ":normalisation-check", "_check_normalization dominates the normal exit", "the constructor can return normally without _check_normalization having run on the stored vector", fi)
    for c in checks:
        for p in own_parts(c):
            for call in walk_local(p):
                if isinstance(call, ast.Call) and norm(call.func).endswith("_check_normalization"):
                    ctx.check(len(call.args) == 1 and norm(call.args[0]) == f"self.{FIELD}", R1, fi.key + ":checked-object", "the stored vector is what gets checked", f"the check is applied to {short(call.args[0]) if call.args else None}, not to the stored vector", fi)


def check_setitem(ctx):
    fi = ctx.repo.func(f"{WF}:Wavefunction.__setitem__")
    ctx.analysed(fi)
    ps = positional_params(fi.node)
    idx, val = ps[1], ps[2]
    cfg = cfg_of(fi.node)
    d = Defs(fi.node)
    elem = f"self.{FIELD}[{idx}]"
    writes = [n for n in cfg.nodes if n.kind == "stmt" and isinstance(n.ast, ast.Assign) and norm(n.ast.targets[0]) == elem]
    def _unwrap_copy(v):
        """`copy(x)`, `copy.copy(x)`, `deepcopy(x)`, `np.copy(x)`, `np.array(x)`, `x.copy()` -> (x, True)"""
        if isinstance(v, ast.Call) and (dotted(v.func) or "").split(".")[-1] in ("copy", "deepcopy", "array") and len(v.args) == 1 and not isinstance(v.func, ast.Attribute) or (isinstance(v, ast.Call) and dotted(v.func) in ("copy.copy", "copy.deepcopy", "np.copy", "numpy.copy", "np.array", "numpy.array") and len(v.args) == 1):
            return v.args[0], True
        if isinstance(v, ast.Call) and isinstance(v.func, ast.Attribute) and v.func.attr == "copy" and not v.args:
            return v.func.value, True
        return v, False

    saves = [n for n in cfg.nodes if n.kind == "stmt" and isinstance(n.ast, ast.Assign) and isinstance(n.ast.targets[0], ast.Name) and norm(_unwrap_copy(n.ast.value)[0]) == elem]
    saves_copy = [n for n in cfg.nodes if n.kind == "stmt" and isinstance(n.ast, ast.Assign) and isinstance(n.ast.targets[0], ast.Name) and isinstance(n.ast.value, ast.Call) and (dotted(n.ast.value.func) or "").split(".")[-1] in ("copy", "deepcopy", "array") and f"self.{FIELD}" in norm(n.ast.value)]
    new_writes = [w for w in writes if norm(w.ast.value) == val]
    if not new_writes:
        ctx.undecided(R2, fi.key, "no element write `self._amplitude_vector[idx] = val` found", fi)
        return
    w = new_writes[0]
    where = f"{fi.module.relpath}:{w.lineno}"
    ok_save = any(cfg.dominates(s, w) for s in saves)
    saved = saves[0].ast.targets[0].id if saves else None
    if not ok_save and saves_copy and any(cfg.dominates(s, w) for s in saves_copy):
        ctx.undecided(R2, fi.key + ":save", "the whole vector is copied before the write (accepted in principle, restore shape must be checked by hand)", where)
    else:
        ctx.check(ok_save, R2, fi.key + ":save", "the old element is read before the write", "the old value is not saved as an element read `self._amplitude_vector[idx]` before the write (saving the vector object itself is an alias, not a snapshot)", where)
    if ok_save and saves:
        # `idx` may be a slice: for a numpy vector the element read is then a *view*, which the write changes as well, so the
        # "saved" value has to be a copy for the rollback to restore anything
        snap = any(_unwrap_copy(sv.ast.value)[1] for sv in saves if cfg.dominates(sv, w))
        ctx.check(snap, R2, fi.key + ":save-is-a-snapshot", "the saved element(s) are copied", "the old value is kept as `self._amplitude_vector[idx]` itself: for a slice index of a numpy vector that is a view of the very entries being overwritten, so a rejected slice assignment (wf[0:2] = [1, 1]) raises but leaves the new, un-normalised amplitudes in place", where)
    checks = [n for n in cfg.nodes if n.ast is not None and n.kind == "stmt" and any(isinstance(c, ast.Call) and norm(c.func).endswith("_check_normalization") for c in walk_local(n.ast))]
    ok_check = bool(checks) and all(cfg.dominates(w, c) for c in checks) and any(cfg.dominates(c, cfg.exit) for c in checks)
    ctx.check(ok_check, R2, fi.key + ":check-after-write", "the write is followed by the normalisation check on every normal path", "an element can be written and the method return normally without the normalisation check having run", where)
    # the vector object itself is not replaced inside __setitem__: the rollback writes the saved element back into
    # `self._amplitude_vector`, which only restores the state if that is still the object the element was read from
    rebinds = [n for n in body_walk(fi.node) if isinstance(n, (ast.Assign, ast.AugAssign, ast.AnnAssign)) and any(isinstance(t, ast.Attribute) and t.attr == FIELD and norm(t.value) == "self" for t in (n.targets if isinstance(n, ast.Assign) else [n.target]))]
    rebinds += [n for n in body_walk(fi.node) if isinstance(n, ast.Call) and dotted(n.func) in ("setattr", "object.__setattr__") and len(n.args) >= 2 and isinstance(n.args[1], ast.Constant) and n.args[1].value == FIELD]
    ctx.check(not rebinds, R2, fi.key + ":same-object", "the amplitude container is edited in place, never replaced, during an assignment", f"`{short(rebinds[0]) if rebinds else ''}` replaces the amplitude container between the write and the check: on rejection the saved element is written into a different object (or cannot be, e.g. a symbol into a complex array), so the object is not left as it was", f"{fi.module.relpath}:{rebinds[0].lineno}" if rebinds else fi)
    handlers = [n for n in cfg.nodes if n.kind == "handler" and ("ValueError" in norm(n.ast.type) if n.ast.type is not None else True)]
    if not handlers:
        ctx.violation(R2, fi.key + ":rollback", "the ValueError of the normalisation check is not handled: nothing restores the old value", where)
        return
    h = handlers[0]
    restores = [x for x in writes if saved is not None and norm(x.ast.value) == saved and cfg.dominates(h, x)]
    ctx.check(bool(restores), R2, fi.key + ":rollback", "the handler stores the saved element back to the same subscript", "on rejection the saved element is not written back to `self._amplitude_vector[idx]`: the rejected value stays in the object", f"{fi.module.relpath}:{h.lineno}")
    # handler leaves only by raising, after the restore
    body_nodes = [n for n in cfg.nodes if n is not h and cfg.dominates(h, n) and n.ast is not None]
    leaves_normally = cfg.reaches(h, cfg.exit)
    raises = [n for n in body_nodes if isinstance(n.ast, ast.Raise)]
    order_ok = all(any(cfg.dominates(r, rs) for r in restores) for rs in raises) if restores else False
    ctx.check((not leaves_normally) and bool(raises) and order_ok, R2, fi.key + ":reject-raises", "the rejecting path restores first and then raises", "the rejecting path can return normally (or raises before restoring): a rejected assignment is not reported or not undone", f"{fi.module.relpath}:{h.lineno}")


def check_who_writes(ctx):
    repo = ctx.repo
    cls = repo.cls(f"{WF}:Wavefunction")
    allowed = {"__init__", "__setitem__"}
    n = 0
    for fi in repo.all_functions():
        if fi.module.name.startswith("testing"):
            continue
        for node in ast.walk(fi.node):
            if isinstance(node, ast.stmt) or isinstance(node, ast.Call):
                if _is_field_store(node):
                    n += 1
                    ok = fi.cls is not None and fi.cls.key == cls.key and fi.name in allowed
                    ctx.check(ok, R3, f"{fi.key}:{short(node, 50)}", "amplitudes written only by the constructor / __setitem__", f"{fi.qualname} writes the amplitude vector directly ({short(node)}): the normalisation check is bypassed", f"{fi.module.relpath}:{node.lineno}")
    ctx.extra["amplitude_store_sites"] = n
    eff = effects_for(ctx)
    # in-place edits of the amplitude array through aliases (e.g. self.amplitudes[...] = ...) inside the class
    for m in cls.methods.values():
        if m.name in allowed:
            continue
        summ = eff.summary(m)
        sites = [s for (p, d), ss in summ.mutates.items() if p == "self" for s in ss if not s.memo]
        ctx.analysed(m)
        ctx.check(not sites, R3, f"{m.key}(self)", "does not modify the receiver", f"{m.qualname} modifies the wavefunction outside __setitem__ ({sites[0].text if sites else ''}): no normalisation check guards that edit", m)
    # bind
    b = cls.methods.get("bind")
    if b is None:
        ctx.undecided(R3, f"{cls.key}.bind", "bind missing", cls)
        return
    rets = returned_exprs(b.node)
    kinds = []
    for r in rets:
        if norm(r) == "self":
            kinds.append("self")
        elif isinstance(r, ast.Call) and norm(r.func) in ("type(self)", "Wavefunction", "self.__class__"):
            kinds.append("ctor")
        else:
            kinds.append("other:" + short(r, 40))
    ok = all(k in ("self", "ctor") for k in kinds) and "ctor" in kinds
    ctx.check(ok, R3, b.key + ":returns", "returns the receiver (nothing to bind) or a newly validated Wavefunction", f"bind returns {kinds}: a bound vector that did not pass through the constructor's check", b)
    cfg = cfg_of(b.node)
    self_rets = [n for n in cfg.nodes if isinstance(n.ast, ast.Return) and norm(n.ast.value) == "self"]
    tests = [n for n in cfg.nodes if n.kind == "test" and isinstance(n.ast, ast.If) and "free_symbols" in norm(n.ast.test)]
    ok_self = all(tests and cfg.edge_dominates(tests[0], "true" if norm(tests[0].ast.test).startswith("not ") else "false", r) for r in self_rets)
    ctx.check(ok_self, R3, b.key + ":self-only-without-symbols", "the receiver is returned only when it has no free symbols", "bind may return the receiver unchanged although it has free symbols", b)
    subs = [c for c in body_walk(b.node) if isinstance(c, ast.Call) and isinstance(c.func, ast.Attribute) and c.func.attr == "subs" and norm(c.func.value) == f"self.{FIELD}" and len(c.args) == 1 and norm(c.args[0]) == positional_params(b.node)[1]]
    ctx.check(len(subs) == 1, R3, b.key + ":substitutes", "substitutes the given map into the amplitudes", "bind does not substitute the given map into the stored amplitudes", b)
    handlers = [n for n in cfg.nodes if n.kind == "handler"]
    ok_h = bool(handlers) and all(not cfg.reaches(h, cfg.exit) for h in handlers)
    ctx.check(ok_h, R3, b.key + ":rejects", "a binding that breaks normalisation raises", "a binding that violates normalisation is swallowed instead of raised", b)
    # module-level builders go through the constructor
    for name in ("flip_wavefunction", "load_wavefunction"):
        f = repo.func(f"{WF}:{name}")
        ctx.analysed(f)
        rets = returned_exprs(f.node)
        d = Defs(f.node)
        ok = bool(rets) and all("call:Wavefunction" in d.atoms(r) or (isinstance(r, ast.Call) and dotted(r.func) == "Wavefunction") for r in rets)
        ctx.check(ok, R3, f.key, "result built by the Wavefunction constructor", f"{name} returns an object not built through the validating constructor", f)


def check_normalisation(ctx):
    repo = ctx.repo
    fi = repo.func(f"{WF}:Wavefunction._check_normalization")
    ctx.analysed(fi)
    cfg = cfg_of(fi.node)
    # (the same predicates used directly in the normalisation check -- with or without the helper -- are judged alike)
    for n in body_walk(fi.node):
        if isinstance(n, ast.Attribute) and n.attr in ("is_Number", "is_Float", "is_Integer", "is_Rational", "is_NumberSymbol", "is_Atom"):
            ctx.violation(R4, fi.key + ":complete", f"_check_normalization selects the numeric entries with `{short(n)}`: true for atomic numbers only, so symbol-free expressions (0.9*I, sqrt(3)/2) are left out and a vector whose fixed entries already exceed probability 1 is accepted", f"{fi.module.relpath}:{n.lineno}")
    p = positional_params(fi.node)[-1]
    branch = [n for n in cfg.nodes if n.kind == "test" and isinstance(n.ast, ast.If) and "isinstance" in norm(n.ast.test)]
    if not branch:
        ctx.undecided(R4, fi.key, "numeric/symbolic branch test not found", fi)
        return
    b = branch[0].ast
    # numeric branch
    num_tests = [n for n in ast.walk(ast.Module(body=b.body, type_ignores=[])) if isinstance(n, ast.If)]
    ok_num = False
    if num_tests:
        t = num_tests[0]
        tt = norm(t.test)
        close = isinstance(t.test, ast.UnaryOp) and isinstance(t.test.op, ast.Not) and isinstance(t.test.operand, ast.Call) and (dotted(t.test.operand.func) or "").split(".")[-1] == "isclose"
        target_one = close and any(is_const(a, 1.0) or is_const(a, 1) for a in t.test.operand.args)
        ok_num = close and target_one and any(isinstance(s, ast.Raise) for s in t.body)
    ctx.check(ok_num, R4, fi.key + ":numeric", "numeric vectors: raise unless isclose(sum |a|^2, 1)", "numeric vectors are not rejected exactly when their squared norm is not close to 1", fi)
    from ..common import squared_norm_idiom

    def tested_quantity(block, test_expr):
        """definition of the name compared in the branch's test"""
        names = {n.id for n in ast.walk(test_expr) if isinstance(n, ast.Name)}
        for s in block:
            for a in ast.walk(s):
                if isinstance(a, ast.Assign) and isinstance(a.targets[0], ast.Name) and a.targets[0].id in names:
                    return a.value
        return None

    q = tested_quantity(b.body, num_tests[0].test) if num_tests else None
    verdict = squared_norm_idiom(q, p) if q is not None else None
    if q is None or verdict is None:
        ctx.undecided(R4, fi.key + ":numeric-sum", f"cannot recognise how the tested quantity {short(q) if q is not None else '?'} is computed from `{p}`", fi)
    else:
        ctx.check(verdict, R4, fi.key + ":numeric-sum", "tested quantity is sum_i |a_i|^2 (conjugated square)", f"the numeric branch tests {short(q)}: for complex amplitudes that is not sum |a_i|^2 (conjugation or square missing)", fi)
    # symbolic branch
    sym_tests = [n for n in ast.walk(ast.Module(body=b.orelse, type_ignores=[])) if isinstance(n, ast.If)]
    ok_sym = False
    if sym_tests:
        t = sym_tests[0].test
        if isinstance(t, ast.Compare) and len(t.ops) == 1:
            gt = isinstance(t.ops[0], ast.Gt) and (is_const(t.comparators[0], 1.0) or is_const(t.comparators[0], 1))
            lt = isinstance(t.ops[0], ast.Lt) and (is_const(t.left, 1.0) or is_const(t.left, 1))
            ok_sym = (gt or lt) and any(isinstance(s, ast.Raise) for s in sym_tests[0].body)
    ctx.check(ok_sym, R4, fi.key + ":symbolic", "partly symbolic vectors: raise when the numeric part already exceeds 1", "partly symbolic vectors are not rejected exactly when their numeric entries already exceed probability 1", fi)
    sel = [n for n in ast.walk(ast.Module(body=b.orelse, type_ignores=[])) if isinstance(n, ast.ListComp) and any("_is_number" in norm(i) for g in n.generators for i in g.ifs)]
    if sym_tests:
        q = tested_quantity(b.orelse, sym_tests[0].test)
        holder = None
        for s_ in b.orelse:
            for a in ast.walk(s_):
                if isinstance(a, ast.Assign) and isinstance(a.targets[0], ast.Name) and sel and any(x is sel[0] for x in ast.walk(a.value)):
                    holder = a.targets[0].id
        verdict = squared_norm_idiom(q, holder) if (q is not None and holder) else None
        if verdict is None:
            ctx.undecided(R4, fi.key + ":symbolic-sum", f"cannot recognise how the tested quantity {short(q) if q is not None else '?'} is computed from the numeric entries", fi)
        else:
            ctx.check(verdict, R4, fi.key + ":symbolic-sum", "tested quantity is sum |a_i|^2 over the numeric entries", f"the symbolic branch tests {short(q)}: for complex numeric entries that under-counts their weight (conjugation or square missing), so over-unity vectors are accepted", fi)
    ctx.check(bool(sel) and norm(sel[0].generators[0].iter) == p, R4, fi.key + ":numeric-entries", "numeric entries of the vector selected by _is_number", "the symbolic branch does not select the numeric entries of the given vector", fi)
    if not repo.has_func(f"{WF}:_is_number"):
        ctx.undecided(R4, f"{WF}:_is_number", "the numeric-entry classifier _is_number is gone", fi)
        return
    isn = repo.func(f"{WF}:_is_number")
    ctx.analysed(isn)
    probes = [dotted(c.func) for c in body_walk(isn.node) if isinstance(c, ast.Call) and dotted(c.func) in ("complex", "float", "int")]
    inst = [norm(c) for c in body_walk(isn.node) if isinstance(c, ast.Call) and dotted(c.func) == "isinstance"]
    ok_probe = ("complex" in probes) or any("complex" in i or "Number" in i or "Complex" in i for i in inst)
    ctx.check(ok_probe, R4, isn.key, "the numeric probe accepts complex numbers", f"_is_number probes with {probes or inst}: complex numeric amplitudes are not recognised as numbers, so they are left out of the 'already exceeds 1' test", isn)
    # sympy's capitalised predicates (`is_Number`, `is_Float`, ...) and the Number classes are true for *atomic* numbers only:
    # a symbol-free expression such as 1.0*I, sqrt(3)/2 or exp(I*pi/4) is a number but not a `Number`, so classifying entries
    # with them leaves complex / irrational numeric amplitudes out of the "numeric part already exceeds 1" test
    atomic = [n for n in body_walk(isn.node) if isinstance(n, ast.Attribute) and n.attr in ("is_Number", "is_Float", "is_Integer", "is_Rational", "is_NumberSymbol", "is_Atom", "is_real", "is_Symbol")]
    atomic += [c for c in body_walk(isn.node) if isinstance(c, ast.Call) and dotted(c.func) == "isinstance" and len(c.args) == 2 and any(x in norm(c.args[1]) for x in ("sympy.Number", "sympy.Float", "sympy.Integer", "sympy.Rational", "Number)", "Float", "numbers.Real", "float", "int"))  and "complex" not in norm(c.args[1]) and "Complex" not in norm(c.args[1])]
    atomic = [a for a in atomic if any(isinstance(r, ast.Return) and any(x is a for x in ast.walk(r)) for r in body_walk(isn.node))]
    ctx.check(not atomic, R4, isn.key + ":complete", "every symbol-free entry counts as numeric", f"_is_number decides with `{short(atomic[0]) if atomic else ''}`: that is true for atomic numbers only, so symbol-free expressions (1.0*I, sqrt(3)/2) are treated as symbolic and a vector whose fixed entries already exceed probability 1 is accepted", f"{isn.module.relpath}:{atomic[0].lineno}" if atomic else isn)
    gp = repo.func(f"{WF}:Wavefunction.get_probabilities")
    r = returned_exprs(gp.node)
    ok_gp = len(r) == 1 and isinstance(r[0], ast.BinOp) and isinstance(r[0].op, ast.Pow) and is_const(r[0].right, 2) and norm(r[0].left) in ("np.abs(self.amplitudes)", "abs(self.amplitudes)", "np.absolute(self.amplitudes)")
    ctx.check(ok_gp, R4, gp.key, "probabilities = |amplitudes|^2", f"get_probabilities returns {short(r[0]) if r else None}, not |amplitudes|^2", gp)


R6 = "C12-D6 bit-reversal"


def _chain(e: ast.AST):
    """innermost-first list of (attribute, call-or-None) of a method chain, and its base expression"""
    steps = []
    while True:
        if isinstance(e, ast.Call) and isinstance(e.func, ast.Attribute) and not (dotted(e.func) or "").startswith(("np.", "numpy.")):
            steps.append((e.func.attr, e))
            e = e.func.value
        elif isinstance(e, ast.Attribute) and e.attr in ("T",):
            steps.append((e.attr, None))
            e = e.value
        else:
            break
    return list(reversed(steps)), e


def check_bit_reversal(ctx):
    """flip = index by the permutation obtained from arange(2**n) viewed as an n-axis tensor of extent 2 with *all* axes reversed:
    axis k of that tensor is bit k of the index, so reversing every axis is exactly the bit-reversal permutation (and an involution).
    Exchanging only some axes (swapaxes, moveaxis, a partial transpose) is a different permutation for n >= 3."""
    repo = ctx.repo
    go = repo.func(f"{WF}:_get_ordering")
    fa = repo.func(f"{WF}:flip_amplitudes")
    ctx.analysed(go, fa)
    d = Defs(go.node)
    rets = returned_exprs(go.node)
    e = rets[0] if len(rets) == 1 else None
    if isinstance(e, ast.Name):
        e = d.single_def(e.id)
    if not isinstance(e, ast.AST):
        ctx.undecided(R6, go.key, "cannot find the single returned permutation", go)
        return
    steps, base = _chain(e)
    nb = None
    for nm, vs in d.defs.items():
        for v in vs:
            if isinstance(v, ast.AST) and norm(v) in (f"{positional_params(go.node)[0]}.bit_length() - 1",):
                nb = nm
    where = f"{go.module.relpath}:{e.lineno}"
    names = [a for a, _ in steps]
    ok_base = isinstance(base, ast.Call) and (dotted(base.func) or "").split(".")[-1] == "arange" and len(base.args) == 1 and nb is not None and norm(base.args[0]) in (f"2 ** {nb}", positional_params(go.node)[0])
    ok_split = len(steps) >= 1 and steps[0][0] == "reshape" and nb is not None and norm(steps[0][1].args[0]) in (f"{nb} * [2]", f"[2] * {nb}", f"({nb} * [2])", f"(2,) * {nb}", f"{nb} * (2,)") if steps and steps[0][1] is not None and steps[0][1].args else False
    ok_join = len(steps) >= 1 and ((steps[-1][0] == "reshape" and steps[-1][1].args and nb is not None and norm(steps[-1][1].args[0]) in (f"2 ** {nb}", "-1", positional_params(go.node)[0])) or (steps[-1][0] in ("ravel", "flatten") and not steps[-1][1].args))
    ctx.check(ok_base and ok_split and ok_join, R6, go.key + ":tensor-view", "arange(2**n) viewed as n axes of extent 2 and flattened again (C order)", f"the permutation {short(e, 120)} is not arange(2**n).reshape(n*[2])...reshape(2**n) with n = bit_length - 1", where)
    mids = steps[1:-1]
    if len(mids) != 1:
        ctx.check(False, R6, go.key + ":all-axes-reversed", "", f"expected exactly one axis permutation between the two reshapes, found {[a for a, _ in mids]}: " + ("without one the ordering is the identity, not the bit reversal" if not mids else "a composition of axis moves is not analysed as a full reversal"), where) if not mids else ctx.undecided(R6, go.key + ":all-axes-reversed", f"axis permutation is a composition {[a for a, _ in mids]}", where)
    else:
        a, c = mids[0]
        full = False
        if a == "T":
            full = True
        elif a == "transpose" and c is not None:
            if not c.args and not c.keywords:
                full = True
            elif len(c.args) == 1 and nb is not None:
                x = c.args[0].value if isinstance(c.args[0], ast.Starred) else c.args[0]
                full = norm(x) in (f"reversed(range({nb}))", f"range({nb})[::-1]", f"list(reversed(range({nb})))", f"range({nb} - 1, -1, -1)", f"np.arange({nb})[::-1]", f"tuple(reversed(range({nb})))")
        if full:
            ctx.ok(R6, go.key + ":all-axes-reversed", "every axis of the tensor view is reversed: index bits are reversed", where)
        elif a in ("swapaxes", "moveaxis", "transpose", "rollaxis"):
            ctx.violation(R6, go.key + ":all-axes-reversed", f"the axes are permuted by `.{a}({', '.join(short(x) for x in (c.args if c is not None else []))})`, which does not reverse all of them: with three or more qubits only some index bits change place, so flipping is not the bit-reversal permutation", where)
        else:
            ctx.undecided(R6, go.key + ":all-axes-reversed", f"axis permutation `.{a}` is not recognised", where)
    # flip_amplitudes indexes the given amplitudes by the ordering of their own length
    fd = Defs(fa.node)
    fr = returned_exprs(fa.node)
    amp = positional_params(fa.node)[0]
    ok = False
    if len(fr) == 1 and isinstance(fr[0], ast.Subscript):
        idx = fr[0].slice
        if isinstance(idx, ast.Name):
            idx = fd.single_def(idx.id)
        arg = idx.args[0] if isinstance(idx, ast.Call) and dotted(idx.func) == "_get_ordering" and len(idx.args) == 1 else None
        if isinstance(arg, ast.Name):
            arg = fd.single_def(arg.id)
        ok = isinstance(arg, ast.AST) and norm(arg) == f"len({amp})" and norm(fr[0].value) in (f"np.asarray({amp})", f"np.array({amp})", amp)
    ctx.check(ok, R6, fa.key, "flip_amplitudes = amplitudes[_get_ordering(len(amplitudes))]", f"flip_amplitudes returns {short(fr[0]) if fr else None}: not the given amplitudes indexed by the ordering for their own length", fa)
    fw = repo.func(f"{WF}:flip_wavefunction")
    ctx.analysed(fw)
    r = returned_exprs(fw.node)
    ok = len(r) == 1 and norm(r[0]) == f"Wavefunction(flip_amplitudes({positional_params(fw.node)[0]}.amplitudes))"
    ctx.check(ok, R6, fw.key, "flip_wavefunction wraps flip_amplitudes of the wavefunction's amplitudes", f"flip_wavefunction returns {short(r[0]) if r else None}", fw)


R7 = "C12-D7 dicke-enumeration"


def _fold_bool(t: ast.AST, env) -> "Optional[bool]":
    """constant folding of a comparison over integer stand-ins (env: normalised text -> int)"""
    if isinstance(t, ast.UnaryOp) and isinstance(t.op, ast.Not):
        v = _fold_bool(t.operand, env)
        return None if v is None else not v
    if isinstance(t, ast.Compare) and len(t.ops) == 1:
        def val(e):
            if isinstance(e, ast.Constant) and isinstance(e.value, int):
                return e.value
            if norm(e) in env:
                return env[norm(e)]
            if isinstance(e, ast.BinOp) and isinstance(e.op, (ast.Add, ast.Sub)):
                a, b = val(e.left), val(e.right)
                return None if a is None or b is None else (a + b if isinstance(e.op, ast.Add) else a - b)
            return None
        a, b = val(t.left), val(t.comparators[0])
        if a is None or b is None:
            return None
        op = t.ops[0]
        return {ast.Lt: a < b, ast.LtE: a <= b, ast.Gt: a > b, ast.GtE: a >= b, ast.Eq: a == b, ast.NotEq: a != b}.get(type(op))
    return None


def check_dicke(ctx):
    """Structure the Dicke constructor rests on (the bit trick that steps to the next integer of the same weight is taken as
    given; what is decided is how the constructor drives it): the walk starts at the smallest integer of the requested weight,
    every value produced is kept exactly while it fits in n bits (the stop test is false for a value of n bits and true for
    n + 1 bits), the amplitude is 1/sqrt(number of kept indices) and is stored at exactly those indices of a zero vector of
    length 2**n. An unrecognised shape is UNDECIDED."""
    repo = ctx.repo
    f = repo.func(f"{WF}:Wavefunction.dicke_state")
    ctx.analysed(f)
    ps = positional_params(f.node)
    n, k = ps[0], ps[1]
    d = Defs(f.node)
    loops = [w for w in body_walk(f.node) if isinstance(w, ast.While)]
    if len(loops) != 1:
        ctx.undecided(R7, f.key, f"expected one enumeration loop, found {len(loops)}", f)
        return
    loop = loops[0]
    where = f"{f.module.relpath}:{loop.lineno}"
    steps = [a for a in loop.body if isinstance(a, ast.Assign) and isinstance(a.value, ast.Call) and dotted(a.value.func) == "_get_next_number_with_same_hamming_weight" and len(a.value.args) == 1 and norm(a.targets[0]) == norm(a.value.args[0])]
    if len(steps) != 1:
        ctx.undecided(R7, f.key, "cannot find `cur = _get_next_number_with_same_hamming_weight(cur)` in the loop", where)
        return
    cur = norm(steps[0].targets[0])
    # seed
    seeds = [v for v in d.defs.get(cur, []) if isinstance(v, ast.AST) and v is not steps[0].value]
    ok_seed = len(seeds) == 1 and norm(seeds[0]) in (f"int('1' * {k}, base=2)", f"int('1' * {k}, 2)", f"(1 << {k}) - 1", f"2 ** {k} - 1")
    ctx.check(ok_seed, R7, f.key + ":seed", "the walk starts at the smallest integer with the requested number of ones", f"the walk starts at {short(seeds[0]) if seeds else None}: not the smallest integer with {k} ones (2**{k} - 1), so lower basis states of that weight are skipped or states of another weight are included", where)
    # stop test
    guards = [g for g in loop.body if isinstance(g, ast.If) and any(isinstance(x, ast.Break) for x in g.body) and "_most_significant_set_bit" in norm(g.test)]
    appends = [c for st in loop.body for c in ast.walk(st) if isinstance(c, ast.Call) and isinstance(c.func, ast.Attribute) and c.func.attr == "append" and len(c.args) == 1 and norm(c.args[0]) == cur]
    if len(guards) != 1 or len(appends) != 1:
        ctx.undecided(R7, f.key + ":stop", "cannot find the single `_most_significant_set_bit(cur)` stop test and the single append of the current value", where)
        return
    g = guards[0]
    msb = f"_most_significant_set_bit({cur})"
    at_n = _fold_bool(g.test, {msb: 5, n: 5})
    over = _fold_bool(g.test, {msb: 6, n: 5})
    if at_n is None or over is None:
        ctx.undecided(R7, f.key + ":stop", f"cannot evaluate the stop test `{short(g.test)}`", where)
    else:
        ctx.check(at_n is False and over is True, R7, f.key + ":stop", "a value of n bits is kept, a value of n + 1 bits ends the walk", f"the stop test `{short(g.test)}` is {at_n} for a value of exactly {n} bits and {over} for one of {n} + 1 bits: " + ("basis states whose highest qubit is set are left out" if at_n else "values that do not fit the register are kept"), f"{f.module.relpath}:{g.lineno}")
    order = [st for st in loop.body if st is steps[0] or st is g or any(x is appends[0] for x in ast.walk(st))]
    ok_order = len(order) == 3 and order[0] is steps[0] and order[1] is g
    ctx.check(ok_order, R7, f.key + ":order", "step, then stop test, then keep", "the loop does not step, test and keep in that order: a value is kept before it is tested (or tested before it is produced)", where)
    lst = norm(appends[0].func.value)
    inits = [v for v in d.defs.get(lst, []) if isinstance(v, ast.AST)]
    ok_init = len(inits) == 1 and isinstance(inits[0], ast.List) and len(inits[0].elts) == 1 and norm(inits[0].elts[0]) == cur
    ctx.check(ok_init, R7, f.key + ":first-kept", "the list of kept indices starts with the seed", f"the kept indices start as {short(inits[0]) if inits else None}: the first state of the walk is not kept (or something else is)", where)
    # amplitude = 1/sqrt(number kept)
    amps = [a for a in body_walk(f.node) if isinstance(a, ast.Assign) and isinstance(a.targets[0], ast.Subscript) and norm(a.targets[0].slice) == lst]
    if len(amps) != 1:
        ctx.undecided(R7, f.key + ":amplitude", f"cannot find the single store `vector[{lst}] = amplitude`", f)
        return
    amp = amps[0].value
    if isinstance(amp, ast.Name):
        amp = d.single_def(amp.id)
    cnt = None
    if isinstance(amp, ast.BinOp) and isinstance(amp.op, ast.Div) and norm(amp.left) in ("1", "1.0") and isinstance(amp.right, ast.Call) and (dotted(amp.right.func) or "").split(".")[-1] == "sqrt" and len(amp.right.args) == 1:
        cnt = amp.right.args[0]
    ok_cnt = False
    detail = f"the amplitude is {short(amp) if isinstance(amp, ast.AST) else None}, not 1/sqrt(number of kept indices)"
    if cnt is not None:
        if norm(cnt) == f"len({lst})":
            ok_cnt = True
        elif isinstance(cnt, ast.Name):
            c0 = [st.value for st in body_walk(f.node) if isinstance(st, (ast.Assign, ast.AnnAssign)) and st.value is not None and norm(st.targets[0] if isinstance(st, ast.Assign) else st.target) == cnt.id]
            bumps = [st for st in loop.body if isinstance(st, ast.AugAssign) and norm(st.target) == cnt.id and isinstance(st.op, ast.Add) and norm(st.value) == "1"]
            after = bool(bumps) and loop.body.index(bumps[0]) > loop.body.index(g)
            ok_cnt = len(c0) == 1 and norm(c0[0]) == "1" and len(bumps) == 1 and after and ok_init
            detail = f"the counter `{cnt.id}` starts at {short(c0[0]) if c0 else None} and is incremented {len(bumps)} time(s) per kept index" + ("" if after else " before the stop test") + ": it does not count the kept indices, so the amplitudes do not square-sum to 1 / are not those of the Dicke state"
    ctx.check(ok_cnt, R7, f.key + ":amplitude", "amplitude = 1/sqrt(number of kept indices)", detail, f"{f.module.relpath}:{amps[0].lineno}")
    vec = norm(amps[0].targets[0].value)
    vdef = d.single_def(vec) if vec.isidentifier() else None
    ok_vec = isinstance(vdef, ast.Call) and (dotted(vdef.func) or "").split(".")[-1] == "zeros" and vdef.args and norm(vdef.args[0]) == f"2 ** {n}"
    rets = [r for r in returned_exprs(f.node) if any(isinstance(x, ast.Name) and x.id == vec for x in ast.walk(r))]
    ok_ret = len(rets) == 1 and norm(rets[0]) == f"Wavefunction({vec})"
    ctx.check(ok_vec and ok_ret, R7, f.key + ":vector", "the amplitudes go into a zero vector of length 2**n that is returned through the constructor", f"the vector {short(vdef) if isinstance(vdef, ast.AST) else vec} is not zeros(2**{n}) returned as Wavefunction({vec})", f)
    ms = repo.func(f"{WF}:_most_significant_set_bit")
    ctx.analysed(ms)
    md = Defs(ms.node)
    mr = returned_exprs(ms.node)
    v = positional_params(ms.node)[0]
    e = mr[0] if len(mr) == 1 else None
    ok_ms = False
    if e is not None:
        txt = norm(e)
        for nm, vs in md.defs.items():
            if len(vs) == 1 and isinstance(vs[0], ast.AST):
                txt = txt.replace(nm, norm(vs[0])) if nm != v else txt
        ok_ms = txt in (f"len(bin({v})) - 2", f"{v}.bit_length()")
    ctx.check(ok_ms, R7, ms.key, "number of bits of the value (len(bin(v)) - 2)", f"_most_significant_set_bit returns {short(e) if e is not None else None}: not the bit length of its argument, which the stop test compares with the register width", ms)


def run(ctx):
    from ..lints import check_caches

    check_caches(ctx, "C12-D3 who-writes", ['wavefunction'])
    # no function of the module keeps state between calls (a module-level table of amplitude vectors handed to several objects makes
    # one object's accepted assignment change another's amplitudes), and no query method remembers a result on the mutable receiver
    from ..state import check_hidden_state

    wmod = ctx.repo.module("wavefunction")
    wfuncs = list(wmod.functions.values())
    writers = {"__init__", "__setitem__", "__post_init__"}
    check_hidden_state(ctx, "C12-D3 who-writes", [f for f in wfuncs if f.name in writers or f.cls is None], effects_for(ctx))
    check_hidden_state(ctx, "C12-D3 who-writes", [f for f in wfuncs if f.name not in writers and f.cls is not None], effects_for(ctx), receiver_caches=True)
    check_dicke(ctx)
    ctx.floor("C12-D7", 7)
    check_bit_reversal(ctx)
    ctx.floor("C12-D6", 4)
    check_constructor(ctx)
    check_setitem(ctx)
    check_who_writes(ctx)
    check_normalisation(ctx)
    check_pair(ctx, R5, "wavefunction", f"{WF}:save_wavefunction", f"{WF}:load_wavefunction", None)
    loader_accepts_path_and_file(ctx, R5, f"{WF}:load_wavefunction")
    sv = ctx.repo.func(f"{WF}:save_wavefunction")
    ctx.check("convert_array_to_dict(wavefunction.amplitudes)" in norm(sv.node), R5, sv.key + ":amplitudes", "the amplitudes are what is saved", "save_wavefunction does not store the wavefunction's amplitudes", sv)
    # what is saved is the complex amplitude: no one-sided "is the imaginary part negligible" decision on the way
    from ..lints import one_sided_signed_part_tests

    hits = one_sided_signed_part_tests(ctx.repo, ("utils", "wavefunction"))
    for fi, t in hits:
        ctx.violation(R5, f"{fi.key}:one-sided:{short(t, 40)}", f"`{short(t)}` decides about an imaginary part by a one-sided comparison: every negative imaginary part counts as negligible, so amplitudes such as -i/sqrt(2) are saved without it and do not come back", f"{fi.module.relpath}:{t.lineno}")
    ctx.ok(R5, "utils,wavefunction:one-sided-imag", f"no one-sided test on an imaginary part ({len(hits)} found)", "")
    # "saving and loading returns the same amplitudes": the array conversions both directions go through are decided once, by C11
    # (arrays reach the constructor as stored, no real-dtype coercion; no one-sided imaginary-part test)
    from ..common import share_rule
    from . import c11

    share_rule(ctx, "C11", c11.check_loaded_arrays_unchanged, "C12-D5 record")
    ctx.floor("C12-D1", 3)
    ctx.floor("C12-D2", 4)
    ctx.floor("C12-D3", 20)
    ctx.floor("C12-D4", 7)
    ctx.floor("C12-D5", 5)
