"""C10 — statistics computed from measurements are the exact sample statistics."""
from __future__ import annotations

import ast
from typing import Dict, List, Optional, Set, Tuple

from ..astutil import arg_or_kw, body_walk, const_value, dotted, kwarg, norm, positional_params, short, walk_local
from ..cfg import branch_raises, cfg_of
from ..common import find_calls_named, returned_exprs
from ..flow import Defs
from ..linform import p_add, p_atom, p_const, p_mul, poly, poly_eq, show
from ..orient import count_reversals

EXPLANATION = (
    "Structural necessary conditions: (D1) for a pair of terms the qubits whose parity is averaged are the symmetric "
    "difference of the two supports (Z_a Z_a = 1), each off-diagonal entry is coefficient_i * coefficient_j * that "
    "mean, stored symmetrically, the diagonal is coefficient**2, any shortcut for constant terms reads the *other* "
    "term's value, and the pair loops cover every unordered pair; (D2) the covariance is (correlations - outer(values, "
    "values)) / denominator with denominator n-1 under Bessel's correction and n otherwise, n = number of shots; (D3) "
    "the non-Ising rejection dominates all work; (D4) each reported value is the term's own coefficient times the "
    "parity mean of the term's own qubits, for every term in order; the parity mean maps even->+1 / odd->-1 (2p-1 with "
    "p = (sum+1) % 2, empty support = even), weights each distinct outcome by its own count and divides by the total "
    "count; (D5) counts come from a Counter over all stored shots, add_counts repeats each outcome by its own count, "
    "the empirical distribution divides each count by the number of shots; (D6) parity tallies take outcomes and "
    "multiplicities from the same Counter without re-ordering either, store [even, odd] per term and per pair with "
    "even = agreement; (D7) all these queries leave the measurements and the operator untouched (effect analysis). "
    "(D2r) the value and covariance arrays are reported as computed (no clipping / snapping afterwards); (D4s) the signed counts are summed as integers and divided by the number of shots once, so a constant term contributes exactly its coefficient."
    ' Round 4: the correlation matrix is sized by len() of the enumerated term sequence.'
    ' Round 5: (D8) is_ising is "every factor is Z" (constants qualify; no set equality with {Z}), is_constant looks at the factors only; two loop positions are told apart by index, never by comparing the terms; (D7) no unsound cache.'
    " Round 6/7: one parity over several terms' qubits put together is refused unless it is their symmetric difference (D6)."
)
RULE_TEXT = "instances = statements/expressions of Measurements.get_expectation_values, get_expectation_value_from_frequencies, check_parity_of_vector, get_counts/add_counts/get_distribution, get_parities_from_measurements; distinct by (rule, construct)"
ASSUMPTIONS = [
    "declined: the numerical identities themselves (floating-point means, behaviour for zero shots); numpy broadcasting, Counter and np.fromiter have their documented semantics (Counter keys()/values() are aligned)",
]

MS = "measurements.measurements"
PA = "measurements.parities"
R1 = "C10-D1 pair-correlations"
R2 = "C10-D2 covariance"
R3 = "C10-D3 ising-guard"
R4 = "C10-D4 term-values"
R5 = "C10-D5 counts"
R6 = "C10-D6 parity-tallies"
R7 = "C10-D7 queries-pure"

REORDERING = {"unique", "sorted", "sort", "argsort", "set", "frozenset", "shuffle", "permutation", "lexsort"}


def _symdiff(e: ast.AST, a: str, b: str) -> Optional[bool]:
    """True if e denotes the symmetric difference of sets a and b, False if it denotes another set
    operation of them, None if unrecognised."""
    t = norm(e)
    yes = {f"{a}.symmetric_difference({b})", f"{b}.symmetric_difference({a})", f"{a} ^ {b}", f"{b} ^ {a}",
           f"({a} | {b}) - ({a} & {b})", f"({a} - {b}) | ({b} - {a})", f"({b} - {a}) | ({a} - {b})", f"{a}.union({b}) - {a}.intersection({b})",
           f"set({a}) ^ set({b})", f"set({a}).symmetric_difference({b})"}
    if t in yes:
        return True
    no_ops = ("union", "intersection", "difference")
    if isinstance(e, ast.Call) and isinstance(e.func, ast.Attribute) and e.func.attr in no_ops:
        return False
    if isinstance(e, ast.BinOp) and isinstance(e.op, (ast.BitOr, ast.BitAnd, ast.Sub)) and {norm(e.left), norm(e.right)} == {a, b}:
        return False
    return None


def check_expectation_values(ctx):
    repo = ctx.repo
    fi = repo.func(f"{MS}:Measurements.get_expectation_values")
    ctx.analysed(fi)
    op = positional_params(fi.node)[1]
    flag = positional_params(fi.node)[2] if len(positional_params(fi.node)) > 2 else "use_bessel_correction"
    d = Defs(fi.node)
    cfg = cfg_of(fi.node)
    # D3 guard
    guards = [g for g in cfg.nodes if g.kind == "test" and isinstance(g.ast, ast.If) and branch_raises(cfg, g, "true") and norm(g.ast.test) == f"not {op}.is_ising"]
    work = [n for n in cfg.nodes if n.kind != "test" and n.ast is not None and any(isinstance(c, ast.Call) and (dotted(c.func) or "").split(".")[-1] in ("get_counts", "get_expectation_value_from_frequencies") for c in ast.walk(n.ast))]
    ok = bool(guards) and bool(work) and all(cfg.dominates(guards[0], w) for w in work)
    ctx.check(ok, R3, fi.key, "non-Ising operators are rejected before anything is computed", "the is_ising rejection does not dominate the computation: X/Y terms would be averaged as if they were Z", fi)
    # D4 term values
    freq_names = {nm for nm, vs in d.defs.items() if any(isinstance(v, ast.AST) and norm(v) == "self.get_counts()" for v in vs)}
    comps = [c for c in body_walk(fi.node) if isinstance(c, (ast.ListComp, ast.GeneratorExp)) and len(c.generators) == 1 and norm(c.generators[0].iter) == f"{op}.terms"]
    ok = False
    detail = "no comprehension over the operator's terms"
    if comps:
        c = comps[0]
        t = norm(c.generators[0].target)

        def opaque(e):
            import copy

            class T(ast.NodeTransformer):
                def visit_Call(self, node):
                    if (dotted(node.func) or "").split(".")[-1] == "get_expectation_value_from_frequencies" and len(node.args) == 2 and norm(node.args[1]) in freq_names:
                        return ast.Name(id="MEAN_" + "".join(ch if ch.isalnum() else "_" for ch in norm(node.args[0])), ctx=ast.Load())
                    return node

            return T().visit(copy.deepcopy(e))

        got = poly(opaque(c.elt))
        want = p_mul(p_atom(f"{t}.coefficient"), p_atom("MEAN_" + "".join(ch if ch.isalnum() else "_" for ch in f"{t}.qubits")))
        ok = poly_eq(got, want) and not c.generators[0].ifs
        detail = f"per-term value {short(c.elt)} denotes {show(got)}; expected {show(want)} for every term"
    ctx.check(ok, R4, fi.key + ":values", "value_i = coefficient_i * mean parity of term i's own qubits, for every term in order", detail, fi)
    nm_defs = [v for v in d.defs.get("num_measurements", []) if isinstance(v, ast.AST)]
    ok_n = len(nm_defs) == 1 and norm(nm_defs[0]) in ("len(self.bitstrings)", "sum(bitstring_frequencies.values())")
    ctx.check(ok_n, R2, fi.key + ":shots", "n = number of stored shots", f"the shot number is computed as {short(nm_defs[0]) if nm_defs else '?'}", fi)
    # D1 pairs
    outer = [l for l in fi.node.body if isinstance(l, ast.For) and isinstance(l.iter, ast.Call) and dotted(l.iter.func) == "enumerate" and norm(l.iter.args[0]) == f"{op}.terms"]
    if len(outer) != 1 or not isinstance(outer[0].target, ast.Tuple):
        ctx.undecided(R1, fi.key + ":pair-loop", "cannot find `for i, first in enumerate(operator.terms)`", fi)
        return
    ol = outer[0]
    i, first = (norm(x) for x in ol.target.elts)
    inner = [l for l in ol.body if isinstance(l, ast.For)]
    if len(inner) != 1:
        ctx.undecided(R1, fi.key + ":pair-loop", "cannot find the inner pair loop", fi)
        return
    il = inner[0]
    j = norm(il.target) if isinstance(il.target, ast.Name) else None
    second = None
    if j is not None and norm(il.iter) in (f"range({i})", f"range(0, {i})"):
        for s in il.body:
            if isinstance(s, ast.Assign) and norm(s.value) == f"{op}.terms[{j}]":
                second = norm(s.targets[0])
        cover = "lower-triangle"
    elif isinstance(il.target, ast.Tuple) and isinstance(il.iter, ast.Call) and dotted(il.iter.func) == "enumerate":
        j, second = (norm(x) for x in il.target.elts)
        cover = "full" if norm(il.iter.args[0]) == f"{op}.terms" else ("lower-triangle" if norm(il.iter.args[0]) == f"{op}.terms[:{i}]" else None)
    else:
        cover = None
    if second is None or cover is None:
        ctx.undecided(R1, fi.key + ":pair-loop", f"inner loop `{short(il.iter)}` is not range(i) / an enumeration of the terms", fi)
        return
    ctx.ok(R1, fi.key + ":pair-loop", f"pairs (i, j) cover the {cover} of the term matrix", fi)
    index_of = {first: i, second: j}
    corr = None
    stores = []
    for s in ast.walk(ol):
        if isinstance(s, ast.Assign) and isinstance(s.targets[0], ast.Subscript) and isinstance(s.targets[0].slice, ast.Tuple) and len(s.targets[0].slice.elts) == 2:
            stores.append(s)
            corr = norm(s.targets[0].value)
    if not stores:
        ctx.undecided(R1, fi.key + ":stores", "no stores into the correlation matrix", fi)
        return
    # the matrix has one row and one column per enumerated term: its size is len(<the enumerated expression>). len() of the
    # operator itself is a different number for a single PauliTerm (its operator count; `.terms` is then [term])
    cdefs = [v for v in d.defs.get(corr, []) if isinstance(v, ast.Call)] if corr and corr.isidentifier() else []
    if len(cdefs) == 1 and cdefs[0].args:
        lens, todo, hops = [], [cdefs[0].args[0]], 0
        while todo and hops < 12:
            e = todo.pop()
            hops += 1
            for x in ast.walk(e):
                if isinstance(x, ast.Call) and dotted(x.func) == "len" and len(x.args) == 1:
                    lens.append(x.args[0])
                elif isinstance(x, ast.Name) and x.id not in (op, "self", "np"):
                    todo.extend(v for v in d.defs.get(x.id, []) if isinstance(v, ast.AST))
        where_c = f"{fi.module.relpath}:{cdefs[0].lineno}"
        if not lens:
            ctx.undecided(R1, fi.key + ":matrix-size", f"cannot find the len(...) that sizes {short(cdefs[0])}", where_c)
        else:
            bad = [x for x in lens if norm(x) != f"{op}.terms"]
            ctx.check(not bad, R1, fi.key + ":matrix-size", "the correlation matrix has len(operator.terms) rows and columns, the sequence the pair loops enumerate", f"the correlation matrix is sized by len({short(bad[0]) if bad else ''}) while the pair loops enumerate {op}.terms: the two differ for a single PauliTerm (len = number of its Pauli factors, terms = [the term]), so the matrix has the wrong shape or the stores run out of bounds", where_c)
    else:
        ctx.undecided(R1, fi.key + ":matrix-size", "cannot find the single construction of the correlation matrix", fi)
    marked: Dict[str, ast.AST] = {}
    for s in ast.walk(il):
        if isinstance(s, ast.Assign) and isinstance(s.targets[0], ast.Name):
            marked[s.targets[0].id] = s.value
    parents: Dict[ast.AST, ast.AST] = {}
    for n in ast.walk(ol):
        for ch in ast.iter_child_nodes(n):
            parents[ch] = n
    values_name = next((nm for nm, vs in d.defs.items() if any(isinstance(v, ast.Call) and (dotted(v.func) or "").endswith("array") and v.args and isinstance(v.args[0], ast.Name) and any(x is comps[0] for vv in d.defs.get(v.args[0].id, []) if isinstance(vv, ast.AST) for x in ast.walk(vv)) for v in vs)), None) if comps else None
    n_sym = 0
    for s in stores:
        a, b = (norm(x) for x in s.targets[0].slice.elts)
        where = f"{fi.module.relpath}:{s.lineno}"
        key = fi.key + f":store[{a},{b}]:{short(s.value, 40)}"
        if (a, b) == (i, i):
            got = poly(s.value)
            ctx.check(poly_eq(got, p_mul(p_atom(f"{first}.coefficient"), p_atom(f"{first}.coefficient"))), R1, key, "diagonal = coefficient**2", f"diagonal entry is {short(s.value)}; a term times itself is coefficient**2 (P*P = 1)", where)
            continue
        if {a, b} != {i, j}:
            ctx.undecided(R1, key, f"store into entry [{a}, {b}] is neither the diagonal nor the (i, j) pair", where)
            continue
        if norm(s.value) in (f"{corr}[{b}, {a}]", f"{corr}[{b}][{a}]"):
            n_sym += 1
            ctx.ok(R1, key, "mirror entry copies the computed entry", where)
            continue
        # guards this store sits under
        guard_term = None
        cur = s
        while cur in parents and parents[cur] is not ol:
            p = parents[cur]
            if isinstance(p, ast.If) and cur in p.body:
                for term in (first, second):
                    if norm(p.test) == f"{term}.is_constant":
                        guard_term = term
            cur = p
        calls = [c for c in ast.walk(s.value) if isinstance(c, ast.Call) and (dotted(c.func) or "").split(".")[-1] == "get_expectation_value_from_frequencies"]
        if calls:
            c = calls[0]
            m = c.args[0]
            if isinstance(m, ast.Name) and m.id in marked:
                m = marked[m.id]
            sd = _symdiff(m, f"{first}.qubits", f"{second}.qubits")
            if sd is None:
                ctx.undecided(R1, key + ":support", f"cannot classify the set expression {short(m)}", where)
            else:
                ctx.check(sd, R1, key + ":support", "marked qubits = symmetric difference of the two supports", f"the qubits averaged for a pair of terms are {short(m)}: a qubit both terms act on contributes Z*Z = 1 and must be left out, one that only one acts on must be kept", where)
            import copy

            class T(ast.NodeTransformer):
                def visit_Call(self, node):
                    if node is not None and (dotted(node.func) or "").split(".")[-1] == "get_expectation_value_from_frequencies":
                        return ast.Name(id="MEAN", ctx=ast.Load())
                    return node

            got = poly(T().visit(copy.deepcopy(s.value)))
            want = p_mul(p_mul(p_atom(f"{first}.coefficient"), p_atom(f"{second}.coefficient")), p_atom("MEAN"))
            ctx.check(poly_eq(got, want), R1, key + ":product", "entry = coefficient_i * coefficient_j * mean", f"pair entry {short(s.value)} denotes {show(got)}, expected {show(want)}", where)
            ctx.check(norm(c.args[1]) in freq_names, R1, key + ":frequencies", "uses this object's counts", "pair mean is not computed from this object's counts", where)
        elif guard_term is not None and values_name is not None:
            other = second if guard_term == first else first
            got = poly(s.value)
            want = p_mul(p_atom(f"{guard_term}.coefficient"), p_atom(f"{values_name}[{index_of[other]}]"))
            ctx.check(poly_eq(got, want), R1, key + ":constant-shortcut", f"constant {guard_term}: entry = its coefficient * the other term's value", f"under `{guard_term}.is_constant` the entry is {short(s.value)} ({show(got)}); with a constant term the product reduces to that term's coefficient times the *other* term's value, {show(want)}", where)
        else:
            ctx.undecided(R1, key, f"pair entry {short(s.value)} has an unrecognised form", where)
    if cover == "lower-triangle":
        ctx.check(n_sym >= 1, R1, fi.key + ":symmetric-fill", "upper triangle mirrors the lower one", "only one triangle of the correlation matrix is filled", fi)
    # D2 covariance
    den = [v for v in d.defs.get("denominator", []) if isinstance(v, ast.AST)]
    ok = False
    detail = "no denominator"
    if len(den) == 1 and isinstance(den[0], ast.IfExp):
        t = norm(den[0].test)
        yes, no = poly(den[0].body), poly(den[0].orelse)
        n1 = p_add(p_atom("num_measurements"), p_const(1), -1)
        n0 = p_atom("num_measurements")
        if t == flag:
            ok = poly_eq(yes, n1) and poly_eq(no, n0)
        elif t == f"not {flag}":
            ok = poly_eq(yes, n0) and poly_eq(no, n1)
        detail = f"denominator is {short(den[0])}: with Bessel's correction it must be n-1, without it n"
    elif len(den) == 1:
        detail = f"denominator {short(den[0])} does not depend on the correction flag"
    ctx.check(ok, R2, fi.key + ":denominator", "n-1 with Bessel's correction, n without", detail, fi)
    cov = [v for nm, vs in d.defs.items() for v in vs if isinstance(v, ast.BinOp) and isinstance(v.op, ast.Div) and norm(v.right) == "denominator"]
    ok = False
    detail = "no (correlations - outer) / denominator expression"
    if len(cov) == 1 and isinstance(cov[0].left, ast.BinOp) and isinstance(cov[0].left.op, ast.Sub) and values_name:
        l, r = cov[0].left.left, cov[0].left.right
        outer_forms = {f"{values_name}[:, np.newaxis] * {values_name}[np.newaxis, :]", f"{values_name}[np.newaxis, :] * {values_name}[:, np.newaxis]", f"np.outer({values_name}, {values_name})", f"{values_name}[:, None] * {values_name}[None, :]", f"{values_name}[None, :] * {values_name}[:, None]"}
        ok = norm(l) == corr and norm(r) in outer_forms
        detail = f"covariance numerator is {short(cov[0].left)}: must be correlations minus the outer product of the value vector with itself"
    ctx.check(ok, R2, fi.key + ":covariance", "(correlations - values values^T) / denominator", detail, fi)
    rets = returned_exprs(fi.node)
    ok = len(rets) == 1 and isinstance(rets[0], ast.Call) and dotted(rets[0].func) == "ExpectationValues" and len(rets[0].args) == 3 and norm(rets[0].args[0]) == values_name and norm(rets[0].args[1]) == f"[{corr}]" and cov and norm(rets[0].args[2]) == f"[{next((nm for nm, vs in d.defs.items() if cov[0] in vs), '?')}]"
    ctx.check(bool(ok), R2, fi.key + ":result", "ExpectationValues(values, [correlations], [covariances])", f"result {short(rets[0]) if rets else '?'} does not carry the three computed quantities in their slots", fi)
    # what is reported is the computed statistic itself: no entry of the value / covariance arrays is overwritten
    # afterwards (clipping, snapping to zero within a tolerance, rounding change the reported sample statistic)
    cov_name = next((nm for nm, vs in d.defs.items() if cov and cov[0] in vs), None)
    tampered = []
    for n in body_walk(fi.node):
        if isinstance(n, ast.Subscript) and isinstance(n.ctx, ast.Store) and isinstance(n.value, ast.Name) and n.value.id in (cov_name, values_name) and cov:
            if getattr(n, "lineno", 0) > getattr(cov[0], "lineno", 0):
                tampered.append(n)
        if isinstance(n, ast.Call) and (dotted(n.func) or "").split(".")[-1] in ("clip", "round", "around", "fill", "putmask", "place", "nan_to_num") and any(isinstance(a, ast.Name) and a.id in (cov_name, values_name) for a in list(n.args) + [getattr(n.func, "value", None)]):
            tampered.append(n)
    ctx.check(not tampered, R2, fi.key + ":reported-as-computed", "values and covariances are reported as computed", f"`{short(tampered[0]) if tampered else ''}` overwrites entries of the computed statistics before they are returned: e.g. snapping with np.isclose (absolute tolerance 1e-8) zeroes genuine covariances of order c_i*c_j/N", f"{fi.module.relpath}:{tampered[0].lineno}" if tampered else fi)


def check_positions_not_by_equality(ctx):
    """Operators may list equal terms more than once; the position of a term in the value / correlation arrays is its
    position in the list. `terms.index(term)` finds the *first equal* term, so the entries of a repeated term are never
    written (or written into the first one's slot)."""
    repo = ctx.repo
    for key in (f"{MS}:Measurements.get_expectation_values", f"{PA}:get_parities_from_measurements"):
        fi = repo.func(key)
        hits = [c for c in body_walk(fi.node) if isinstance(c, ast.Call) and isinstance(c.func, ast.Attribute) and c.func.attr == "index" and len(c.args) == 1 and "term" in norm(c.func.value).lower()]
        # ... nor are two terms "the same term" because `==` says so: term equality is tolerant (any two terms whose coefficients are
        # both ~0 compare equal whatever they act on, and repeated terms are equal by design); the same *position* is `i == j`
        tvars = set()
        for loop in body_walk(fi.node):
            if isinstance(loop, ast.For) and ".terms" in norm(loop.iter):
                tgt = loop.target.elts[-1] if isinstance(loop.target, ast.Tuple) else loop.target
                if isinstance(tgt, ast.Name):
                    tvars.add(tgt.id)
            if isinstance(loop, ast.Assign) and isinstance(loop.value, ast.Subscript) and norm(loop.value.value).endswith(".terms") and isinstance(loop.targets[0], ast.Name):
                tvars.add(loop.targets[0].id)
        cmp_hits = [c for c in body_walk(fi.node) if isinstance(c, ast.Compare) and len(c.ops) == 1 and isinstance(c.ops[0], (ast.Eq, ast.NotEq)) and isinstance(c.left, ast.Name) and isinstance(c.comparators[0], ast.Name) and {c.left.id, c.comparators[0].id} <= tvars and c.left.id != c.comparators[0].id]
        ctx.check(not cmp_hits, R1, fi.key + ":same-term-by-equality", "two loop positions are told apart by their indices, not by comparing the terms", f"`{short(cmp_hits[0]) if cmp_hits else ''}` decides that two positions hold the same term with the tolerant term equality: two different terms with (near-)zero coefficients compare equal whatever qubits they act on, so their pair entry gets the value meant for a term paired with itself", f"{fi.module.relpath}:{cmp_hits[0].lineno}" if cmp_hits else fi)
        ctx.check(not hits, R1, fi.key + ":positions", "term positions come from enumeration, not from equality lookups", f"`{short(hits[0]) if hits else ''}` looks a term's position up by equality: for an operator with a repeated term (Z0 + Z1 + Z0) the later copy resolves to the first one's position, so its correlations / covariances stay unset", f"{fi.module.relpath}:{hits[0].lineno}" if hits else fi)


def check_frequencies(ctx):
    repo = ctx.repo
    fi = repo.func(f"{MS}:get_expectation_value_from_frequencies")
    ctx.analysed(fi)
    mq, fr = positional_params(fi.node)[:2]
    d = Defs(fi.node)
    par = [v for v in d.defs.get("parity", []) if isinstance(v, ast.AST)]
    import copy

    class T(ast.NodeTransformer):
        def visit_Call(self, node):
            if (dotted(node.func) or "").split(".")[-1] == "check_parity_of_vector":
                return ast.Name(id="P", ctx=ast.Load())
            return node

    got = poly(T().visit(copy.deepcopy(par[0]))) if len(par) == 1 else None
    want = p_add(p_mul(p_const(2), p_atom("P")), p_const(1), -1)
    ctx.check(poly_eq(got, want), R4, fi.key + ":sign", "eigenvalue = 2*even - 1 (even parity -> +1, odd -> -1)", f"the +/-1 eigenvalue is computed as {show(got)} from the even-parity indicator; it must be 2p - 1", fi)
    nm = [v for v in d.defs.get("num_measurements", []) if isinstance(v, ast.AST)]
    ctx.check(len(nm) == 1 and norm(nm[0]) == f"sum({fr}.values())", R4, fi.key + ":total", "total = sum of all counts", f"the total number of shots is {short(nm[0]) if nm else '?'}", fi)
    # mean = sum_i count_i * eigenvalue_i / total. Expand the returned expression through the function's single definitions,
    # see it as a polynomial (the summation and .item()/float() are linear, hence transparent) and note whether the division
    # by the total happens inside the summation (once per outcome) or once on the summed integer
    rets = returned_exprs(fi.node)
    ok = False
    inside = None
    if len(rets) == 1:
        def expand(e, depth=0):
            if depth > 8:
                return e
            if isinstance(e, ast.Name) and e.id not in ("parity", "num_measurements"):
                ds = [v for v in d.defs.get(e.id, []) if isinstance(v, ast.AST)]
                if len(ds) == 1:
                    return expand(copy.deepcopy(ds[0]), depth + 1)
            for f, v in ast.iter_fields(e):
                if isinstance(v, ast.AST):
                    setattr(e, f, expand(v, depth + 1))
                elif isinstance(v, list):
                    setattr(e, f, [expand(x, depth + 1) if isinstance(x, ast.AST) else x for x in v])
            return e

        full = expand(copy.deepcopy(rets[0]))
        sums = []

        class U(ast.NodeTransformer):
            def visit_Call(self, node):
                self.generic_visit(node)
                last = (dotted(node.func) or "").split(".")[-1] if dotted(node.func) else (node.func.attr if isinstance(node.func, ast.Attribute) else "")
                if last == "fromiter" and node.args and norm(node.args[0]) == f"{fr}.values()":
                    return ast.Name(id="COUNTS", ctx=ast.Load())
                if last in ("item", "sum") and isinstance(node.func, ast.Attribute) and not node.args and not (dotted(node.func) or "").startswith(("np.", "numpy.")):
                    if last == "sum":
                        sums.append(node.func.value)
                    return node.func.value
                if last in ("float", "int") and len(node.args) == 1 and last == "float":
                    return node.args[0]
                if last == "sum" and len(node.args) == 1:
                    sums.append(node.args[0])
                    return node.args[0]
                if last in ("dot", "vdot", "inner") and len(node.args) == 2:
                    prod = ast.BinOp(left=node.args[0], op=ast.Mult(), right=node.args[1])
                    sums.append(prod)
                    return prod
                return node

        stripped = U().visit(full)
        got = poly(stripped)
        ok = poly_eq(got, p_mul(p_mul(p_atom("COUNTS"), p_atom("parity")), {((("num_measurements", -1),)): 1}))
        if sums:
            inside = any(isinstance(n, ast.Name) and n.id == "num_measurements" for sm in sums for n in ast.walk(sm))
    ctx.check(ok, R4, fi.key + ":weights", "mean = sum over outcomes of count * eigenvalue / total", f"the returned mean {short(rets[0]) if rets else '?'} is not the sum over all distinct outcomes of count * eigenvalue / total", fi)
    if ok and inside is not None:
        ctx.check(not inside, R4, fi.key + ":single-division", "the signed counts are summed as integers and divided by the total once", "every outcome's count is divided by the total before summing: the rounding errors of the quotients add up, so even a constant term (all eigenvalues +1) does not average to exactly 1 and does not contribute exactly its coefficient (e.g. 9.999999999999998 for 10*I over six distinct outcomes)", fi)
    elif ok:
        ctx.undecided(R4, fi.key + ":single-division", "cannot locate the summation in the returned mean", fi)
    cp = repo.func(f"{PA}:check_parity_of_vector")
    ctx.analysed(cp)
    rets = returned_exprs(cp.node)
    ok_even = False
    for r in rets:
        if isinstance(r, ast.BinOp) and isinstance(r.op, ast.Mod) and norm(r.right) == "2" and isinstance(r.left, ast.BinOp) and isinstance(r.left.op, ast.Add) and norm(r.left.right) == "1" and "sum(axis=1)" in norm(r.left.left):
            ok_even = True
    ctx.check(ok_even, R4, cp.key + ":indicator", "indicator = (number of ones + 1) % 2: 1 for even parity", "check_parity_of_vector no longer returns 1 exactly when an even number of the marked bits are 1", cp)
    empties = [s for s in cp.node.body if isinstance(s, ast.If) and norm(s.test) in ("not marked_qubits", "len(marked_qubits) == 0")]
    ok = bool(empties) and any(isinstance(x, ast.Return) and "ones" in norm(x.value) for x in empties[0].body)
    ctx.check(ok, R4, cp.key + ":empty-support", "no marked qubits (constant term) counts as even parity for every outcome", "a term without qubits is not treated as even parity (a constant term must contribute exactly its coefficient)", cp)


def check_counts(ctx):
    repo = ctx.repo
    gc = repo.func(f"{MS}:Measurements.get_counts")
    ctx.analysed(gc)
    rets = returned_exprs(gc.node)
    d = Defs(gc.node)
    ok = len(rets) == 1 and isinstance(rets[0], ast.Call) and norm(rets[0].func) == "dict" and isinstance(rets[0].args[0], ast.Call) and dotted(rets[0].args[0].func) == "Counter"
    if ok:
        arg = rets[0].args[0].args[0]
        dedup = any(isinstance(x, ast.Call) and (dotted(x.func) or "").split(".")[-1] in ("set", "frozenset", "unique", "fromkeys") for x in body_walk(gc.node))
        ok = "self.bitstrings" in d.atoms(arg) and not dedup and not any(isinstance(x, (ast.ListComp, ast.GeneratorExp)) and x.generators[0].ifs for v in d.defs.get(norm(arg), []) if isinstance(v, ast.AST) for x in ast.walk(v))
    ctx.check(ok, R5, gc.key, "histogram = Counter over every stored shot", "get_counts is not a plain Counter over all stored shots", gc)
    ac = repo.func(f"{MS}:Measurements.add_counts")
    ctx.analysed(ac)
    p = positional_params(ac.node)[1]
    loops = [l for l in ac.node.body if isinstance(l, ast.For)]
    ok = False
    if len(loops) == 1 and norm(loops[0].iter) in (f"{p}.keys()", p, f"{p}.items()"):
        k = norm(loops[0].target.elts[0] if isinstance(loops[0].target, ast.Tuple) else loops[0].target)
        mult = [s for s in loops[0].body if isinstance(s, ast.AugAssign) and norm(s.target) == "self.bitstrings" and isinstance(s.value, ast.BinOp) and isinstance(s.value.op, ast.Mult)]
        if len(mult) == 1:
            m = mult[0].value.right if isinstance(mult[0].value.left, ast.List) else mult[0].value.left
            ok = norm(m) in (f"{p}[{k}]",) or (isinstance(loops[0].target, ast.Tuple) and norm(m) == norm(loops[0].target.elts[1]))
    ctx.check(ok, R5, ac.key, "each outcome is appended exactly count-many times, for every key", "add_counts does not append each outcome as many times as its own count", ac)
    gd = repo.func(f"{MS}:Measurements.get_distribution")
    ctx.analysed(gd)
    d = Defs(gd.node)
    stores = [s for s in body_walk(gd.node) if isinstance(s, ast.Assign) and isinstance(s.targets[0], ast.Subscript)]
    nm = [v for v in d.defs.get("num_measurements", []) if isinstance(v, ast.AST)]
    ok = len(stores) == 1 and len(nm) == 1 and norm(nm[0]) == "len(self.bitstrings)" and isinstance(stores[0].value, ast.BinOp) and isinstance(stores[0].value.op, ast.Div) and norm(stores[0].value.right) == "num_measurements" and norm(stores[0].value.left) == f"counts[{norm(stores[0].targets[0].slice)}]"
    ctx.check(ok, R5, gd.key, "probability = count / number of shots for every outcome", "the empirical distribution is not count / number of shots", gd)
    fc = repo.func(f"{MS}:Measurements.from_counts")
    ctx.analysed(fc)
    ok = len(find_calls_named(fc.node, ["add_counts"])) == 1 and norm(find_calls_named(fc.node, ["add_counts"])[0].args[0]) == positional_params(fc.node)[1]
    ctx.check(ok, R5, fc.key, "from_counts = empty object + add_counts(counts)", "from_counts does not build the object by adding exactly the given counts", fc)


def check_parities(ctx):
    repo = ctx.repo
    fi = repo.func(f"{PA}:get_parities_from_measurements")
    ctx.analysed(fi)
    meas, op = positional_params(fi.node)[:2]
    d = Defs(fi.node)
    cfg = cfg_of(fi.node)
    guards = [g for g in cfg.nodes if g.kind == "test" and isinstance(g.ast, ast.If) and branch_raises(cfg, g, "true") and norm(g.ast.test) == f"not {op}.is_ising"]
    loops = [l for l in fi.node.body if isinstance(l, ast.For)]
    ok = bool(guards) and bool(loops) and all(cfg.dominates(guards[0], cfg.node_of(l)) for l in loops)
    ctx.check(ok, R3, fi.key, "non-Ising operators are rejected before tallying", "the is_ising rejection does not dominate the tallies", fi)
    # outcomes and multiplicities from the same Counter, un-reordered
    counters = [nm for nm, vs in d.defs.items() if any(isinstance(v, ast.Call) and dotted(v.func) in ("Counter", "collections.Counter") and v.args and norm(v.args[0]) == meas for v in vs)]
    vec_defs = [v for v in d.defs.get("bitstrings_vector", []) if isinstance(v, ast.AST)]
    cnt_defs = [v for v in d.defs.get("bitstring_counts", []) if isinstance(v, ast.AST)]
    ok = False
    detail = "outcome matrix / count vector not found"
    if len(counters) == 1 and len(vec_defs) == 1 and len(cnt_defs) == 1:
        c = counters[0]
        vt, ct = norm(vec_defs[0]), norm(cnt_defs[0])
        reorder = [x for v in (vec_defs[0], cnt_defs[0]) for x in ast.walk(v) if isinstance(x, ast.Call) and (dotted(x.func) or "").split(".")[-1] in REORDERING]
        ok = f"{c}.keys()" in vt and f"{c}.values()" in ct and not reorder and count_reversals(vec_defs[0]) + count_reversals(cnt_defs[0]) == 0
        detail = f"outcomes are {short(vec_defs[0])} and multiplicities {short(cnt_defs[0])}: " + (f"`{short(reorder[0])}` re-orders one of them, so rows and counts no longer correspond" if reorder else "they must be the keys() and values() of one Counter over the measurements")
    ctx.check(ok, R6, fi.key + ":alignment", "distinct outcomes and their multiplicities are the keys and values of one Counter", detail, fi)
    # per-term tallies
    tl = [l for l in loops if "terms" in norm(l.iter) and not any(isinstance(x, ast.For) for s in l.body for x in ast.walk(s))]
    ok = False
    found_tt = False
    if len(tl) == 1:
        l = tl[0]
        t = norm(l.target.elts[1]) if isinstance(l.target, ast.Tuple) else norm(l.target)
        body = {norm(s.targets[0] if isinstance(s, ast.Assign) else s.target): s.value for s in l.body if isinstance(s, (ast.Assign, ast.AnnAssign)) and s.value is not None}
        pcall = next((v for v in body.values() if isinstance(v, ast.Call) and dotted(v.func) == "check_parity_of_vector"), None)
        pname = next((k for k, v in body.items() if v is pcall), None)
        apps = [c for s in l.body for c in ast.walk(s) if isinstance(c, ast.Call) and isinstance(c.func, ast.Attribute) and c.func.attr == "append"]
        if pcall is not None and len(apps) == 1 and isinstance(apps[0].args[0], (ast.List, ast.Tuple)) and len(apps[0].args[0].elts) == 2:
            even, odd = apps[0].args[0].elts
            found_tt = True
            ev = body.get(norm(even), even)
            od = body.get(norm(odd), odd)
            ok = norm(pcall.args[0]) == "bitstrings_vector" and norm(pcall.args[1]) == f"{t}.qubits" and norm(ev) == f"({pname} * bitstring_counts).sum()" and norm(od) == f"((1 - {pname}) * bitstring_counts).sum()" and not any(isinstance(x, (ast.Continue, ast.Break)) for x in ast.walk(l))
    if not found_tt:
        # no single loop over the terms that calls check_parity_of_vector and appends one [even, odd] pair: another shape (hoisted parities,
        # a helper), about which this rule says nothing -- construct lost, not a decided violation
        ctx.undecided(R6, fi.key + ":term-tallies", "cannot find the loop over the terms that appends one [even, odd] pair computed from check_parity_of_vector", fi)
    else:
      ctx.check(ok, R6, fi.key + ":term-tallies", "[even, odd] = [(p * counts).sum(), ((1 - p) * counts).sum()] on the term's own qubits, for every term", "per-term tallies are not [shots with even parity, shots with odd parity] on the term's own qubits", fi)
    # pair tallies
    pl = [l for l in loops if any(isinstance(x, ast.For) for s in l.body for x in ast.walk(s))]
    ok = False
    found_pt = False
    if len(pl) == 1 and isinstance(pl[0].target, ast.Tuple):
        i1, t1 = (norm(x) for x in pl[0].target.elts)
        il = [x for x in pl[0].body if isinstance(x, ast.For)]
        if len(il) == 1 and isinstance(il[0].target, ast.Tuple) and norm(il[0].iter) == norm(pl[0].iter) == f"enumerate({op}.terms)":
            i2, t2 = (norm(x) for x in il[0].target.elts)
            body = {norm(s.targets[0]): s.value for s in il[0].body if isinstance(s, ast.Assign)}
            pn = {k: v for k, v in body.items() if isinstance(v, ast.Call) and dotted(v.func) == "check_parity_of_vector"}
            by_term = {norm(v.args[1]): k for k, v in pn.items()}
            found_pt = bool(pn)
            eqn = next((k for k, v in body.items() if norm(v) in (f"np.abs({by_term.get(t1 + '.qubits')} - {by_term.get(t2 + '.qubits')})", f"np.abs({by_term.get(t2 + '.qubits')} - {by_term.get(t1 + '.qubits')})")), None)
            augs = [s for s in il[0].body if isinstance(s, ast.AugAssign) and isinstance(s.op, ast.Add)]
            slots = {}
            for s in augs:
                tt = norm(s.target)
                for slot in ("0", "1"):
                    if tt.endswith(f"[{i1}, {i2}][{slot}]") or tt.endswith(f"[{i1}, {i2}, {slot}]"):
                        slots[slot] = norm(s.value)
            ok = eqn is not None and slots.get("0") == f"((1 - {eqn}) * bitstring_counts).sum()" and slots.get("1") in (f"({eqn} * bitstring_counts).sum()", f"(({eqn}) * bitstring_counts).sum()")
    if not found_pt:
        ctx.undecided(R6, fi.key + ":pair-tallies", "cannot find the nested loops over enumerate(terms) that compute both parities with check_parity_of_vector in the inner body", fi)
    else:
      ctx.check(ok, R6, fi.key + ":pair-tallies", "slot 0 counts shots where the two parities agree (even product), slot 1 where they differ, for every ordered pair", "pairwise tallies are not [agreeing, differing] parities indexed by the pair's own positions", fi)
    rets = returned_exprs(fi.node)
    ok = len(rets) == 1 and isinstance(rets[0], ast.Call) and dotted(rets[0].func) == "Parities" and norm(rets[0].args[0]) in ("np.array(values)", "values")
    ctx.check(ok, R6, fi.key + ":result", "Parities(values, correlations)", "the tallies are not returned as Parities(values, correlations)", fi)


def check_parity_arguments(ctx):
    """The parity of a *product* of two terms is the XOR of the two terms' parities: qubits both terms act on cancel. A caller that asks
    check_parity_of_vector for the parity on several terms' qubits at once (concatenated, or their union) gets that only if shared
    qubits are counted twice -- which is a property of the helper's column selection, not of the call; only the symmetric difference of
    the supports is right by itself. Absence rule: silent on calls whose qubit argument mentions at most one term's `.qubits`."""
    repo = ctx.repo
    n = 0
    for key in (f"{PA}:get_parities_from_measurements", f"{MS}:Measurements.get_expectation_values", f"{MS}:get_expectation_value_from_frequencies"):
        fi = repo.func(key)
        ctx.analysed(fi)
        for c in body_walk(fi.node):
            if isinstance(c, ast.Call) and (dotted(c.func) or "").split(".")[-1] == "check_parity_of_vector" and len(c.args) >= 2:
                n += 1
                a = c.args[1]
                supports = {norm(x) for x in ast.walk(a) if isinstance(x, ast.Attribute) and x.attr == "qubits"}
                symdiff = (isinstance(a, ast.BinOp) and isinstance(a.op, ast.BitXor)) or any(isinstance(x, ast.Call) and isinstance(x.func, ast.Attribute) and x.func.attr == "symmetric_difference" for x in ast.walk(a))
                if len(supports) >= 2 and not symdiff:
                    ctx.violation(R6, f"{fi.key}:parity-of-several-supports", f"`{short(c, 100)}` asks for one parity over the qubits of several terms ({', '.join(sorted(supports))}) put together: qubits the terms share must cancel (Z*Z = I), which a concatenation or union of the supports does not express -- for overlapping terms the pair tallies count the parity of the union of the qubits instead of the product's", f"{fi.module.relpath}:{c.lineno}")
    ctx.ok(R6, "artefacts:parity-arguments", f"{n} check_parity_of_vector call(s) examined: each asks for the parity on one term's own qubits (or a symmetric difference)", "")


def check_purity(ctx):
    from .c20 import effects_for, mutation_obligations

    repo = ctx.repo
    eff = effects_for(ctx)
    ci = repo.cls(f"{MS}:Measurements")
    funcs = [ci.methods[m] for m in ("get_counts", "get_distribution", "get_expectation_values", "save") if m in ci.methods]
    funcs += [repo.func(f"{MS}:get_expectation_value_from_frequencies"), repo.func(f"{MS}:_convert_bitstrings_to_vector"), repo.func(f"{PA}:get_parities_from_measurements"), repo.func(f"{PA}:check_parity_of_vector"), repo.func(f"{PA}:check_parity")]
    mutation_obligations(ctx, R7, funcs, eff)
    ctx.externals |= eff.externals_seen


R8 = "C10-D8 ising-classifier"


def check_ising_classifier(ctx):
    """Which operators the statistics accept: a term is Z-type when every factor it has is Z -- a constant term has no factor and
    qualifies --, a sum when all of its terms are. Writing the test as `set(factors) == {"Z"}` instead of "subset of" rejects
    constants, constant-only sums and the empty sum, for which the property promises "exactly its coefficient"."""
    repo = ctx.repo
    for cname in ("PauliTerm", "PauliSum"):
        f = repo.func(f"operators._pauli_operators:{cname}.is_ising")
        ctx.analysed(f)
        d = Defs(f.node)
        cands = [r for r in returned_exprs(f.node)]
        vals = []
        for r in cands:
            if isinstance(r, ast.Attribute) and isinstance(r.value, ast.Name) and r.value.id == "self":
                vals += [st.value for st in body_walk(f.node) if isinstance(st, ast.Assign) and norm(st.targets[0]) == norm(r)]
            elif isinstance(r, ast.Name):
                vals += [v for v in d.defs.get(r.id, []) if isinstance(v, ast.AST)]
            else:
                vals.append(r)
        if not vals:
            ctx.undecided(R8, f.key, "cannot find the value is_ising computes", f)
            continue
        for v in vals:
            where = f"{f.module.relpath}:{v.lineno}"
            arms = v.values if isinstance(v, ast.BoolOp) and isinstance(v.op, ast.Or) else [v]
            has_const_arm = any(norm(a) in ("self.is_constant", "not self._ops", "len(self._ops) == 0") for a in arms)
            eq_sets = [a for a in arms if isinstance(a, ast.Compare) and len(a.ops) == 1 and isinstance(a.ops[0], ast.Eq) and any(isinstance(x, ast.Set) and [norm(e) for e in x.elts] == ["'Z'"] for x in (a.left, a.comparators[0]))]
            sub_sets = [a for a in arms if (isinstance(a, ast.Compare) and len(a.ops) == 1 and isinstance(a.ops[0], ast.LtE) and isinstance(a.comparators[0], ast.Set)) or (isinstance(a, ast.Call) and isinstance(a.func, ast.Attribute) and a.func.attr == "issubset")]
            alls = [a for a in arms if isinstance(a, ast.Call) and dotted(a.func) == "all" and a.args]
            if eq_sets and not has_const_arm:
                ctx.violation(R8, f.key, f"{cname}.is_ising is `{short(v, 90)}`: a set *equality* with {{'Z'}} is false for an operator without any non-identity factor, so constant terms / constant-only sums / the empty sum are refused (TypeError) by the expectation-value and parity routines instead of contributing exactly their coefficient", where)
            elif eq_sets or sub_sets:
                ctx.ok(R8, f.key, "every factor is Z (constants qualify)", where)
            elif alls and cname == "PauliSum":
                g = alls[0].args[0]
                okg = isinstance(g, (ast.ListComp, ast.GeneratorExp)) and len(g.generators) == 1 and norm(g.generators[0].iter) in ("self.terms", "self") and not g.generators[0].ifs and norm(g.elt) == f"{norm(g.generators[0].target)}.is_ising"
                ctx.check(okg, R8, f.key, "a sum is Z-type iff all of its terms are", f"PauliSum.is_ising is {short(v, 90)}: not `all(term.is_ising for term in self.terms)`", where)
            elif alls:
                ctx.ok(R8, f.key, "all(...) over the term's factors", where)
            else:
                ctx.undecided(R8, f.key, f"unrecognised Z-type test {short(v, 90)}", where)


def run(ctx):
    from . import c03 as _c03

    _c03.check_is_constant(ctx, "C10-D8 ising-classifier")
    check_ising_classifier(ctx)
    ctx.floor("C10-D8", 2)
    from ..lints import check_caches

    check_caches(ctx, "C10-D7 caches", ['measurements.measurements', 'measurements.parities', 'measurements.expectation_values', 'utils'])
    check_positions_not_by_equality(ctx)
    check_expectation_values(ctx)
    check_frequencies(ctx)
    check_counts(ctx)
    check_parities(ctx)
    check_parity_arguments(ctx)
    check_purity(ctx)
    ctx.floor("C10-D1", 6)
    ctx.floor("C10-D2", 4)
    ctx.floor("C10-D3", 2)
    ctx.floor("C10-D4", 7)
    ctx.floor("C10-D5", 4)
    ctx.floor("C10-D6", 4)
    ctx.floor("C10-D7", 6)
