"""C09 — operator-to-matrix conversions agree with the operator's definition."""
from __future__ import annotations

import ast
from typing import Dict, List, Optional, Tuple

from ..astutil import arg_or_kw, body_walk, const_value, dotted, kwarg, norm, positional_params, short, walk_local
from ..cfg import branch_raises, cfg_of
from ..common import exit_exprs, find_calls_named, returned_exprs
from ..flow import Defs
from ..linform import p_add, p_atom, p_const, poly, poly_eq, show
from ..orient import count_reversals

EXPLANATION = (
    "Structural necessary conditions: (D1) reverse_qubit_order maps qubit q to the linear form n-1-q (an involution "
    "for fixed n), n defaults to the operator's width, the n < width rejection dominates the loop, operator letters "
    "and coefficients are carried unchanged; (D2) hermitian_conjugated conjugates the coefficient and keeps the "
    "operators on the sum and on the term branch alike, uses a conjugate-transpose idiom on the matrix branches, and "
    "is_hermitian compares the operator with exactly that; (D3) get_sparse_operator: type and width guards dominate "
    "all work; the hilbert dimension is 2**n_qubits; identity padding for skipped qubits has size qubit - cursor, the "
    "cursor advances to qubit+1, trailing padding n_qubits - cursor is inserted when the cursor is short of n_qubits "
    "*or the term is constant*; the coefficient enters the Kronecker chain exactly once; every term contributes "
    "(values, rows, columns) in the same order; the empty sum returns the zero matrix of that dimension; nothing "
    "obtained from the shared Pauli matrices is modified in place; (D4) get_expectation_value derives the width from "
    "the state, passes it to both the optional reversal and the sparse builder, and the expectation is "
    "conj(state) . (operator * state); (D5) Pauli expansion: the phase table in trace_product equals the non-zero "
    "entries of X, Y, Z column by column (derived by the checker from the 2x2 matrices), X and Y flip the bit, the "
    "trace sums operator[j][f(j)] * nz(j) over all columns without conjugation and divides by 2**n, label k of "
    "position i becomes letter k on qubit i, and bin2dec/dec2bin are both most-significant-first. "
    "(D4t) the density-matrix expectation is the trace of the matrix product (an element-wise product is tr(rho O^T)); (D6) the conversions keep no state: no cache on the operand object, no module-level cache."
    ' Round 4: no matrix is widened by an identity factor on the left in the expectation path.'
    ' Round 5: every exit of get_expectation_value is the quadratic form with the sparse matrix; term hashes are not finer than term equality (C03-D6); no unsound functools cache.'
    " Round 6: the expansion's coefficients are handed on as computed by the normalised trace (no projection to the real part, rounding or clipping) (D5)."
    ' Round 7: no exit of is_hermitian answers with a literal (D2).'
)
RULE_TEXT = "instances = branches of the five anchored functions, table entries of the phase/flip/letter tables, padding linear forms, guard dominance sites; distinct by (rule, construct)"
ASSUMPTIONS = [
    "declined: that the assembled COO matrix equals the tensor-product definition entry by entry (relies on scipy's nonzero()/tocoo ordering for monomial matrices), the numerical Pauli-expansion round trip, the quadratic form's value",
    "scipy.sparse.kron, identity, getH and numpy dot/conjugate have their documented meaning",
]

SP = "operators._openfermion_utils.sparse_tools"
OPU = "operators._openfermion_utils.operator_utils"
OU = "operators._utils"
UT = "utils"
R1 = "C09-D1 reverse-qubit-order"
R2 = "C09-D2 hermitian-conjugate"
R3 = "C09-D3 sparse-operator"
R4 = "C09-D4 expectation"
R5 = "C09-D5 pauli-expansion"

ADJOINT_IDIOMS = {"{x}.getH()", "{x}.T.conj()", "{x}.T.conjugate()", "{x}.conj().T", "{x}.conjugate().T", "{x}.H", "{x}.conj().transpose()", "{x}.transpose().conj()", "{x}.transpose().conjugate()", "{x}.conjugate().transpose()", "numpy.conjugate({x}.T)", "np.conjugate({x}.T)", "numpy.conj({x}.T)", "np.conj({x}.T)", "{x}.adjoint()"}


def _width_guarded(cfg, guards, n: str, op: str, target) -> bool:
    """Every path from the entry to `target` passes a rejecting width guard or the statement `n = op.n_qubits` (after which n cannot be
    narrower than the operator), and n is not re-bound otherwise. Plain dominance of the guard is the special case without a default."""
    safe = {g.id for g in guards}
    for x in cfg.nodes:
        if isinstance(x.ast, ast.Assign) and len(x.ast.targets) == 1 and norm(x.ast.targets[0]) == n and norm(x.ast.value) == f"{op}.n_qubits":
            safe.add(x.id)
    rebinds = [x for x in cfg.nodes if isinstance(x.ast, (ast.Assign, ast.AugAssign)) and x.id not in safe and any(norm(t) == n for t in (x.ast.targets if isinstance(x.ast, ast.Assign) else [x.ast.target]))]
    if not guards or rebinds or target is None:
        return False
    seen, stack = set(), [cfg.entry]
    while stack:
        y = stack.pop()
        if y.id in seen or y.id in safe:
            continue
        seen.add(y.id)
        if y is target:
            return False
        stack.extend(z for z, _ in y.succ)
    return True


def check_reverse(ctx):
    repo = ctx.repo
    fi = repo.func(f"{OU}:reverse_qubit_order")
    ctx.analysed(fi)
    op, n = positional_params(fi.node)[:2]
    d = Defs(fi.node)
    cfg = cfg_of(fi.node)
    # default and guard
    dflt = [s for s in body_walk(fi.node) if isinstance(s, ast.If) and norm(s.test) == f"{n} is None" and any(isinstance(x, ast.Assign) and norm(x.targets[0]) == n and norm(x.value) == f"{op}.n_qubits" for x in s.body)]
    ctx.check(bool(dflt), R1, fi.key + ":default-width", "n defaults to the operator's own width", "the register width does not default to the operator's width", fi)
    guards = [g for g in cfg.nodes if g.kind == "test" and isinstance(g.ast, ast.If) and branch_raises(cfg, g, "true") and norm(g.ast.test) in (f"{n} < {op}.n_qubits", f"{op}.n_qubits > {n}")]
    loops = [l for l in body_walk(fi.node) if isinstance(l, ast.For) and "terms" in norm(l.iter)]
    # every path from the entry to the re-indexing loop passes the rejecting guard, or the statement that sets n to the operator's own width
    # (after which n cannot be narrower); plain dominance of the guard is the special case with no such default path
    safe = {g.id for g in guards}
    for x in cfg.nodes:
        if isinstance(x.ast, ast.Assign) and len(x.ast.targets) == 1 and norm(x.ast.targets[0]) == n and norm(x.ast.value) == f"{op}.n_qubits":
            safe.add(x.id)
    later_rebinds = [x for x in cfg.nodes if isinstance(x.ast, (ast.Assign, ast.AugAssign)) and x.id not in safe and any(norm(t) == n for t in (x.ast.targets if isinstance(x.ast, ast.Assign) else [x.ast.target]))]

    def _reaches_unguarded(target):
        seen, stack = set(), [cfg.entry]
        while stack:
            y = stack.pop()
            if y.id in seen or y.id in safe:
                continue
            seen.add(y.id)
            if y is target:
                return True
            stack.extend(z for z, _ in y.succ)
        return False

    ok = bool(guards) and bool(loops) and not later_rebinds and all(not _reaches_unguarded(cfg.node_of(l)) for l in loops if cfg.node_of(l) is not None)
    ctx.check(ok, R1, fi.key + ":width-guard", "n < operator width is rejected before any term is re-indexed", "a register narrower than the operator is not rejected before re-indexing (indices would go negative)", fi)
    # index map
    maps = []
    for l in loops:
        for inner in ast.walk(l):
            if isinstance(inner, ast.For) and "operations" in norm(inner.iter) and isinstance(inner.target, ast.Tuple) and len(inner.target.elts) == 2:
                q, letter = (norm(x) for x in inner.target.elts)
                for s in ast.walk(inner):
                    if isinstance(s, ast.Assign) and isinstance(s.targets[0], ast.Subscript):
                        maps.append((l, inner, q, letter, s))
    if not maps:
        # the same map as a dictionary comprehension: {<index>: <letter> for q, letter in term.operations}
        for l in loops:
            for st in ast.walk(l):
                if isinstance(st, ast.Assign) and len(st.targets) == 1 and isinstance(st.targets[0], ast.Name) and isinstance(st.value, ast.DictComp) and len(st.value.generators) == 1:
                    g = st.value.generators[0]
                    if "operations" in norm(g.iter) and isinstance(g.target, ast.Tuple) and len(g.target.elts) == 2 and not g.ifs:
                        q, letter = (norm(x) for x in g.target.elts)
                        fake = ast.Assign(targets=[ast.Subscript(value=st.targets[0], slice=st.value.key, ctx=ast.Store())], value=st.value.value)
                        ast.copy_location(fake, st)
                        ast.fix_missing_locations(fake)
                        maps.append((l, g, q, letter, fake))
    if len(maps) != 1:
        ctx.undecided(R1, fi.key + ":index-map", f"expected one `new_term[<index>] = <letter>` store in the operations loop, found {len(maps)}", fi)
        return
    l, inner, q, letter, store = maps[0]

    def resolve(name_node):
        if name_node.id in (q, n):
            return None
        ds = [x for x in d.defs.get(name_node.id, []) if isinstance(x, ast.AST)]
        return ds[0] if len(ds) == 1 else None

    got = poly(store.targets[0].slice, resolve)
    want = p_add(p_add(p_atom(n), p_const(1), -1), p_atom(q), -1)
    ctx.check(poly_eq(got, want), R1, fi.key + ":index-map", f"new index = {n} - 1 - q", f"qubit q is re-indexed to {show(got)}; the bit-reversal (and its own inverse) is {show(want)}", f"{fi.module.relpath}:{store.lineno}")
    ctx.check(norm(store.value) == letter, R1, fi.key + ":letters", "operator letters are carried unchanged", f"the letter stored for the new index is {short(store.value)}, not the original operator", f"{fi.module.relpath}:{store.lineno}")
    term = norm(l.target)
    built = [c for c in ast.walk(l) if isinstance(c, ast.Call) and dotted(c.func) == "PauliTerm"]
    ok = len(built) == 1 and norm(arg_or_kw(built[0], 1, "coefficient")) == f"{term}.coefficient" and norm(arg_or_kw(built[0], 0, "operator")) == norm(store.targets[0].value)
    ctx.check(ok, R1, fi.key + ":coefficient", "each re-indexed term keeps its coefficient", "the re-indexed term is not rebuilt from the new index map and the original coefficient", fi)
    acc = [s for s in ast.walk(l) if isinstance(s, ast.AugAssign) and isinstance(s.op, ast.Add)]
    rets = returned_exprs(fi.node)
    # the accumulation is a statement of the loop body itself: not under a condition (CANON turns `if c: continue` into `if not c: ...`)
    ok = len(acc) == 1 and len(rets) == 1 and norm(rets[0]) == norm(acc[0].target) and not any(isinstance(x, (ast.Continue, ast.Break)) for x in ast.walk(l)) and any(x is acc[0] for x in l.body)
    ctx.check(ok, R1, fi.key + ":all-terms", "every term is re-indexed and summed", "some terms are skipped or the accumulated sum is not what is returned", fi)


def check_hermitian(ctx):
    repo = ctx.repo
    fi = repo.func(f"{OPU}:hermitian_conjugated")
    ctx.analysed(fi)
    p = positional_params(fi.node)[0]
    branches: Dict[str, List[ast.stmt]] = {}
    node = next((s for s in fi.node.body if isinstance(s, ast.If)), None)
    while isinstance(node, ast.If):
        t = norm(node.test)
        for kind in ("PauliSum", "PauliTerm", "spmatrix", "ndarray"):
            if f"isinstance({p}, {kind})" in t or f"isinstance({p}, numpy.{kind})" in t or f"isinstance({p}, np.{kind})" in t:
                branches[kind] = node.body
        node = node.orelse[0] if len(node.orelse) == 1 and isinstance(node.orelse[0], ast.If) else None
    for kind in ("PauliSum", "PauliTerm", "spmatrix", "ndarray"):
        if kind not in branches:
            ctx.undecided(R2, fi.key + f":{kind}", f"no branch for {kind}", fi)
    # term branch
    def conj_copy_ok(call: ast.AST, holder: str) -> bool:
        return isinstance(call, ast.Call) and norm(call.func) == f"{holder}.copy" and norm(arg_or_kw(call, 0, "new_coefficient")) in (f"{holder}.coefficient.conjugate()", f"numpy.conjugate({holder}.coefficient)", f"np.conjugate({holder}.coefficient)", f"numpy.conj({holder}.coefficient)", f"np.conj({holder}.coefficient)")

    if "PauliTerm" in branches:
        vals = [s.value for s in branches["PauliTerm"] if isinstance(s, (ast.Assign, ast.Return)) and s.value is not None]
        ok = len(vals) == 1 and conj_copy_ok(vals[0], p)
        ctx.check(ok, R2, fi.key + ":PauliTerm", "copy of the term with the conjugated coefficient", f"term branch builds {short(vals[0]) if vals else '<nothing>'}: not the same operators with the complex-conjugated coefficient", fi)
    if "PauliSum" in branches:
        loops = [s for s in branches["PauliSum"] if isinstance(s, ast.For)]
        ok = False
        detail = "no loop over the terms"
        if len(loops) == 1 and norm(loops[0].iter) == f"{p}.terms":
            t = norm(loops[0].target)
            adds = [s for s in loops[0].body if isinstance(s, ast.AugAssign) and isinstance(s.op, ast.Add)]
            ok = len(adds) == 1 and len(loops[0].body) == 1 and conj_copy_ok(adds[0].value, t)
            detail = f"per-term contribution {short(adds[0].value) if adds else '<none>'}"
        else:
            comps = [c for s in branches["PauliSum"] for c in ast.walk(s) if isinstance(c, (ast.ListComp, ast.GeneratorExp))]
            if len(comps) == 1 and norm(comps[0].generators[0].iter) == f"{p}.terms" and not comps[0].generators[0].ifs:
                ok = conj_copy_ok(comps[0].elt, norm(comps[0].generators[0].target))
                detail = f"per-term contribution {short(comps[0].elt)}"
        ctx.check(ok, R2, fi.key + ":PauliSum", "every term copied with its coefficient conjugated", f"sum branch: {detail}: not every term with exactly its coefficient conjugated", fi)
    for kind in ("spmatrix", "ndarray"):
        if kind in branches:
            vals = [s.value for s in branches[kind] if isinstance(s, (ast.Assign, ast.Return)) and s.value is not None]
            ok = len(vals) == 1 and norm(vals[0]) in {i.format(x=p) for i in ADJOINT_IDIOMS}
            ctx.check(ok, R2, fi.key + f":{kind}", "conjugate transpose idiom", f"matrix branch computes {short(vals[0]) if vals else '<nothing>'}: a bare transpose or bare conjugate is not the Hermitian conjugate", fi)
    # unsupported -> raise
    cfg = cfg_of(fi.node)
    ih = repo.func(f"{OPU}:is_hermitian")
    ctx.analysed(ih)
    q = positional_params(ih.node)[0]
    rets = [r for r in returned_exprs(ih.node) if isinstance(r, ast.Compare) and len(r.ops) == 1 and isinstance(r.ops[0], ast.Eq)]
    ok = len(rets) == 1 and {norm(rets[0].left), norm(rets[0].comparators[0])} == {q, f"hermitian_conjugated({q})"}
    ctx.check(ok, R2, ih.key + ":operator", "operator == hermitian_conjugated(operator)", "is_hermitian does not compare the operator with its own Hermitian conjugate", ih)
    # every exit is a computed verdict: an exit answering with a literal True / False decides Hermiticity for a whole class of operands
    # without looking at the coefficients (a constant operator with a non-real coefficient is not Hermitian)
    from ..common import exit_exprs as _exits

    lit = [e for e in _exits(ih.node) if isinstance(e, ast.Constant) and isinstance(e.value, bool)]
    ctx.check(not lit, R2, ih.key + ":no-literal-verdict", "no exit of is_hermitian answers with a literal", f"is_hermitian has an exit that answers `{short(lit[0]) if lit else ''}` without comparing the operand with its conjugate: whatever class of operands the shortcut covers (constant operators, say) is declared Hermitian regardless of its coefficients -- 1j*I is not", f"{ih.module.relpath}:{lit[0].lineno}" if lit else ih)
    diffs = [s for s in body_walk(ih.node) if isinstance(s, ast.Assign) and norm(s.targets[0]) == "difference"]
    ok = bool(diffs) and all(norm(s.value) in (f"{q} - hermitian_conjugated({q})", f"hermitian_conjugated({q}) - {q}") for s in diffs)
    ctx.check(ok, R2, ih.key + ":matrix", "matrix branches measure operator - operator^dagger", "the matrix branches of is_hermitian do not measure the distance between the matrix and its conjugate transpose", ih)


def check_sparse(ctx):
    repo = ctx.repo
    fi = repo.func(f"{SP}:get_sparse_operator")
    ctx.analysed(fi)
    op, n = positional_params(fi.node)[:2]
    cfg = cfg_of(fi.node)
    d = Defs(fi.node)
    term_loops = [l for l in fi.node.body if isinstance(l, ast.For) and norm(l.iter) == f"{op}.terms"]
    if len(term_loops) != 1:
        ctx.undecided(R3, fi.key + ":term-loop", "cannot find the loop over operator.terms", fi)
        return
    tl = term_loops[0]
    tl_node = cfg.node_of(tl)
    type_guards = [g for g in cfg.nodes if g.kind == "test" and isinstance(g.ast, ast.If) and branch_raises(cfg, g, "true") and "isinstance" in norm(g.ast.test) and "PauliSum" in norm(g.ast.test) and "PauliTerm" in norm(g.ast.test)]
    width_guards = [g for g in cfg.nodes if g.kind == "test" and isinstance(g.ast, ast.If) and branch_raises(cfg, g, "true") and norm(g.ast.test) in (f"{n} < {op}.n_qubits", f"{op}.n_qubits > {n}")]
    ctx.check(bool(type_guards) and cfg.dominates(type_guards[0], tl_node), R3, fi.key + ":type-guard", "non-Pauli operands are rejected first", "the type check no longer precedes the conversion", fi)
    ctx.check(bool(width_guards) and (cfg.dominates(width_guards[0], tl_node) or _width_guarded(cfg, width_guards, n, op, tl_node)), R3, fi.key + ":width-guard", "n_qubits below the operator's width is rejected before building", "a register narrower than the operator is not rejected before the Kronecker chains are built", fi)
    dflt = [s for s in fi.node.body if isinstance(s, ast.If) and norm(s.test) == f"{n} is None" and any(isinstance(x, ast.Assign) and norm(x.targets[0]) == n and norm(x.value) == f"{op}.n_qubits" for x in s.body)]
    ctx.check(bool(dflt), R3, fi.key + ":default-width", "n_qubits defaults to the operator's width", "the register width does not default to the operator's width", fi)
    hil = [x for x in d.defs.get("n_hilbert", []) if isinstance(x, ast.AST)]
    ok = len(hil) == 1 and norm(hil[0]) in (f"2 ** {n}", f"1 << {n}")
    ctx.check(ok, R3, fi.key + ":dimension", "matrix dimension = 2**n_qubits", f"the Hilbert-space dimension is computed as {short(hil[0]) if hil else '?'}", fi)
    # inside the term loop
    term = norm(tl.target)
    inner = [l for l in tl.body if isinstance(l, ast.For) and "operations" in norm(l.iter)]
    if len(inner) != 1 or not isinstance(inner[0].target, ast.Tuple):
        ctx.undecided(R3, fi.key + ":operations-loop", "cannot find the loop over a term's operations", fi)
        return
    il = inner[0]
    q, letter = (norm(x) for x in il.target.elts)
    cursor_inits = [s for s in tl.body if isinstance(s, ast.Assign) and isinstance(s.value, ast.Constant) and s.value.value == 0 and isinstance(s.targets[0], ast.Name)]
    cursor = norm(cursor_inits[0].targets[0]) if cursor_inits else None
    if cursor is None:
        ctx.undecided(R3, fi.key + ":cursor", "cannot find the tensor-factor cursor initialised to 0 per term", fi)
        return

    def pad_size(stmts) -> Optional[ast.AST]:
        """exponent E of scipy.sparse.identity(2**E, ...) built in these statements"""
        for s in stmts:
            for c in ast.walk(s):
                if isinstance(c, ast.Call) and (dotted(c.func) or "").split(".")[-1] in ("identity", "eye") and c.args and isinstance(c.args[0], ast.BinOp) and isinstance(c.args[0].op, ast.Pow) and norm(c.args[0].left) == "2":
                    return c.args[0].right
        return None

    def local_resolve(stmts):
        m = {}
        for s in stmts:
            if isinstance(s, ast.Assign) and isinstance(s.targets[0], ast.Name):
                m[s.targets[0].id] = s.value

        def r(name_node):
            return m.get(name_node.id)

        return r

    gaps = [s for s in il.body if isinstance(s, ast.If)]
    ok_gap = False
    detail = "no padding branch for skipped qubits"
    if len(gaps) == 1:
        g = gaps[0]
        test_ok = norm(g.test) in (f"{q} > {cursor}", f"{cursor} < {q}")
        e = pad_size(g.body)
        got = poly(e, local_resolve(g.body)) if e is not None else None
        want = p_add(p_atom(q), p_atom(cursor), -1)
        ok_gap = test_ok and poly_eq(got, want)
        detail = f"gap test `{short(g.test)}`, identity on {show(got)} qubit(s); expected test {q} > {cursor} and size {show(want)}"
    ctx.check(ok_gap, R3, fi.key + ":gap-padding", "identity of size 2**(qubit - cursor) for skipped qubits", detail, f"{fi.module.relpath}:{il.lineno}")
    adv = [s for s in il.body if isinstance(s, ast.Assign) and norm(s.targets[0]) == cursor]
    got = poly(adv[0].value) if len(adv) == 1 else None
    ctx.check(poly_eq(got, p_add(p_atom(q), p_const(1))), R3, fi.key + ":cursor-advance", "cursor = qubit + 1 after placing an operator", f"after placing the operator of qubit q the cursor becomes {show(got)}, not q + 1", f"{fi.module.relpath}:{il.lineno}")
    look = [c for c in ast.walk(il) if isinstance(c, ast.Subscript) and norm(c.value) == "pauli_matrix_map"]
    ctx.check(len(look) == 1 and norm(look[0].slice) == letter, R3, fi.key + ":letter-lookup", "the operator's own letter selects the 2x2 matrix", "the 2x2 factor is not looked up by the operator's letter", fi)
    # trailing padding
    trailing = [s for s in tl.body if isinstance(s, ast.If) and s is not il]
    ok_tr = False
    detail = "no trailing identity padding"
    if len(trailing) == 1:
        t = trailing[0]
        disj = [norm(v) for v in t.test.values] if isinstance(t.test, ast.BoolOp) and isinstance(t.test.op, ast.Or) else [norm(t.test)]
        short_ok = any(x in (f"{cursor} < {n}", f"{n} > {cursor}") for x in disj)
        const_ok = any(x in (f"not {term}", f"{term}.is_constant", f"len({term}) == 0", f"not {term}.operations", f"{cursor} == 0") for x in disj)
        e = pad_size(t.body)
        got = poly(e, local_resolve(t.body)) if e is not None else None
        want = p_add(p_atom(n), p_atom(cursor), -1)
        ok_tr = short_ok and const_ok and poly_eq(got, want)
        detail = f"trailing test `{short(t.test)}` (cursor-short disjunct: {short_ok}, constant-term disjunct: {const_ok}), identity on {show(got)} qubit(s), expected {show(want)}"
    ctx.check(ok_tr, R3, fi.key + ":trailing-padding", "identity of size 2**(n_qubits - cursor) when the cursor is short of n_qubits or the term is constant", detail, fi)
    # the coefficient enters the chain exactly once
    chain_name = None
    for s in tl.body:
        if isinstance(s, ast.Assign) and isinstance(s.value, ast.List) and isinstance(s.targets[0], ast.Name) and any((isinstance(x, ast.AugAssign) and norm(x.target) == s.targets[0].id) or (isinstance(x, ast.Call) and isinstance(x.func, ast.Attribute) and x.func.attr in ("append", "extend") and norm(x.func.value) == s.targets[0].id) for x in ast.walk(tl)):
            chain_name = s.targets[0].id
            chain_init = s.value
    if chain_name is None:
        ctx.undecided(R3, fi.key + ":coefficient", "cannot find the per-term Kronecker factor list", fi)
        return
    coeff_names = {f"{term}.coefficient"} | {nm for nm, vs in d.defs.items() if any(isinstance(v, ast.AST) and norm(v) == f"{term}.coefficient" for v in vs)}
    uses = sum(1 for x in ast.walk(tl) if (isinstance(x, ast.Name) and x.id in coeff_names and isinstance(x.ctx, ast.Load)) or (isinstance(x, ast.Attribute) and norm(x) == f"{term}.coefficient" and not any(isinstance(v, ast.AST) and v is x for vs in d.defs.values() for v in vs)))
    in_chain = True
    ctx.check(in_chain and uses == 1, R3, fi.key + ":coefficient", "the term's coefficient scales its contribution exactly once", f"the coefficient is used {uses} time(s) in the term loop: each term must be scaled by its coefficient exactly once", fi)
    # nothing derived from the shared matrices is modified in place
    bad = []
    for x in ast.walk(fi.node):
        if isinstance(x, ast.AugAssign):
            tgt = x.target
            base = tgt
            while isinstance(base, (ast.Attribute, ast.Subscript)):
                base = base.value
            if isinstance(base, ast.Name):
                ds = d.defs.get(base.id, [])
                is_list_acc = any(isinstance(v, ast.List) for v in ds) and isinstance(tgt, ast.Name)
                is_int = any(isinstance(v, ast.Constant) and isinstance(v.value, (int, float)) for v in ds) and isinstance(tgt, ast.Name)
                if not is_list_acc and not is_int:
                    atoms = set()
                    for v in ds:
                        if v is not x.value:
                            atoms |= d.atoms(v)
                    if atoms & {"call:tocoo", "call:_kronecker_operators", "pauli_matrix_map", "call:kron", "call:nonzero"} or isinstance(tgt, (ast.Attribute, ast.Subscript)):
                        bad.append(x)
        if isinstance(x, ast.Call) and kwarg(x, "out") is not None:
            bad.append(x)
    ctx.check(not bad, R3, fi.key + ":shared-factors-read-only", "no in-place arithmetic on arrays obtained from the Kronecker chain (which may be the shared module-level Pauli matrices)", f"`{short(bad[0]) if bad else ''}` modifies in place an array obtained without copying from the Kronecker chain: for a single-factor chain that is the module-level Pauli matrix itself, so later conversions are corrupted", f"{fi.module.relpath}:{bad[0].lineno}" if bad else fi)
    mod = repo.module(SP)
    frozen_tables = {"pauli_x_csc": [[0, 1], [1, 0]], "pauli_y_csc": [[0, -1j], [1j, 0]], "pauli_z_csc": [[1, 0], [0, -1]]}
    for nm, want in frozen_tables.items():
        v = mod.assigns.get(nm)
        got = None
        if isinstance(v, ast.Call) and v.args and isinstance(v.args[0], ast.List):
            try:
                got = [[complex(const_value(e)) for e in r.elts] for r in v.args[0].elts]
            except (ValueError, AttributeError, TypeError):
                got = None
        ctx.check(got == [[complex(e) for e in r] for r in want], R3, f"{SP}:{nm}", f"{nm} is the textbook 2x2 matrix", f"{nm} is {got}: not the Pauli matrix (Y in particular must be [[0,-i],[i,0]])", f"{mod.relpath}:1")
    pm = mod.assigns.get("pauli_matrix_map")
    ok = isinstance(pm, ast.Dict) and {(norm(k).strip("'\""), norm(v)) for k, v in zip(pm.keys, pm.values)} == {("I", "identity_csc"), ("X", "pauli_x_csc"), ("Y", "pauli_y_csc"), ("Z", "pauli_z_csc")}
    ctx.check(ok, R3, f"{SP}:pauli_matrix_map", "letters map to their own matrices", "pauli_matrix_map no longer maps each letter to its own matrix", f"{mod.relpath}:1")
    # triplets: three appends per term, same order
    outer_lists = {s_.targets[0].id if isinstance(s_, ast.Assign) else s_.target.id for s_ in fi.node.body if isinstance(s_, (ast.Assign, ast.AnnAssign)) and s_.value is not None and isinstance(s_.value, ast.List) and not s_.value.elts and isinstance(s_.targets[0] if isinstance(s_, ast.Assign) else s_.target, ast.Name)}
    appends = [c.value for c in tl.body if isinstance(c, ast.Expr) and isinstance(c.value, ast.Call) and isinstance(c.value.func, ast.Attribute) and c.value.func.attr == "append" and norm(c.value.func.value) in outer_lists]
    ctx.check(len(appends) == 3 and len({norm(c.func.value) for c in appends}) == 3, R3, fi.key + ":triplets", "each term appends its values, rows and columns", "a term does not contribute exactly one (values, rows, columns) triple", fi)
    # empty sum
    empties = [s for s in fi.node.body if isinstance(s, ast.If) and norm(s.test).startswith("not ") and any(isinstance(x, ast.Return) for x in s.body)]
    ok = False
    if empties:
        r = [x for x in empties[0].body if isinstance(x, ast.Return)][0].value
        ok = isinstance(r, ast.Call) and "csc_matrix" in norm(r.func) and norm(r.args[0]) in ("(n_hilbert, n_hilbert)",)
    ctx.check(ok, R3, fi.key + ":empty-sum", "the empty sum converts to the zero matrix of dimension 2**n_qubits", "the zero operator (empty sum) is not converted to a zero matrix of the register's dimension", fi)
    shp = [c for c in body_walk(fi.node) if isinstance(c, ast.Call) and (dotted(c.func) or "").split(".")[-1] == "coo_matrix"]
    ok = len(shp) == 1 and norm(kwarg(shp[0], "shape")) == "(n_hilbert, n_hilbert)"
    ctx.check(ok, R3, fi.key + ":shape", "assembled with shape (2**n, 2**n)", "the assembled matrix does not get the register's dimension", fi)


def check_terms_not_merged_by_key(ctx):
    """A sum may list the same Pauli string several times (it need not be simplified); the matrix is the sum over *all* terms.
    Collecting the terms in a dict keyed by their operator part keeps one coefficient per string (the last), i.e. drops the
    others instead of adding them."""
    fi = ctx.repo.func(f"{SP}:get_sparse_operator")
    bad = []
    for n in body_walk(fi.node):
        if isinstance(n, ast.DictComp) and "terms" in norm(n.generators[0].iter):
            t = norm(n.generators[0].target)
            if any(norm(n.key) == f"{t}.{a}" for a in ("operations", "_ops")) or f"{t}.operations" in norm(n.key) or f"{t}._ops" in norm(n.key):
                bad.append(n)
        if isinstance(n, ast.For) and "terms" in norm(n.iter):
            t = norm(n.target)
            for st in ast.walk(n):
                if isinstance(st, ast.Assign) and isinstance(st.targets[0], ast.Subscript) and (f"{t}.operations" in norm(st.targets[0].slice) or f"{t}._ops" in norm(st.targets[0].slice)) and f"{t}.coefficient" in norm(st.value) and norm(st.targets[0]) not in norm(st.value):
                    bad.append(st)
    ctx.check(not bad, R3, fi.key + ":every-term", "every listed term contributes (no collection keyed by the Pauli string that overwrites)", f"`{short(bad[0], 90) if bad else ''}` keeps one coefficient per Pauli string: for an unsimplified sum such as X0 + 2*X0 the earlier coefficient is overwritten, so the matrix is 2*X0 instead of 3*X0", f"{fi.module.relpath}:{bad[0].lineno}" if bad else fi)


def check_expectation(ctx):
    repo = ctx.repo
    ge = repo.func(f"{OU}:get_expectation_value")
    ctx.analysed(ge)
    d = Defs(ge.node)
    wf = positional_params(ge.node)[1]
    nq = [x for x in d.defs.get("n_qubits", []) if isinstance(x, ast.AST)]
    ok = len(nq) == 1 and norm(nq[0]) in (f"{wf}.amplitudes.shape[0].bit_length() - 1", f"len({wf}).bit_length() - 1", f"{wf}.n_qubits", f"int(np.log2(len({wf})))", f"len({wf}.amplitudes).bit_length() - 1")
    ctx.check(ok, R4, ge.key + ":width", "register width is derived from the state (log2 of its length)", f"the width handed to the sparse builder is {short(nq[0]) if nq else '?'}, not the width of the state", ge)
    for callee in ("get_sparse_operator", "reverse_qubit_order"):
        cs = find_calls_named(ge.node, [callee])
        ok = len(cs) == 1 and norm(arg_or_kw(cs[0], 1, "n_qubits")) == "n_qubits"
        ctx.check(ok, R4, ge.key + f":{callee}", f"{callee} receives the state's width", f"{callee} is not given the width of the state: an operator narrower than the register is not identity-padded to it", ge)
    # every exit is the quadratic form with the sparse matrix: a second way of computing the value (a diagonal shortcut, a
    # per-term loop) is another implementation of the qubit numbering, which nothing here has related to get_sparse_operator
    foreign = []
    for r in exit_exprs(ge.node):
        v = r
        if isinstance(v, ast.Name):
            ds = [x for x in d.defs.get(v.id, []) if isinstance(x, ast.AST)]
            vs = ds or [v]
        else:
            vs = [v]
        for x in vs:
            while isinstance(x, ast.Attribute) and x.attr in ("real",):
                x = x.value
            okx = isinstance(x, ast.Call) and (dotted(x.func) or "").split(".")[-1] == "expectation" and len(x.args) >= 2 and "get_sparse_operator" in " ".join(d.atoms(x.args[0]) | {norm(x.args[0])}) and norm(x.args[1]) in (f"{wf}.amplitudes", wf)
            if not okx:
                foreign.append(x)
    ctx.check(not foreign, R4, ge.key + ":exits", "every exit is expectation(get_sparse_operator(operator, width), state)", f"get_expectation_value also returns {short(foreign[0], 100) if foreign else ''}: a value not computed as the quadratic form of the state with the operator's sparse matrix, i.e. a second implementation of which bit of the basis index a qubit is (and of the identity padding)", f"{ge.module.relpath}:{getattr(foreign[0], 'lineno', ge.node.lineno)}" if foreign else ge)
    ex = repo.func(f"{SP}:expectation")
    ctx.analysed(ex)
    op, st = positional_params(ex.node)[:2]
    dots = [c for c in body_walk(ex.node) if isinstance(c, ast.Call) and (dotted(c.func) or "").split(".")[-1] in ("dot", "vdot", "inner")]
    n_ok = 0
    for c in dots:
        if len(c.args) != 2:
            continue
        a0, a1 = norm(c.args[0]), norm(c.args[1])
        base = (dotted(c.func) or "").split(".")[-1]
        bra_conj = a0 in (f"numpy.conjugate({st})", f"np.conjugate({st})", f"numpy.conj({st})", f"{st}.conj()", f"{st}.conjugate()", f"numpy.conjugate({st}.T)", f"np.conjugate({st}.T)", f"{st}.conj().T", f"{st}.T.conj()")
        bra_plain = a0 in (st, f"{st}.T")
        ket = a1 in (f"{op} * {st}", f"{op} @ {st}", f"{op}.dot({st})")
        good = ket and ((base in ("dot", "inner") and bra_conj) or (base == "vdot" and bra_plain))
        ctx.check(good, R4, ex.key + f":quadratic-form:{a0[:30]}", "conj(state) . (operator * state)", f"the state-vector expectation is computed as {short(c)}: the bra must be conjugated exactly once and the ket must be operator * state", f"{ex.module.relpath}:{c.lineno}")
        n_ok += 1
    if n_ok == 0:
        ctx.undecided(R4, ex.key + ":quadratic-form", "no dot product found in expectation()", ex)
    # density-matrix branch: tr(rho O) is the trace of the *matrix* product. An element-wise product summed up is
    # sum_ij rho_ij O_ij = tr(rho O^T): equal only for symmetric operators (every Pauli string with an even number of Y)
    for c in body_walk(ex.node):
        if isinstance(c, ast.Call) and isinstance(c.func, ast.Attribute) and c.func.attr == "multiply" and len(c.args) == 1:
            a, b = norm(c.func.value), norm(c.args[0])
            if {a, b} == {op, st}:
                ctx.violation(R4, ex.key + ":trace-of-product", f"the density-matrix expectation uses the element-wise product {short(c)} (summed: tr(rho O^T)) instead of the trace of the matrix product rho * O: wrong for operators with an odd number of Y factors on a complex density matrix", f"{ex.module.relpath}:{c.lineno}")
        if isinstance(c, ast.Call) and (dotted(c.func) or "").split(".")[-1] in ("multiply",) and len(c.args) == 2 and {norm(c.args[0]), norm(c.args[1])} == {op, st}:
            ctx.violation(R4, ex.key + ":trace-of-product", f"the density-matrix expectation uses the element-wise product {short(c)} instead of the trace of the matrix product", f"{ex.module.relpath}:{c.lineno}")
    prods = [n for n in body_walk(ex.node) if isinstance(n, ast.BinOp) and isinstance(n.op, (ast.Mult, ast.MatMult)) and [norm(n.left), norm(n.right)] in ([st, op], [op, st])]
    if prods:
        ctx.ok(R4, ex.key + ":trace-of-product", "density-matrix branch forms the matrix product of state and operator", f"{ex.module.relpath}:{prods[0].lineno}")


# ----------------------------------------------------------------------------- D5
def _nested(func: ast.AST, name: str) -> Optional[ast.FunctionDef]:
    for n in ast.walk(func):
        if isinstance(n, ast.FunctionDef) and n.name == name:
            return n
    return None


def check_pauli_expansion(ctx):
    repo = ctx.repo
    fi = repo.func(f"{OU}:get_pauliop_from_matrix")
    ctx.analysed(fi)
    tp = _nested(fi.node, "trace_product")
    f = _nested(fi.node, "f")
    nz = _nested(fi.node, "nz")
    if tp is None or f is None or nz is None:
        ctx.undecided(R5, fi.key + ":helpers", "trace_product / f / nz helpers not found", fi)
        return
    label = positional_params(tp)[0]
    # phase table from nz: {(label, bit): factor}
    table: Dict[Tuple[int, int], complex] = {}
    ok_shape = True
    for outer in [s for s in ast.walk(nz) if isinstance(s, ast.If)]:
        t = outer.test
        if isinstance(t, ast.Compare) and len(t.ops) == 1 and isinstance(t.ops[0], ast.Eq) and norm(t.left).startswith(f"{label}[") and isinstance(t.comparators[0], ast.Constant):
            lab = t.comparators[0].value
            lab_idx = norm(t.left.slice)
            for inn in outer.body:
                if isinstance(inn, ast.If) and isinstance(inn.test, ast.Compare) and isinstance(inn.test.comparators[0], ast.Constant) and isinstance(inn.test.ops[0], ast.Eq):
                    if norm(inn.test.left.slice) != lab_idx:
                        ok_shape = False
                    bit = inn.test.comparators[0].value
                    for s in inn.body:
                        fac = None
                        if isinstance(s, ast.Assign) and isinstance(s.value, ast.BinOp) and isinstance(s.value.op, ast.Mult) and norm(s.value.left) == norm(s.targets[0]):
                            fac = s.value.right
                        elif isinstance(s, ast.AugAssign) and isinstance(s.op, ast.Mult):
                            fac = s.value
                        if fac is not None:
                            try:
                                table[(lab, bit)] = complex(const_value(fac))
                            except (ValueError, TypeError):
                                ok_shape = False
    # ground truth: value of the non-zero entry of sigma in column `bit`
    truth = {(1, 0): 1, (1, 1): 1, (2, 0): 1j, (2, 1): -1j, (3, 0): 1, (3, 1): -1}
    if not ok_shape:
        ctx.undecided(R5, fi.key + ":phase-table", "the phase table in nz() has an unrecognised shape", fi)
    else:
        for (lab, bit), want in truth.items():
            got = table.get((lab, bit), 1)
            name = {1: "X", 2: "Y", 3: "Z"}[lab]
            ctx.check(complex(got) == complex(want), R5, fi.key + f":phase-table:{name}{bit}", f"non-zero entry of {name} in column {bit} is {want}", f"nz() gives {got} for {name} in column {bit}; the matrix entry is {want}", f"{fi.module.relpath}:{nz.lineno}")
        extra = set(table) - set(truth)
        ctx.check(not extra, R5, fi.key + ":phase-table:extra", "no phase for the identity", f"nz() applies a phase for label/bit {sorted(extra)}", f"{fi.module.relpath}:{nz.lineno}")
    # f flips exactly for X and Y
    flips = [s for s in ast.walk(f) if isinstance(s, ast.If) and label in norm(s.test)]
    ok = False
    if len(flips) == 1:
        t = flips[0].test
        labs = None
        if isinstance(t, ast.Compare) and isinstance(t.ops[0], ast.In) and isinstance(t.comparators[0], (ast.List, ast.Tuple, ast.Set)):
            labs = sorted(const_value(e) for e in t.comparators[0].elts)
        idx = norm(t.left.slice) if isinstance(t.left, ast.Subscript) else None
        body_ok = len(flips[0].body) == 1 and isinstance(flips[0].body[0], ast.Assign) and isinstance(flips[0].body[0].targets[0], ast.Subscript) and norm(flips[0].body[0].targets[0].slice) == idx and norm(flips[0].body[0].value) in (f"int(not {norm(flips[0].body[0].targets[0])})", f"1 - {norm(flips[0].body[0].targets[0])}", f"{norm(flips[0].body[0].targets[0])} ^ 1")
        ok = labs == [1, 2] and body_ok
    ctx.check(ok, R5, fi.key + ":flip-table", "X and Y (labels 1, 2) flip the bit of their own qubit; I and Z do not", "f() does not flip exactly the bits of the qubits carrying X or Y", f"{fi.module.relpath}:{f.lineno}")
    # trace accumulation
    loops = [l for l in tp.body if isinstance(l, ast.For)]
    ok = False
    detail = "no accumulation loop over the columns"
    if len(loops) == 1:
        j = norm(loops[0].target)
        rng_ok = norm(loops[0].iter) in ("range(0, 2 ** n)", "range(2 ** n)")
        acc = [s for s in loops[0].body if isinstance(s, (ast.Assign, ast.AugAssign))]
        if len(acc) == 1:
            v = acc[0].value
            txt = norm(v)
            prod = f"operator[{j}][f({j})] * nz({j})"
            ok = rng_ok and (txt in (f"tr + {prod}", f"{prod} + tr", prod)) and not any(isinstance(c, ast.Call) and (dotted(c.func) or "").split(".")[-1] in ("conj", "conjugate", "vdot") for c in ast.walk(loops[0]))
            detail = f"accumulates {short(v)} over {short(loops[0].iter)}"
    else:
        calls = [c for c in ast.walk(tp) if isinstance(c, ast.Call) and (dotted(c.func) or "").split(".")[-1] in ("vdot", "conj", "conjugate")]
        if calls:
            detail = f"uses {short(calls[0])}: np.vdot / conj conjugates the matrix entries, so complex matrices are expanded as their entry-wise conjugate"
            ctx.violation(R5, fi.key + ":trace", detail, f"{fi.module.relpath}:{calls[0].lineno}")
            ok = None
    if ok is not None:
        if ok or len(loops) == 1:
            ctx.check(bool(ok), R5, fi.key + ":trace", "tr(O P) = sum_j O[j][f(j)] * P[f(j)][j], no conjugation", detail, f"{fi.module.relpath}:{tp.lineno}")
        else:
            ctx.undecided(R5, fi.key + ":trace", detail, f"{fi.module.relpath}:{tp.lineno}")
    rets = [r for r in ast.walk(tp) if isinstance(r, ast.Return) and r.value is not None and not any(r in ast.walk(x) for x in (f, nz))]
    ok = bool(rets) and isinstance(rets[-1].value, ast.BinOp) and isinstance(rets[-1].value.op, ast.Div) and norm(rets[-1].value.right) in ("2 ** n", "float(2 ** n)", "nrows", "ncols")
    ctx.check(ok, R5, fi.key + ":normalisation", "coefficient = trace / 2**n", f"the trace is normalised as {short(rets[-1].value) if rets else '?'}", f"{fi.module.relpath}:{tp.lineno}")
    # the coefficients handed on are the traces as computed: nothing projects, rounds or clips them afterwards
    hand = [c for c in body_walk(fi.node) if isinstance(c, ast.Call) and dotted(c.func) == "get_pauliop_from_coeffs_and_labels" and c.args and isinstance(c.args[0], ast.Name)]
    if hand:
        cname = hand[0].args[0].id
        stores = [s for s in ast.walk(fi.node) if isinstance(s, (ast.Assign, ast.AugAssign)) and any(isinstance(t, ast.Subscript) and isinstance(t.value, ast.Name) and t.value.id == cname for t in (s.targets if isinstance(s, ast.Assign) else [s.target]))]
        dd = Defs(fi.node)

        def _is_trace(v, depth=0):
            if isinstance(v, ast.Name) and depth < 3:
                sd = dd.single_def(v.id)
                return isinstance(sd, ast.AST) and _is_trace(sd, depth + 1)
            return isinstance(v, ast.Call) and dotted(v.func) == tp.name

        bad = [s for s in stores if isinstance(s, ast.AugAssign) or not _is_trace(s.value)]
        whole = [v for v in dd.defs.get(cname, []) if isinstance(v, (ast.ListComp, ast.GeneratorExp)) or (isinstance(v, ast.Call) and v.args and isinstance(v.args[0], (ast.ListComp, ast.GeneratorExp)))]
        whole_ok = all(_is_trace((w if isinstance(w, (ast.ListComp, ast.GeneratorExp)) else w.args[0]).elt) for w in whole)
        culprit = bad[0] if bad else (whole[0] if whole else fi.node)
        if stores or whole:
            ctx.check(not bad and whole_ok, R5, fi.key + ":coefficients-as-computed", "every coefficient handed on is the normalised trace itself", f"a coefficient is rewritten after the trace was taken (`{short(culprit, 80)}`): the expansion of a general square matrix has complex coefficients, and projecting / rounding them (real part, magnitude, tolerance snap) makes the rebuilt operator differ from the matrix -- e.g. the real part is only right for Hermitian input, and a symmetric matrix need not be Hermitian", f"{fi.module.relpath}:{culprit.lineno}")
        else:
            ctx.undecided(R5, fi.key + ":coefficients-as-computed", f"cannot find where `{cname}` receives the traces", fi)
    else:
        ctx.undecided(R5, fi.key + ":coefficients-as-computed", "cannot find the hand-over to get_pauliop_from_coeffs_and_labels", fi)
    # labels -> letters on the right qubit
    cl = repo.func(f"{OU}:get_pauliop_from_coeffs_and_labels")
    ctx.analysed(cl)
    letters: Dict[int, str] = {}
    idx_ok = True
    for s in ast.walk(cl.node):
        if isinstance(s, ast.If) and isinstance(s.test, ast.Compare) and isinstance(s.test.ops[0], ast.Eq) and isinstance(s.test.comparators[0], ast.Constant):
            for b in s.body:
                if isinstance(b, ast.Assign) and isinstance(b.value, ast.BinOp) and isinstance(b.value.left, ast.Constant) and isinstance(b.value.left.value, str):
                    letters[s.test.comparators[0].value] = b.value.left.value.strip("*")
                    idx_ok = idx_ok and norm(b.value.right) in ("str(ind)",)
    enum_ok = any(isinstance(l, ast.For) and isinstance(l.iter, ast.Call) and dotted(l.iter.func) == "enumerate" and isinstance(l.target, ast.Tuple) and norm(l.target.elts[0]) == "ind" for l in ast.walk(cl.node))
    if not letters:
        # no `if elem == k: symbol = "*L" + str(ind)` chain in the function body (a helper, a lookup table ...): construct lost
        ctx.undecided(R5, cl.key + ":letters", "cannot find the chain that turns a label 1/2/3 into a letter with the label's position as index", cl)
    else:
      ctx.check(letters == {1: "X", 2: "Y", 3: "Z"} and idx_ok and enum_ok, R5, cl.key + ":letters", "label 1/2/3 at position i becomes X/Y/Z on qubit i", f"labels are turned into letters {letters} (index from the label's own position: {idx_ok and enum_ok})", cl)
    # bin2dec / dec2bin significance
    b2d = repo.func(f"{UT}:bin2dec")
    ctx.analysed(b2d)
    x = positional_params(b2d.node)[0]
    ok = False
    for l in [s for s in body_walk(b2d.node) if isinstance(s, ast.For)]:
        i = norm(l.target)
        accs = [s for s in l.body if isinstance(s, ast.Assign)]
        doubles = any(norm(s.value) in ("coeff * 2", "2 * coeff") for s in accs)
        subs = [n for s in accs for n in ast.walk(s.value) if isinstance(n, ast.Subscript) and norm(n.value) == x]
        if doubles and len(subs) == 1:
            got = poly(subs[0].slice, lambda nm: None)
            # weight 2**i is paired with element len(x)-1-i  -> element 0 most significant
            import copy as _c

            class _Op(ast.NodeTransformer):
                def visit_Call(self, node):
                    return ast.Name(id="LEN", ctx=ast.Load())

            got = poly(_Op().visit(_c.deepcopy(subs[0].slice)))
            ok = got is not None and got.get(((i, 1),)) == -1
    ctx.check(ok, R5, b2d.key, "element 0 is the most significant digit", "bin2dec does not read element 0 as the most significant digit (the expansion and the sparse builder then disagree on qubit order)", b2d)
    d2b = repo.func(f"{UT}:dec2bin")
    ctx.analysed(d2b)
    pads = [s for s in ast.walk(d2b.node) if isinstance(s, ast.Assign) and isinstance(s.value, ast.BinOp) and isinstance(s.value.op, ast.Add) and norm(s.targets[0]) == norm(s.value.right)]
    ok = count_reversals(d2b.node) == 0 and "bin(" in norm(d2b.node) and len(pads) == 1
    ctx.check(ok, R5, d2b.key, "binary text of the number, zero-padded in front (most significant first)", "dec2bin does not produce the most-significant-first digits padded with leading zeros", d2b)


def run(ctx):
    from ..lints import check_caches

    check_caches(ctx, "C09-D6 conversions-stateless", ['operators._utils', 'operators._openfermion_utils.sparse_tools', 'operators._pauli_operators', 'api.wavefunction_simulator'])
    check_reverse(ctx)
    check_hermitian(ctx)
    # is_hermitian compares an operator with its conjugate as (sets of) terms: it agrees with the matrix only if terms that compare
    # equal also hash equal -- decided once, by C03-D6
    from ..common import share_rule
    from . import c03

    share_rule(ctx, "C03", lambda sub: c03.check_hash_not_finer_than_eq(sub, "x"), R2)
    check_sparse(ctx)
    check_expectation(ctx)
    check_terms_not_merged_by_key(ctx)
    from ..lints import identity_padding_on_the_left

    _hits = identity_padding_on_the_left(ctx.repo, ("operators._utils", "api.wavefunction_simulator", "operators._openfermion_utils.sparse_tools", "operators._pauli_operators"))
    for _fi, _c in _hits:
        ctx.violation(R4, f"{_fi.key}:identity-padding:{short(_c, 40)}", f"{_fi.qualname}: `{short(_c, 90)}` widens a matrix by an identity factor on the left: qubit 0 is the leftmost Kronecker factor, so the added (higher-numbered, idle) qubits belong on the right; as written the operator acts on the last qubits of the register instead of the ones it names", f"{_fi.module.relpath}:{_c.lineno}")
    ctx.ok(R4, "artefacts:identity-padding", f"no matrix is widened by an identity factor on the left ({len(_hits)} found)", "")
    check_pauli_expansion(ctx)
    # the conversions are functions of their operands' current value: no memo on the operand, no module-level cache
    from ..state import check_hidden_state
    from .c20 import effects_for

    conv = [ctx.repo.func(k) for k in (f"{SP}:get_sparse_operator", f"{SP}:expectation", f"{OU}:get_expectation_value", f"{OU}:reverse_qubit_order", f"{OU}:get_pauliop_from_matrix") if ctx.repo.has_func(k)]
    conv += [ctx.repo.func(k) for k in ("operators._openfermion_utils.operator_utils:hermitian_conjugated", "operators._openfermion_utils.operator_utils:is_hermitian") if ctx.repo.has_func(k)]
    check_hidden_state(ctx, "C09-D6 conversions-stateless", conv, effects_for(ctx), argument_caches=True)
    ctx.floor("C09-D6", 5)
    ctx.floor("C09-D1", 6)
    ctx.floor("C09-D2", 6)
    ctx.floor("C09-D3", 15)
    ctx.floor("C09-D4", 4)
    ctx.floor("C09-D5", 12)
