"""C06 — binding parameters commutes with evaluating the circuit."""
from __future__ import annotations

import ast
from typing import List, Optional

from ..astutil import arg_or_kw, body_walk, dotted, kwarg, norm, positional_params, short, walk_local
from ..cfg import cfg_of
from ..common import check_width_carried, circuit_ctor_calls, ops_expr, returned_exprs
from ..flow import Defs
from ..orient import count_reversals

EXPLANATION = (
    "(D1) Power.bind and Exponential.bind raise NotImplementedError on every path; (D2) every other bind in the "
    "circuits package either substitutes each of self.params through sub_symbols with the caller's map (no filter, "
    "order kept) and rebuilds through replace_params, or binds the wrapped gate with the caller's map and re-applies "
    "its own modifier with its own fields; replace_params of each wrapper re-wraps the wrapped gate's replace_params "
    "result the same way; Circuit.bind binds every operation in order with the caller's map and keeps the width; "
    "(D3) sub_symbols has arms for numbers (returned as is), expressions (.subs(map)) and symbols (map.get(symbol, "
    "symbol)) and a refusing default; (D4) every free_symbols implementation is get_free_symbols(self.params) or "
    "delegates to the wrapped gate, get_free_symbols reads .free_symbols of sympy expressions only, "
    "Circuit.free_symbols appends on first sight while iterating operations in order; (D5) every "
    "dataclasses.replace(self, k=...) names a keyword the class's effective __init__ accepts; the custom-gate "
    "matrix factory substitutes by position (zip of params_ordering with the arguments). "
    "(D3s) sibling agreement of the sub_symbols arms: the Expr arm substitutes simultaneously (subs(..., simultaneous=True) / xreplace), like the Symbol arm's dictionary lookup."
    ' Round 4: (D6) the numeric and the symbolic embedding are the same construction on the same arguments and lifted_matrix has no other exit (shared with C01-D5).'
    ' Round 5: (D7) no cached_property / cache on mutable circuits or keyed by tolerant equality; (D8) wrapper matrices are the fixed matrix functions of the wrapped matrix (C07-D3).'
    " Round 6: bind substitutes with the caller's map as given (never re-keyed / filtered; a plain copy is fine); a bind with several exits is judged exit by exit, and `return self` is not a bound object (D2)."
    ' Round 7: insertion-ordered-dict spelling of Circuit.free_symbols; identification of symbols by name is a violation (D4).'
)
RULE_TEXT = "instances = bind/replace_params/free_symbols methods of all gate, operation and circuit classes, sub_symbols arms, replace() call sites; distinct by (rule, construct)"
ASSUMPTIONS = [
    "declined: that sympy's .subs commutes with matrix evaluation, equality of partial-then-total and one-shot binding (depends on sympy semantics)",
]

R1 = "C06-D1 unsupported-bind-refuses"
R2 = "C06-D2 bind-structure"
R3 = "C06-D3 sub-symbols-arms"
R4 = "C06-D4 free-symbols"
R5 = "C06-D5 replace-and-factory"
GATES = "circuits._gates"
OPS = "circuits._operations"
WOPS = "circuits._wavefunction_operations"
CIR = "circuits._circuit"

REFUSING = {"Power", "Exponential"}
# wrapper -> (modifier re-applied after binding the wrapped gate, rendered with `X` for the bound gate)
REWRAP = {
    "ControlledGate": "X.controlled(self.num_control_qubits)",
    "Dagger": "X.dagger",
    "Exponential": "X.exp",
    "Power": "X.power(self.exponent)",
}


def _classes(repo):
    out = []
    for modname in (GATES, WOPS):
        for ci in repo.module(modname).classes.values():
            if any((dotted(b) or "").endswith("Protocol") for b in ci.node.bases):
                continue
            out.append(ci)
    return out


def _subst_comprehension(e: ast.AST, mapname: str) -> bool:
    """tuple(sub_symbols(p, map) for p in self.params)"""
    if isinstance(e, ast.Call) and dotted(e.func) in ("tuple", "list") and len(e.args) == 1:
        e = e.args[0]
    if not isinstance(e, (ast.GeneratorExp, ast.ListComp)) or len(e.generators) != 1:
        return False
    g = e.generators[0]
    if norm(g.iter) != "self.params" or g.ifs or count_reversals(g.iter):
        return False
    elt = e.elt
    return isinstance(elt, ast.Call) and dotted(elt.func) == "sub_symbols" and len(elt.args) == 2 and norm(elt.args[0]) == norm(g.target) and norm(elt.args[1]) == mapname


def _map_as_given(ctx, m, mapname):
    """`bind` substitutes with the caller's map: the parameter is never re-bound to a processed copy (re-keyed by name, filtered,
    sympified ...) -- `matrix.subs(map)` on the evaluated matrix uses the map as given, so a bind that first rewrites the map
    substitutes something else for symbols the rewrite treats differently (assumptions, dummies, equal names)."""
    if not mapname:
        return
    copies = {f"dict({mapname})", f"{mapname}.copy()", f"{{**{mapname}}}", f"{mapname} or {{}}", f"dict({mapname}.items())", f"copy({mapname})", f"copy.copy({mapname})"}
    reb = [x for x in Defs(m.node).assign_stmts.get(mapname, []) if norm(getattr(x, "value", None)) not in copies]
    ctx.check(not reb, R2, m.key + ":map-as-given", "the caller's map is used as given", f"{m.qualname} re-binds its map parameter `{mapname}` ({short(reb[0], 90) if reb else ''}) before substituting: symbols the rewritten map no longer holds under the caller's own key (symbols with assumptions, Dummy symbols, two symbols sharing a name) are left unbound or bound to another symbol's value, so binding differs from substituting the same map into the evaluated matrix", f"{m.module.relpath}:{reb[0].lineno}" if reb else m)



def check_bind(ctx, ci, m):
    ctx.analysed(m)
    ps = positional_params(m.node)
    mapname = ps[1] if len(ps) > 1 else None
    _map_as_given(ctx, m, mapname)
    cons = m.key
    if ci.name in REFUSING:
        cfg = cfg_of(m.node)
        raises = [n for n in body_walk(m.node) if isinstance(n, ast.Raise)]
        ok = cfg.all_paths_raise() and bool(raises) and all("NotImplementedError" in norm(r) for r in raises)
        ctx.check(ok, R1, cons, "every path raises NotImplementedError", f"{m.qualname} can return normally: a {ci.name} gate is silently 'bound' to something instead of refusing", m)
        return
    from ..common import exit_exprs

    rets = exit_exprs(m.node)
    if not rets:
        ctx.undecided(R2, cons, f"no return in {m.qualname}", m)
        return
    if len(rets) > 1:
        # several exits: each one has to be the bound object; an exit handing back `self` un-bound skips the delegation, and with
        # it the refusal of Power / Exponential gates further down
        for i, r in enumerate(rets):
            if isinstance(r, ast.Name) and r.id == "self":
                ctx.violation(R2, cons + ":exit:self", f"{m.qualname} has an exit that returns the object itself without binding (`return self`, line {r.lineno}): nothing is delegated on that path, so a wrapped gate that must refuse binding (Power, Exponential) is silently accepted and the result is not built from the caller's map", f"{m.module.relpath}:{r.lineno}")
            else:
                _judge_bind_exit(ctx, ci, m, mapname, r, cons + ":exit:" + norm(r)[:60])  # keyed by content: the two views may list the exits in a different order
        return
    _judge_bind_exit(ctx, ci, m, mapname, rets[0], cons)


def _judge_bind_exit(ctx, ci, m, mapname, r, cons):
    d = Defs(m.node)
    # (b) substitute each parameter
    if isinstance(r, ast.Call) and norm(r.func) == "self.replace_params" and len(r.args) == 1:
        ok = _subst_comprehension(r.args[0], mapname)
        ctx.check(ok, R2, cons, "replace_params(tuple(sub_symbols(p, map) for p in self.params))", f"{m.qualname} does not substitute every parameter, in order, through sub_symbols with the caller's map ({short(r.args[0])})", m)
        return
    # (c) delegate to the wrapped object
    if ci.name in REWRAP:
        want = REWRAP[ci.name].replace("X", f"self.wrapped_gate.bind({mapname})")
        ctx.check(norm(r) == want, R2, cons, want, f"{m.qualname} returns {short(r)}: not the wrapped gate bound with the caller's map and re-wrapped with this gate's own modifier ({want})", m)
        return
    if ci.name == "GateOperation":
        ok = isinstance(r, ast.Call) and norm(r.func).endswith("GateOperation") and norm(arg_or_kw(r, 0, "gate")) == f"self.gate.bind({mapname})" and norm(arg_or_kw(r, 1, "qubit_indices")) == "self.qubit_indices"
        ctx.check(ok, R2, cons, "GateOperation(self.gate.bind(map), self.qubit_indices)", f"{m.qualname} returns {short(r)}: not the bound gate on the same qubit indices", m)
        return
    ctx.undecided(R2, cons, f"bind of {ci.name} has an unrecognised shape: {short(r)}", m)


def check_replace_params(ctx, ci, m):
    ctx.analysed(m)
    ps = positional_params(m.node)
    newp = ps[1] if len(ps) > 1 else None
    rets = returned_exprs(m.node)
    cons = m.key
    if ci.name in REWRAP:
        want = REWRAP[ci.name].replace("X", f"self.wrapped_gate.replace_params({newp})")
        ok = len(rets) == 1 and norm(rets[0]) == want
        ctx.check(ok, R2, cons, want, f"{m.qualname} returns {short(rets[0]) if rets else None}: not {want} (replacing parameters must commute with the modifier)", m)
    elif ci.name == "GateOperation":
        ok = len(rets) == 1 and isinstance(rets[0], ast.Call) and norm(arg_or_kw(rets[0], 0, "gate")) == f"self.gate.replace_params({newp})" and norm(arg_or_kw(rets[0], 1, "qubit_indices")) == "self.qubit_indices"
        ctx.check(ok, R2, cons, "GateOperation(self.gate.replace_params(new), self.qubit_indices)", f"{m.qualname} does not rebuild the operation on the same qubits with the re-parametrised gate", m)
    else:
        # leaf: the new object carries exactly the new params and every other field of self
        d = Defs(m.node)
        r = rets[0] if len(rets) == 1 else None
        ok = False
        why = f"unrecognised shape {short(r)}"
        if isinstance(r, ast.Call) and dotted(r.func) in ("replace", "dataclasses.replace") and r.args and norm(r.args[0]) == "self":
            kws = {k.arg: norm(k.value) for k in r.keywords}
            ok = kws == {"params": newp}
            why = f"replace(self, {kws})"
        elif isinstance(r, ast.Call) and norm(r.func) == ci.name:
            fields = ci.field_names
            args = [norm(a) for a in r.args] + [f"{k.arg}={norm(k.value)}" for k in r.keywords]
            ok = newp in [norm(a) for a in r.args] + [norm(k.value) for k in r.keywords] and len(fields) == 1
            why = f"{ci.name}({', '.join(args)})"
        elif isinstance(r, ast.Name):
            # built step by step: new = K(<identity fields>); new.params = new_params
            defs = d.defs.get(r.id, [])
            ctor = [v for v in defs if isinstance(v, ast.Call) and norm(v.func) == ci.name]
            sets = [s for s in body_walk(m.node) if isinstance(s, ast.Assign) and norm(s.targets[0]) == f"{r.id}.params" and norm(s.value) == newp]
            keeps = ctor and all(any(a in norm(x) for a in ("self.",)) for x in ctor[0].args)
            ok = bool(ctor) and bool(sets) and bool(keeps)
            why = f"{short(ctor[0]) if ctor else None} then params set: {bool(sets)}"
        ctx.check(ok, R2, cons, "a copy of self carrying exactly the new parameters", f"{m.qualname}: {why} is not a copy of the receiver with only the parameters replaced", m)


def check_sub_symbols(ctx):
    repo = ctx.repo
    base = repo.func(f"{OPS}:sub_symbols")
    ctx.analysed(base)
    ctx.check(any(isinstance(n, ast.Raise) for n in body_walk(base.node)) and not returned_exprs(base.node), R3, base.key + ":default", "unknown parameter kinds are refused", "the default sub_symbols arm does not refuse unknown parameter kinds", base)
    arms = {}
    for texpr, arm in repo.registry(base):
        arms[(dotted(texpr) or "").split(".")[-1]] = arm
        ctx.analysed(arm)
    for need in ("Number", "Expr", "Symbol"):
        if need not in arms:
            ctx.violation(R3, base.key + f":arm:{need}", f"no sub_symbols arm for {need}", base)
    if "Number" in arms:
        a = arms["Number"]
        p = positional_params(a.node)
        r = returned_exprs(a.node)
        ctx.check(len(r) == 1 and norm(r[0]) == p[0], R3, a.key, "numbers are returned unchanged", f"the Number arm returns {short(r[0]) if r else None}, not the number itself", a)
    if "Expr" in arms:
        a = arms["Expr"]
        p = positional_params(a.node)
        r = returned_exprs(a.node)
        c = r[0] if len(r) == 1 else None
        is_subs = isinstance(c, ast.Call) and isinstance(c.func, ast.Attribute) and c.func.attr in ("subs", "xreplace") and norm(c.func.value) == p[0] and c.args and norm(c.args[0]) == p[1]
        ctx.check(bool(is_subs), R3, a.key, "expressions: .subs(map)", f"the Expr arm returns {short(r[0]) if r else None}, not parameter.subs(symbols_map)", a)
        if is_subs:
            # sibling agreement: the Symbol arm is a dictionary lookup, i.e. every symbol is replaced by its own value at once;
            # the Expr arm must mean the same for the same map (sympy's plain subs applies the pairs one after the other, so
            # with {x: y, y: 1} a bare parameter x becomes y while 2*x becomes 2.0)
            sim = kwarg(c, "simultaneous")
            simultaneous = c.func.attr == "xreplace" or (sim is not None and isinstance(sim, ast.Constant) and sim.value is True)
            ctx.check(simultaneous, R3, a.key + ":simultaneous", "the Expr arm replaces all symbols at once, like the Symbol arm's lookup", f"{short(c)} applies the map's pairs sequentially while the Symbol arm looks each symbol up once: for a map whose values mention other keys ({{x: y, y: 1.0}}) RX(x) binds to RX(y) but RX(2*x) to RX(2.0) -- binding no longer commutes with evaluating and substituting", a)
    if "Symbol" in arms:
        a = arms["Symbol"]
        p = positional_params(a.node)
        r = returned_exprs(a.node)
        ok = len(r) == 1 and norm(r[0]) == f"{p[1]}.get({p[0]}, {p[0]})"
        ctx.check(ok, R3, a.key, "symbols: map.get(symbol, symbol)", f"the Symbol arm returns {short(r[0]) if r else None}: a symbol absent from the map must stay itself", a)


def check_free_symbols(ctx, classes):
    repo = ctx.repo
    gfs = repo.func(f"{OPS}:get_free_symbols")
    ctx.analysed(gfs)
    p = positional_params(gfs.node)[0]
    comp = [n for n in body_walk(gfs.node) if isinstance(n, (ast.GeneratorExp, ast.SetComp, ast.ListComp)) and len(n.generators) == 2]
    ok = False
    if comp:
        g0, g1 = comp[0].generators
        ok = norm(g0.iter) == p and any("isinstance" in norm(i) and "sympy.Expr" in norm(i) for i in g0.ifs) and norm(g1.iter) == f"{norm(g0.target)}.free_symbols" and norm(comp[0].elt) == norm(g1.target)
    ctx.check(ok, R4, gfs.key, "symbols = union of .free_symbols over the sympy-expression parameters", "get_free_symbols does not collect exactly the .free_symbols of the parameters that are sympy expressions (e.g. atoms() also reports bound/dummy symbols)", gfs)
    gate_proto = repo.cls(f"{GATES}:Gate")
    holders = classes + [gate_proto]
    for ci in holders:
        m = ci.methods.get("free_symbols")
        if m is None:
            continue
        ctx.analysed(m)
        r = returned_exprs(m.node)
        ok = len(r) == 1 and norm(r[0]) in ("get_free_symbols(self.params)", "self.gate.free_symbols", "self.wrapped_gate.free_symbols")
        ctx.check(ok, R4, m.key, "free symbols derive from the parameters", f"{m.qualname} returns {short(r[0]) if r else None}: not the symbols its parameters depend on", m)
    # params delegation for wrappers (free symbols of wrappers come from these params)
    for ci in classes:
        if ci.name in REWRAP and "params" in ci.methods:
            m = ci.methods["params"]
            r = returned_exprs(m.node)
            ctx.check(len(r) == 1 and norm(r[0]) == "self.wrapped_gate.params", R4, m.key, "params delegate to the wrapped gate", f"{m.qualname} returns {short(r[0]) if r else None}", m)
    op = repo.cls(f"{GATES}:GateOperation")
    r = returned_exprs(op.methods["params"].node)
    ctx.check(len(r) == 1 and norm(r[0]) == "self.gate.params", R4, op.methods["params"].key, "operation params are the gate's", "GateOperation.params does not return the gate's params", op)
    cf = repo.func(f"{CIR}:Circuit.free_symbols")
    ctx.analysed(cf)
    loops = [l for l in body_walk(cf.node) if isinstance(l, ast.For)]
    ok = False
    if len(loops) >= 2:
        outer = [l for l in loops if norm(l.iter) in ("self._operations", "self.operations")]
        inner = [l for l in loops if norm(l.iter).endswith(".free_symbols")]
        if outer and inner and any(x is inner[0] for x in ast.walk(outer[0])):
            tests = [n for n in ast.walk(inner[0]) if isinstance(n, ast.If) and isinstance(n.test, ast.Compare) and isinstance(n.test.ops[0], ast.NotIn)]
            if tests:
                body = norm(ast.Module(body=tests[0].body, type_ignores=[]))
                seen = norm(tests[0].test.comparators[0])
                ok = f"{seen}.add(" in body and ".append(" in body and count_reversals(outer[0].iter) == 0
    rets = returned_exprs(cf.node)
    appended = {norm(c.func.value) for c in body_walk(cf.node) if isinstance(c, ast.Call) and isinstance(c.func, ast.Attribute) and c.func.attr == "append"}
    ok = ok and len(rets) == 1 and norm(rets[0]) in appended
    if not ok and len(rets) == 1:
        # the other spelling of "each once, first appearance first": list(dict.fromkeys(<symbols in order>)) -- a dict keeps the
        # insertion order of its keys and ignores repeated insertions
        e = rets[0]
        if isinstance(e, ast.Call) and dotted(e.func) == "list" and len(e.args) == 1 and isinstance(e.args[0], ast.Call) and dotted(e.args[0].func) in ("dict.fromkeys", "OrderedDict.fromkeys", "collections.OrderedDict.fromkeys") and len(e.args[0].args) == 1:
            g = e.args[0].args[0]
            if isinstance(g, (ast.GeneratorExp, ast.ListComp)) and len(g.generators) == 2 and not any(x.ifs for x in g.generators):
                g0, g1 = g.generators
                ok = norm(g0.iter) in ("self._operations", "self.operations") and norm(g1.iter) == f"{norm(g0.target)}.free_symbols" and norm(g.elt) == norm(g1.target) and count_reversals(g) == 0
    if not ok and len(rets) == 1:
        # third spelling: an insertion-ordered dict filled per operation, `d.update(dict.fromkeys(op.free_symbols))`, returned as list(d)
        e = rets[0]
        if isinstance(e, ast.Call) and dotted(e.func) == "list" and len(e.args) == 1 and isinstance(e.args[0], ast.Name):
            dn = e.args[0].id
            for l in [x for x in body_walk(cf.node) if isinstance(x, ast.For) and norm(x.iter) in ("self._operations", "self.operations")]:
                ups = [c for st in l.body for c in ast.walk(st) if isinstance(c, ast.Call) and isinstance(c.func, ast.Attribute) and c.func.attr == "update" and norm(c.func.value) == dn and len(c.args) == 1]
                if len(l.body) == 1 and len(ups) == 1 and isinstance(ups[0].args[0], ast.Call) and dotted(ups[0].args[0].func) == "dict.fromkeys" and len(ups[0].args[0].args) == 1 and norm(ups[0].args[0].args[0]) == f"{norm(l.target)}.free_symbols":
                    ok = True
    walks_ops = any(isinstance(x, (ast.For, ast.comprehension)) and norm(x.iter) in ("self._operations", "self.operations") for x in ast.walk(cf.node))
    by_text = [x for x in ast.walk(cf.node) if (isinstance(x, ast.Attribute) and x.attr == "name") or (isinstance(x, ast.Call) and dotted(x.func) in ("str", "repr", "hash", "id"))]
    if not ok and by_text:
        ctx.violation(R4, cf.key, f"Circuit.free_symbols identifies symbols by `{short(by_text[0])}` rather than by the symbol itself: two different symbols that share a name (different assumptions, Dummy symbols) are reported once, so a parameter the circuit still depends on is missing from free_symbols", cf)
        walks_ops = False
        rets = [None, None]
    if not ok and len(rets) == 1 and walks_ops and not any(isinstance(x, ast.Call) and (dotted(x.func) or "").split(".")[-1] in ("sorted", "reversed", "set", "frozenset") for x in ast.walk(cf.node)) and count_reversals(cf.node) == 0:
        # the operations are walked in order and nothing sorts / reverses / goes through a set, but the de-duplication idiom is not one of
        # the recognised ones: construct lost, not a decided violation
        ctx.undecided(R4, cf.key, "cannot recognise how Circuit.free_symbols keeps each symbol once in order of first appearance", cf)
    elif not (not ok and by_text):
      ctx.check(ok and len(rets) == 1, R4, cf.key, "first-appearance order over the operations", "Circuit.free_symbols does not list each symbol once, in order of first appearance over the operations", cf)


def check_replace_calls(ctx):
    repo = ctx.repo
    n = 0
    for fi in repo.all_functions():
        if fi.module.name.startswith("testing"):
            continue
        for c in body_walk(fi.node):
            if isinstance(c, ast.Call) and dotted(c.func) in ("replace", "dataclasses.replace") and c.args:
                r = repo.resolve_dotted(fi.module, c.func)
                if r is not None and not (r[0] == "external" and "dataclasses" in r[1]):
                    continue  # a repo function that merely happens to be called replace
                if r is None and not (norm(c.args[0]) == "self" and fi.cls is not None and fi.cls.is_dataclass):
                    continue
                n += 1
                ctx.analysed(fi)
                target_cls = fi.cls if norm(c.args[0]) == "self" else None
                if target_cls is None:
                    ctx.undecided(R5, f"{fi.key}:replace", f"dataclasses.replace on {short(c.args[0])}: class unknown", fi)
                    continue
                init = target_cls.methods.get("__init__")
                if init is not None:
                    accepted = set(positional_params(init.node)[1:]) | {a.arg for a in init.node.args.kwonlyargs}
                    has_kwargs = init.node.args.kwarg is not None
                else:
                    accepted = set(target_cls.field_names)
                    has_kwargs = False
                # replace() additionally passes every *other* init field of the dataclass
                passed = {k.arg for k in c.keywords if k.arg}
                others = set(target_cls.field_names) - passed if init is not None else set()
                bad = [k for k in (passed | others) if k not in accepted and not has_kwargs]
                ctx.check(not bad, R5, f"{fi.key}:replace({','.join(sorted(passed))})", "keywords accepted by the class's __init__", f"dataclasses.replace(self, {', '.join(sorted(passed))}) calls {target_cls.name}.__init__ with keyword(s) {sorted(bad)} that its hand-written __init__({', '.join(sorted(accepted))}) does not accept: TypeError at run time", f"{fi.module.relpath}:{c.lineno}")
    ctx.extra["dataclasses_replace_sites"] = n
    f = repo.func(f"{GATES}:CustomGateMatrixFactory.__call__")
    ctx.analysed(f)
    va = f.node.args.vararg.arg if f.node.args.vararg else None
    ok = any(isinstance(c, ast.Call) and isinstance(c.func, ast.Attribute) and c.func.attr in ("subs", "xreplace") and norm(c.func.value) == "self.matrix" and isinstance(c.args[0], ast.DictComp) and norm(c.args[0].generators[0].iter) == f"zip(self.params_ordering, {va})" and norm(c.args[0].key) == norm(c.args[0].generators[0].target.elts[0]) and norm(c.args[0].value) == norm(c.args[0].generators[0].target.elts[1]) for c in body_walk(f.node))
    ctx.check(ok, R5, f.key, "matrix.subs({symbol_i: argument_i}) by position", "the custom-gate factory does not substitute the i-th argument for the i-th declared parameter symbol", f)
    # the arguments of an instance may themselves be expressions over the definition's symbols
    # (d(b, a), d(a + b, a)): replacing one symbol after the other lets an earlier replacement be hit by a
    # later one, so the substitution must be simultaneous
    subs_calls = [c for c in body_walk(f.node) if isinstance(c, ast.Call) and isinstance(c.func, ast.Attribute) and c.func.attr in ("subs", "xreplace") and norm(c.func.value) == "self.matrix"]
    if subs_calls:
        c = subs_calls[0]
        sim = kwarg(c, "simultaneous")
        simultaneous = c.func.attr == "xreplace" or (sim is not None and isinstance(sim, ast.Constant) and sim.value is True)
        ctx.check(simultaneous, R5, f.key + ":simultaneous", "all parameter symbols are replaced simultaneously", f"{short(c)} replaces the definition's symbols one after the other (sympy's subs is sequential unless simultaneous=True): an instance whose arguments mention the definition's own symbols, e.g. d(b, a), gets the matrix M(a, a) instead of M(b, a), so evaluating symbolically and substituting values afterwards differs from binding first", f"{f.module.relpath}:{c.lineno}")
    mf = repo.func(f"{GATES}:MatrixFactoryGate.matrix")
    r = returned_exprs(mf.node)
    ctx.check(len(r) == 1 and norm(r[0]) == "self.matrix_factory(*self.params)", R5, mf.key, "matrix = factory(*params)", f"MatrixFactoryGate.matrix returns {short(r[0]) if r else None}, not the factory applied to the bound params in order", mf)


def check_circuit_bind(ctx):
    repo = ctx.repo
    fi = repo.func(f"{CIR}:Circuit.bind")
    ctx.analysed(fi)
    mapname = positional_params(fi.node)[1]
    _map_as_given(ctx, fi, mapname)
    calls = circuit_ctor_calls(repo, fi)
    ok = False
    if len(calls) == 1:
        o = ops_expr(calls[0])
        if isinstance(o, ast.ListComp) and len(o.generators) == 1:
            g = o.generators[0]
            ok = norm(g.iter) in ("self.operations", "self._operations") and not g.ifs and norm(o.elt) == f"{norm(g.target)}.bind({mapname})"
    ctx.check(ok, R2, fi.key + ":operations", "[op.bind(map) for op in self.operations]", "Circuit.bind does not bind every operation, in order, with the caller's map", fi)
    check_width_carried(ctx, R2, fi, ["self.n_qubits", "self._n_qubits"])


def run(ctx):
    from ..lints import check_caches

    check_caches(ctx, "C06-D7 caches", ['circuits._circuit', 'circuits._gates', 'circuits._operations', 'circuits._wavefunction_operations'])
    repo = ctx.repo
    classes = _classes(repo)
    nb = 0
    for ci in classes:
        if "bind" in ci.methods:
            check_bind(ctx, ci, ci.methods["bind"])
            nb += 1
        if "replace_params" in ci.methods:
            check_replace_params(ctx, ci, ci.methods["replace_params"])
    # a modifier that wraps another gate must hand binding down to the wrapped gate (so that the refusal of Power /
    # Exponential is not bypassed when they sit under a control or a dagger): resolved through the MRO and class-level
    # aliases (`bind = Gate.bind`), the effective bind of ControlledGate / Dagger has to call `self.wrapped_gate.bind`
    for name in REWRAP:
        ci = repo.cls(f"{GATES}:{name}")
        eff = repo.find_method(ci, "bind")
        own = "bind" in ci.methods
        if eff is None:
            ctx.violation(R1, f"{GATES}:{name}.bind:delegates", f"{name} has no bind at all", ci)
            continue
        delegates = any(isinstance(c, ast.Call) and norm(c.func) == "self.wrapped_gate.bind" for c in body_walk(eff.node))
        if not own:
            ctx.check(delegates, R1, f"{GATES}:{name}.bind:delegates", f"{name}'s effective bind ({eff.qualname}) binds the wrapped gate", f"{name} no longer defines bind; the one it inherits ({eff.qualname}) re-parametrises the gate through replace_params instead of calling self.wrapped_gate.bind, so a Power or Exponential under a {name} is 'bound' without the NotImplementedError the bare wrapper raises", ci)
    for name in REFUSING:
        if "bind" not in repo.cls(f"{GATES}:{name}").methods:
            ctx.violation(R1, f"{GATES}:{name}.bind", f"{name} has no bind of its own: it inherits a binding that cannot be correct for it", repo.cls(f"{GATES}:{name}"))
    check_circuit_bind(ctx)
    check_sub_symbols(ctx)
    check_free_symbols(ctx, classes)
    check_replace_calls(ctx)
    # a gate with free symbols is embedded by the symbolic lifting and, once bound, by the numeric one: binding commutes with
    # taking the unitary only if the two liftings are the same construction on the same arguments (decided once, by C01-D5)
    from ..common import share_rule
    from . import c01

    share_rule(ctx, "C01", c01.check_embedding_paths, "C06-D6 numeric-symbolic-embedding-agree")
    # the matrix of a wrapper is a fixed matrix function (adjoint, power, exp, block embedding) of the wrapped gate's matrix and
    # nothing else: a wrapper that also rewrites symbols in it (a substitution, an assumption) evaluates differently before and
    # after binding -- the matrix idioms are decided once, by C07-D3
    from . import c07

    share_rule(ctx, "C07", c07.check_matrices, "C06-D8 wrapper-matrices")
    ctx.floor("C06-D8", 4)
    ctx.floor("C06-D6", 6)
    ctx.floor("C06-D1", 2)
    ctx.floor("C06-D2", 14)
    ctx.floor("C06-D3", 4)
    ctx.floor("C06-D4", 12)
    ctx.floor("C06-D5", 4)
