"""C17 — outcome distributions stay normalised; marginals and distances obey their laws."""
from __future__ import annotations

import ast

from ..astutil import arg_or_kw, body_walk, dotted, norm, positional_params, short, walk_local
from ..cfg import cfg_of, own_parts
from ..common import returned_exprs
from ..flow import Defs
from ..records import check_pair
from .c20 import effects_for, mutation_obligations

EXPLANATION = (
    "Structural necessary conditions decided from source: (D1) the constructor stores only the pre-processed (fresh) "
    "dictionary, every store is dominated by the validity test whose failing edge raises, normalisation is applied "
    "when requested and needed, and the validity predicate conjoins non-empty / non-negative / fixed key length / "
    "integer-tuple keys; (D2) marginalisation, queries, the three distance functions, the dispatcher and the savers "
    "never write through their receiver/arguments (interprocedural effect analysis); (D3) the symmetrised divergence "
    "is syntactically invariant under swapping its two distribution arguments; (D4) subdistribution's range and "
    "duplicate guards dominate the projection loop, the projected key follows the listed qubit order and colliding "
    "outcomes are accumulated, not overwritten; (D5) saver/loader key agreement. "
    "(D5k) writer and reader agree on the granularity at which the notation of a saved key is chosen (per key vs once per dictionary)."
    ' Round 4: swap symmetry is tested after single-definition locals are expanded; a vectorised marginal must group by the projected outcome, not by a numeric digest of it.'
    " Round 5: preprocess_distibution_dict returns a dictionary built there on every exit; both writers store the distribution's own dictionary; the projected key stays a tuple; one-entry keys are written with a separator."
    ' Round 6: the separator mark of one-entry outcomes is decided from the key being written (D5).'
    ' Round 7: the element test of _is_non_negative is the bare comparison (D1).'
)
RULE_TEXT = "instances = constructor stores, validity conjuncts, (function, parameter) purity pairs, guards, record keys; non-trivial = an obligation was evaluated; distinct by (rule, construct)"
ASSUMPTIONS = [
    "declined: MMD non-negativity/zero-on-self (symmetry is decided structurally: union basis, d^T K d with K = k(basis, basis)), NLL >= entropy, exact preservation of proportions (numeric laws)",
    "effect-analysis assumptions of C20 apply to D2",
]

MOD = "distributions._measurement_outcome_distribution"
R1 = "C17-D1 constructor-validates"
R2 = "C17-D2 pure-operations"
R3 = "C17-D3 symmetric-divergence"
R4 = "C17-D4 marginal-structure"
R5 = "C17-D5 record-keys"


def check_constructor(ctx):
    repo = ctx.repo
    fi = repo.func(f"{MOD}:MeasurementOutcomeDistribution.__init__")
    ctx.analysed(fi)
    cfg = cfg_of(fi.node)
    d = Defs(fi.node)
    ps = positional_params(fi.node)
    input_param = ps[1]
    stores = [n for n in cfg.nodes if n.kind == "stmt" and isinstance(n.ast, ast.Assign) and norm(n.ast.targets[0]) == "self.distribution_dict"]
    if not stores:
        ctx.undecided(R1, fi.key, "no store to self.distribution_dict found", fi)
        return
    # the validity test
    tests = [n for n in cfg.nodes if n.kind == "test" and isinstance(n.ast, ast.If) and "is_measurement_outcome_distribution" in norm(n.ast.test)]
    if len(tests) != 1:
        ctx.undecided(R1, fi.key, f"expected one validity test is_measurement_outcome_distribution(...), found {len(tests)}", fi)
        return
    t = tests[0]
    test = t.ast.test
    negated = isinstance(test, ast.UnaryOp) and isinstance(test.op, ast.Not)
    call = test.operand if negated else test
    ok_label, bad_label = ("false", "true") if negated else ("true", "false")
    validated = norm(call.args[0]) if isinstance(call, ast.Call) and call.args else None
    # what is validated is the pre-processed dictionary
    fresh_ok = validated is not None and "call:preprocess_distibution_dict" in d.atoms(call.args[0]) and isinstance(call.args[0], ast.Name)
    ctx.check(fresh_ok, R1, fi.key + ":validated-object", f"the validity test is applied to the pre-processed dictionary `{validated}`", f"the validity test is applied to `{validated}`, not to the pre-processed copy of the input", f"{fi.module.relpath}:{t.lineno}")
    for s in stores:
        where = f"{fi.module.relpath}:{s.lineno}"
        construct = f"{fi.key}:store:{short(s.ast.value, 60)}"
        dom = cfg.edge_dominates(t, ok_label, s) and cfg.dominates(t, s)
        ctx.check(dom, R1, construct + ":dominated", "store happens only after the dictionary passed validation", "self.distribution_dict can be stored without passing is_measurement_outcome_distribution: an invalid distribution object can exist", where)
        v = s.ast.value
        atoms = d.atoms(v)
        stored_fresh = (isinstance(v, ast.Name) and v.id == validated) or (isinstance(v, ast.Call) and "normalize_measurement_outcome_distribution" in norm(v.func) and v.args and norm(v.args[0]) == validated)
        ctx.check(stored_fresh and norm(v) != input_param, R1, construct + ":fresh", "stores the validated pre-processed dictionary (or its normalisation)", f"stores {short(v)}: not the validated pre-processed dictionary (the caller's dict or an unvalidated object becomes the distribution's state)", where)
    # the failing edge raises
    bad_targets = [n for n, lab in t.succ if lab == bad_label]
    raises = bool(bad_targets) and all(isinstance(x.ast, ast.Raise) for x in bad_targets)
    ctx.check(raises, R1, fi.key + ":reject", "invalid input raises", "invalid input (empty / negative / ragged keys) does not raise", f"{fi.module.relpath}:{t.lineno}")
    # normalisation taken when `normalize` and not normalised
    norm_stores = [s for s in stores if isinstance(s.ast.value, ast.Call) and "normalize_measurement_outcome_distribution" in norm(s.ast.value.func)]
    ok_norm = False
    if norm_stores:
        s = norm_stores[0]
        nt = [n for n in cfg.nodes if n.kind == "test" and isinstance(n.ast, ast.If) and norm(n.ast.test) in ("normalize", ps[2] if len(ps) > 2 else "normalize")]
        it = [n for n in cfg.nodes if n.kind == "test" and isinstance(n.ast, ast.If) and "is_normalized" in norm(n.ast.test)]
        if nt and it:
            neg_it = isinstance(it[0].ast.test, ast.UnaryOp)
            ok_norm = cfg.edge_dominates(nt[0], "true", s) and cfg.edge_dominates(it[0], "true" if neg_it else "false", s)
            # and every path with normalize=True and not normalised reaches the normalising store
            others = [x for x in stores if x is not s]
            for o in others:
                if not (cfg.edge_dominates(nt[0], "false", o) or cfg.edge_dominates(it[0], "false" if neg_it else "true", o)):
                    ok_norm = False
    if not norm_stores:
        # other spelling: the validated dictionary is *re-bound* to its normalisation under the same two guards, and one store
        # after the branches keeps whatever the name holds then
        rebinds = [n for n in cfg.nodes if isinstance(n.ast, ast.Assign) and isinstance(n.ast.targets[0], ast.Name) and n.ast.targets[0].id == validated and isinstance(n.ast.value, ast.Call) and "normalize_measurement_outcome_distribution" in norm(n.ast.value.func) and n.ast.value.args and norm(n.ast.value.args[0]) == validated]
        nt = [n for n in cfg.nodes if n.kind == "test" and isinstance(n.ast, ast.If) and norm(n.ast.test) in ("normalize", ps[2] if len(ps) > 2 else "normalize")]
        it = [n for n in cfg.nodes if n.kind == "test" and isinstance(n.ast, ast.If) and "is_normalized" in norm(n.ast.test)]
        if len(rebinds) == 1 and nt and it and len(stores) == 1 and isinstance(stores[0].ast.value, ast.Name) and stores[0].ast.value.id == validated:
            rb = rebinds[0]
            neg_it = isinstance(it[0].ast.test, ast.UnaryOp)
            ok_norm = cfg.edge_dominates(nt[0], "true", rb) and cfg.edge_dominates(it[0], "true" if neg_it else "false", rb) and cfg.reaches(rb, stores[0]) and not cfg.dominates(nt[0], stores[0]) is None
            # the store itself must not sit under either guard (it has to be reached on every validated path)
            ok_norm = ok_norm and not any(cfg.edge_dominates(g, lab, stores[0]) for g in (nt[0], it[0]) for lab in ("true", "false"))
    ctx.check(ok_norm, R1, fi.key + ":normalise", "un-normalised input is normalised exactly when normalize is set", "the normalising store is not selected exactly by (normalize and not is_normalized): a distribution built with normalisation on may stay un-normalised", fi)
    # validity predicate: four conjuncts
    pred = repo.func(f"{MOD}:is_measurement_outcome_distribution")
    ctx.analysed(pred)
    rets = returned_exprs(pred.node)
    conj = []
    if len(rets) == 1 and isinstance(rets[0], ast.BoolOp) and isinstance(rets[0].op, ast.And):
        conj = [norm(v) for v in rets[0].values]
    need = {
        "non-empty": lambda c: "== {}" in c or "len(" in c or c.strip("()").startswith("not input_dict") or c in ("input_dict", "bool(input_dict)"),
        "non-negative": lambda c: "_is_non_negative" in c,
        "fixed key length": lambda c: "_is_key_length_fixed" in c,
        "integer tuple keys": lambda c: "_are_keys_non_negative_integer_tuples" in c,
    }
    for name, p in need.items():
        ctx.check(any(p(c) for c in conj), R1, pred.key + ":" + name, f"conjunct present: {name}", f"the validity predicate no longer requires '{name}' (conjuncts: {conj})", pred)
    # the non-negativity helper really compares every value with >= 0
    nn = repo.func(f"{MOD}:_is_non_negative")
    r = returned_exprs(nn.node)
    ok_nn = len(r) == 1 and isinstance(r[0], ast.Call) and dotted(r[0].func) == "all" and any(isinstance(c, ast.Compare) and len(c.ops) == 1 and ((isinstance(c.ops[0], ast.GtE) and norm(c.comparators[0]) == "0") or (isinstance(c.ops[0], ast.LtE) and norm(c.left) == "0")) for c in walk_local(r[0])) and ".values()" in norm(r[0])
    if ok_nn and isinstance(r[0].args[0], (ast.GeneratorExp, ast.ListComp)):
        elt = r[0].args[0].elt
        # ... and nothing else: a disjunct (`or isclose(value, 0)`) lets slightly negative weights through, and nothing clips them later
        ok_nn = isinstance(elt, ast.Compare) or (isinstance(elt, ast.BoolOp) and isinstance(elt.op, ast.And))
    ctx.check(ok_nn, R1, nn.key, "all(value >= 0 ...) over the values", f"_is_non_negative is {short(r[0]) if r else None}: it does not require every value to be >= 0", nn)
    kl = repo.func(f"{MOD}:_is_key_length_fixed")
    r = returned_exprs(kl.node)
    ok_kl = len(r) == 1 and isinstance(r[0], ast.Call) and dotted(r[0].func) == "all" and any(isinstance(c, ast.Compare) and isinstance(c.ops[0], ast.Eq) and "len(" in norm(c.left) for c in walk_local(r[0]))
    ctx.check(ok_kl, R1, kl.key, "all(len(key) == key_length ...)", f"_is_key_length_fixed is {short(r[0]) if r else None}: keys of unequal length are no longer rejected", kl)
    # normaliser divides every entry by the norm
    nz = repo.func(f"{MOD}:normalize_measurement_outcome_distribution")
    ctx.analysed(nz, nn, kl)
    scaled = any(
        isinstance(n, ast.AugAssign) and isinstance(n.op, (ast.Mult, ast.Div)) and "norm" in norm(n.value)
        or isinstance(n, (ast.DictComp,)) and "norm" in norm(n.value)
        for n in body_walk(nz.node)
    )
    ctx.check(scaled, R1, nz.key, "every value scaled by 1/norm", "normalisation no longer rescales every value by the total", nz)


def check_purity(ctx):
    repo = ctx.repo
    eff = effects_for(ctx)
    keys = [
        f"{MOD}:MeasurementOutcomeDistribution.subdistribution",
        f"{MOD}:MeasurementOutcomeDistribution.get_number_of_subsystems",
        f"{MOD}:MeasurementOutcomeDistribution.__repr__",
        f"{MOD}:evaluate_distribution_distance",
        f"{MOD}:save_measurement_outcome_distribution",
        f"{MOD}:save_measurement_outcome_distributions",
        f"{MOD}:change_tuple_dict_keys_to_comma_separated_integers",
        f"{MOD}:is_normalized",
        f"{MOD}:is_measurement_outcome_distribution",
        "distributions.mmd:compute_mmd",
        "distributions.clipped_negative_log_likelihood:compute_clipped_negative_log_likelihood",
        "distributions.jensen_shannon_divergence:compute_jensen_shannon_divergence",
    ]
    funcs = [repo.func(k) for k in keys]
    mutation_obligations(ctx, R2, funcs, eff)
    # the parameter dictionaries of the distance measures are shared between calls (JS passes one dict to both
    # directed evaluations): they must not be consumed either, whatever their annotation says
    for k in keys[-3:]:
        fi = repo.func(k)
        summ = eff.summary(fi)
        ps = positional_params(fi.node)
        if len(ps) < 3:
            ctx.undecided(R2, fi.key + "(parameters)", "distance function without a parameter-dictionary argument", fi)
            continue
        p = ps[2]
        sites = [s for (pp, dd), ss in summ.mutates.items() if pp == p for s in ss]
        if sites:
            ctx.violation(R2, f"{fi.key}({p})", f"{fi.qualname} edits the caller's parameter dictionary `{p}` ({sites[0].text} at {sites[0].where}): a second evaluation with the same dictionary (as the symmetrised divergence does) sees different parameters", sites[0].where)
        else:
            ctx.ok(R2, f"{fi.key}({p})", "parameter dictionary only read", fi)


def check_symmetry(ctx):
    fi = ctx.repo.func("distributions.jensen_shannon_divergence:compute_jensen_shannon_divergence")
    ctx.analysed(fi)
    ps = positional_params(fi.node)
    a, b = ps[0], ps[1]
    d = Defs(fi.node)
    rets = returned_exprs(fi.node)
    if len(rets) != 1:
        ctx.undecided(R3, fi.key, "expected a single return", fi)
        return
    expr = rets[0]
    if isinstance(expr, ast.Name):
        e2 = d.single_def(expr.id)
        if isinstance(e2, ast.AST):
            expr = e2

    import copy as _copy

    class Expand(ast.NodeTransformer):
        """locals defined once are replaced by their definition: a value computed from one distribution before the swap-symmetric
        expression (a shared support, a shared normaliser) breaks the symmetry just as if it were written inline"""

        def __init__(self):
            self.depth = 0

        def visit_Name(self, n):
            if n.id in ps or not isinstance(n.ctx, ast.Load) or self.depth > 6:
                return n
            v = d.single_def(n.id)
            if isinstance(v, ast.AST) and len(d.defs.get(n.id, [])) == 1:
                self.depth += 1
                out = self.visit(_copy.deepcopy(v))
                self.depth -= 1
                return out
            return n

    expr = Expand().visit(_copy.deepcopy(expr))

    class Swap(ast.NodeTransformer):
        def visit_Name(self, n):
            if n.id == a:
                return ast.copy_location(ast.Name(id=b, ctx=n.ctx), n)
            if n.id == b:
                return ast.copy_location(ast.Name(id=a, ctx=n.ctx), n)
            return n

    import copy as _copy

    swapped = Swap().visit(_copy.deepcopy(expr))
    ok = _commutative_normal(expr) == _commutative_normal(swapped) and a in norm(expr) and b in norm(expr)
    ctx.check(ok, R3, fi.key, "return expression is invariant under swapping the two distributions (modulo commutativity of +)", f"the symmetrised divergence {short(expr)} is not invariant under swapping its two distribution arguments", fi)


R3M = "C17-D3m mmd-structure"


def _union_of(e: ast.AST, a: str, b: str, d: Defs) -> Optional[bool]:
    """True if e denotes the union of key collections a and b (symmetric in them), False if it
    recognisably is not (one side missing, vacuous filter), None if unrecognised."""
    t = norm(e)
    forms = set()
    for x, y in ((a, b), (b, a)):
        forms |= {f"set({x}).union({y})", f"set({x}) | set({y})", f"set({x}).union(set({y}))", f"{{*{x}, *{y}}}", f"sorted(set({x}) | set({y}))", f"sorted(set({x}).union({y}))",
                  f"list(dict.fromkeys([*{x}, *{y}]))", f"list({x}) + [key for key in {y} if key not in {x}]", f"[*{x}, *[key for key in {y} if key not in {x}]]", f"set({x}) | {y}", f"{x} | {y}"}
    if t in forms:
        return True
    names = {n for n in (a, b) if n in {x.id for x in ast.walk(e) if isinstance(x, ast.Name)}}
    for c in ast.walk(e):
        if isinstance(c, (ast.ListComp, ast.GeneratorExp, ast.SetComp)):
            for g in c.generators:
                for cond in g.ifs:
                    inner = cond.operand if isinstance(cond, ast.UnaryOp) and isinstance(cond.op, ast.Not) else cond
                    if isinstance(inner, ast.Compare) and len(inner.ops) == 1 and isinstance(inner.ops[0], (ast.In, ast.NotIn)) and norm(inner.left) == norm(g.target) and norm(inner.comparators[0]) == norm(g.iter):
                        return False  # `x for x in S if x not in S` selects nothing / everything: the filter is vacuous
    if len(names) < 2:
        return False
    return None


def check_mmd(ctx):
    repo = ctx.repo
    fi = repo.func("distributions.mmd:compute_mmd")
    ctx.analysed(fi)
    ta, me = positional_params(fi.node)[:2]
    d = Defs(fi.node)

    def expand(e, hops=3):
        while isinstance(e, ast.Name) and hops > 0:
            ds = [x for x in d.defs.get(e.id, []) if isinstance(x, ast.AST)]
            if len(ds) != 1:
                break
            e, hops = ds[0], hops - 1
        return e

    key_names = {}
    for nm, vs in d.defs.items():
        for v in vs:
            if isinstance(v, ast.AST) and norm(v) in (f"{ta}.distribution_dict.keys()", f"{ta}.distribution_dict", f"list({ta}.distribution_dict)", f"list({ta}.distribution_dict.keys())"):
                key_names["target"] = nm
            if isinstance(v, ast.AST) and norm(v) in (f"{me}.distribution_dict.keys()", f"{me}.distribution_dict", f"list({me}.distribution_dict)", f"list({me}.distribution_dict.keys())"):
                key_names["measured"] = nm
    loops = [l for l in fi.node.body if isinstance(l, ast.For)]
    if len(key_names) != 2 or len(loops) != 1:
        ctx.undecided(R3M, fi.key + ":basis", "cannot find the two key collections and the loop over their union", fi)
        return
    basis_name = norm(loops[0].iter)
    basis_def = expand(loops[0].iter)
    u = _union_of(basis_def, key_names["target"], key_names["measured"], d)
    if u is None:
        ctx.undecided(R3M, fi.key + ":basis", f"cannot classify the outcome basis {short(basis_def)}", fi)
    else:
        ctx.check(u, R3M, fi.key + ":basis", "the outcome basis is the union of both supports", f"the outcome basis {short(basis_def)} is not the union of the two supports (an outcome present in only one distribution is dropped): the distance then depends on the argument order", f"{fi.module.relpath}:{getattr(basis_def, 'lineno', fi.node.lineno)}")
    k = norm(loops[0].target)
    apps = {norm(c.func.value): norm(c.args[0]) for c in ast.walk(loops[0]) if isinstance(c, ast.Call) and isinstance(c.func, ast.Attribute) and c.func.attr == "append" and c.args}
    want = {f"{ta}.distribution_dict.get({k}, 0)", f"{me}.distribution_dict.get({k}, 0)"}
    ctx.check(set(apps.values()) == want and len(apps) == 2, R3M, fi.key + ":vectors", "both probability vectors are read over the same basis with 0 for absent outcomes", f"the two probability vectors are filled with {sorted(apps.values())}: each must be its own distribution's value (0 if absent) for every basis outcome", fi)
    vec_of = {v: nm for nm, v in apps.items()}
    tv, mv = vec_of.get(f"{ta}.distribution_dict.get({k}, 0)"), vec_of.get(f"{me}.distribution_dict.get({k}, 0)")
    bas = [v for nm, vs in d.defs.items() for v in vs if isinstance(v, ast.Call) and (dotted(v.func) or "").endswith("asarray") and v.args and isinstance(v.args[0], ast.ListComp)]
    ok = len(bas) == 1 and norm(bas[0].args[0].generators[0].iter) == basis_name and not bas[0].args[0].generators[0].ifs
    ctx.check(ok, R3M, fi.key + ":kernel-points", "kernel points enumerate the same basis in the same order", "the kernel points are not computed from the same outcome basis (in the same iteration order) as the probability vectors", fi)
    kcalls = [c for c in body_walk(fi.node) if isinstance(c, ast.Call) and dotted(c.func) in ("compute_rbf_kernel", "compute_multi_rbf_kernel")]
    ok = len(kcalls) == 2 and all(len(c.args) == 3 and norm(c.args[0]) == norm(c.args[1]) for c in kcalls)
    ctx.check(ok, R3M, fi.key + ":kernel-args", "kernel evaluated on (basis, basis): symmetric Gram matrix", "the kernel matrix is not evaluated between the basis and itself", fi)
    diffs = [v for nm, vs in d.defs.items() for v in vs if isinstance(v, ast.BinOp) and isinstance(v.op, ast.Sub) and tv and mv and {norm(v.left), norm(v.right)} == {f"np.array({tv})", f"np.array({mv})"}]
    rets = returned_exprs(fi.node)
    ok = len(diffs) == 1 and len(rets) == 1 and norm(rets[0]) in ("diff.dot(kernel_matrix.dot(diff))", "diff @ kernel_matrix @ diff", "diff.dot(kernel_matrix).dot(diff)", "diff @ (kernel_matrix @ diff)")
    ctx.check(ok, R3M, fi.key + ":quadratic-form", "MMD = d^T K d with d the difference of the two vectors", "the result is not the quadratic form of the difference vector with the kernel matrix (sign-symmetric in the two distributions)", fi)


def _commutative_normal(e: ast.AST):
    """Nested tuple normal form: + and * flattened and sorted."""
    if isinstance(e, ast.BinOp) and isinstance(e.op, (ast.Add, ast.Mult)):
        op = type(e.op).__name__
        parts = []

        def flat(x):
            if isinstance(x, ast.BinOp) and type(x.op).__name__ == op:
                flat(x.left)
                flat(x.right)
            else:
                parts.append(_commutative_normal(x))

        flat(e)
        return (op, tuple(sorted(map(repr, parts))))
    if isinstance(e, ast.BinOp):
        return (type(e.op).__name__, _commutative_normal(e.left), _commutative_normal(e.right))
    if isinstance(e, ast.Call):
        return ("call", norm(e.func), tuple(_commutative_normal(a) for a in e.args), tuple(sorted((k.arg or "", repr(_commutative_normal(k.value))) for k in e.keywords)))
    if isinstance(e, ast.UnaryOp):
        return (type(e.op).__name__, _commutative_normal(e.operand))
    return norm(e)


def check_subdistribution(ctx):
    fi = ctx.repo.func(f"{MOD}:MeasurementOutcomeDistribution.subdistribution")
    ctx.analysed(fi)
    cfg = cfg_of(fi.node)
    ps = positional_params(fi.node)
    q = ps[1]
    loops = [n for n in cfg.nodes if n.kind == "for"]
    proj_loops = [n for n in loops if "distribution_dict" in norm(n.ast.iter)]
    items_loop = bool(proj_loops) and isinstance(proj_loops[0].ast.iter, ast.Call) and norm(proj_loops[0].ast.iter) == "self.distribution_dict.items()" and isinstance(proj_loops[0].ast.target, ast.Tuple) and len(proj_loops[0].ast.target.elts) == 2
    if len(proj_loops) != 1:
        # vectorised grouping: the groups must be keyed by the projected outcome itself. A numeric digest of it (positional code,
        # dot product, sum, hash) is injective only on a restricted alphabet / width, so distinct projections can share a group
        d0 = Defs(fi.node)
        for c in body_walk(fi.node):
            if isinstance(c, ast.Call) and (dotted(c.func) or "").split(".")[-1] in ("unique", "bincount", "groupby") and c.args and not any(k.arg == "axis" for k in c.keywords):
                key = c.args[0]
                chain, seen_names = [key], set()
                while chain:
                    e = chain.pop()
                    for y in ast.walk(e):
                        if isinstance(y, ast.Name) and y.id not in seen_names:
                            seen_names.add(y.id)
                            chain.extend(v for v in d0.defs.get(y.id, []) if isinstance(v, ast.AST))
                        digest = (isinstance(y, ast.Call) and isinstance(y.func, ast.Attribute) and y.func.attr in ("dot", "sum", "matmul", "tobytes")) or (isinstance(y, ast.Call) and dotted(y.func) in ("hash", "np.dot", "np.sum", "numpy.dot", "sum")) or (isinstance(y, ast.BinOp) and isinstance(y.op, (ast.MatMult, ast.LShift, ast.Pow)))
                        if digest:
                            ctx.violation(R4, fi.key + ":grouping-key", f"projected outcomes are grouped by `{short(key)}`, a numeric digest (`{short(y)}`) of the projected outcome: it is not injective on tuples of arbitrary equal-length outcomes (entries other than 0/1, or more positions than the integer width), so distinct projected outcomes are merged into one key", f"{fi.module.relpath}:{c.lineno}")
                            return
        ctx.undecided(R4, fi.key, f"expected one projection loop over the distribution's keys, found {len(proj_loops)}", fi)
        return
    loop = proj_loops[0]
    tests = [n for n in cfg.nodes if n.kind == "test" and isinstance(n.ast, ast.If)]
    range_guard = [t for t in tests if "max(" in norm(t.ast.test) and q in norm(t.ast.test)]
    dup_guard = [t for t in tests if "set(" in norm(t.ast.test) and "len(" in norm(t.ast.test) and q in norm(t.ast.test)]
    for name, gs in (("out-of-range", range_guard), ("duplicate", dup_guard)):
        ok = False
        if gs:
            g = gs[0]
            ok = cfg.dominates(g, loop) and cfg.edge_dominates(g, "true", loop) is False and all(isinstance(x.ast, ast.Raise) for x, lab in g.succ if lab == "true")
            # edge_dominates(g,'true',loop) False means the loop is reachable without the true edge; we need: loop NOT reachable via true edge
            ok = cfg.dominates(g, loop) and all(isinstance(x.ast, ast.Raise) for x, lab in g.succ if lab == "true")
        ctx.check(ok, R4, fi.key + f":{name}-guard", f"the {name} guard raises before any projection", f"the {name} check on the qubit list no longer precedes (or no longer aborts) the projection", fi)
    # the projected key iterates the listed qubits in the given order
    key_defs = []
    for n in ast.walk(loop.ast):
        if isinstance(n, (ast.GeneratorExp, ast.ListComp)) and len(n.generators) == 1 and isinstance(n.elt, (ast.Call, ast.Subscript)):
            sub = [x for x in ast.walk(n.elt) if isinstance(x, ast.Subscript)]
            if sub and norm(sub[0].slice) == norm(n.generators[0].target):
                key_defs.append(n)
    if not key_defs:
        ctx.violation(R4, fi.key + ":projection-order", "the projected key is not built by indexing the outcome with each listed qubit in turn (key[i] for i in active_qubits): the marginal may ignore the listed order or pick other qubits", f"{fi.module.relpath}:{loop.lineno}")
    for kd in key_defs:
        it = kd.generators[0].iter
        ok = norm(it) == q and not kd.generators[0].ifs
        ctx.check(ok, R4, fi.key + ":projection-order", "projected key = outcome[i] for i in the listed qubits, in the listed order", f"projected key iterates {short(it)} instead of the qubit list as given: the listed order is not preserved", f"{fi.module.relpath}:{kd.lineno}")
    # ... and stays a tuple of the outcome's entries. A key rendered as text is re-read by the constructor (per character
    # without a comma, split at commas otherwise): an entry of 10 or more comes back as several entries, a one-entry key such
    # as "12" even with the comma notation -- outcomes are "non-negative integer sequences", not bits
    parents = {}
    for n in ast.walk(loop.ast):
        for ch in ast.iter_child_nodes(n):
            parents[ch] = n
    for kd in key_defs:
        par = parents.get(kd)
        where_k = f"{fi.module.relpath}:{kd.lineno}"
        if isinstance(par, ast.Call) and isinstance(par.func, ast.Attribute) and par.func.attr == "join" and isinstance(par.func.value, ast.Constant):
            sep = par.func.value.value
            ctx.violation(R4, fi.key + ":key-notation", f"the projected key is rendered as text ({short(par, 70)}) and re-read by the constructor " + ("character by character: an outcome entry of 10 or more is split into its digits, so (10, 2) projected on [0] becomes (1, 0)" if sep == "" else "by splitting at the separator: a projection on a single subsystem has no separator and an entry of 10 or more is split into its digits"), where_k)
        elif isinstance(par, ast.Call) and dotted(par.func) == "tuple" and not isinstance(kd.elt, ast.Call):
            ctx.ok(R4, fi.key + ":key-notation", "the projected key is the tuple of the outcome's own entries", where_k)
        else:
            ctx.undecided(R4, fi.key + ":key-notation", f"cannot tell what kind of key {short(par if par is not None else kd, 70)} is", where_k)
    # every path through the loop body builds the key that way (no alternative fast path)
    body_keys = [s for s in ast.walk(loop.ast) if isinstance(s, ast.Assign) and isinstance(s.targets[0], ast.Name) and s.targets[0].id in ("new_key",)]
    alt = [s for s in body_keys if not any(kd in list(ast.walk(s.value)) for kd in key_defs)]
    for s in alt:
        ctx.violation(R4, fi.key + ":projection-order:alt", f"an alternative way of building the projected key exists ({short(s)}): it does not index the outcome by each listed qubit", f"{fi.module.relpath}:{s.lineno}")
    # accumulation: new[k] = value + new.get(k, 0)  (or +=, or defaultdict)
    acc_ok = False
    for s in ast.walk(loop.ast):
        if isinstance(s, ast.Assign) and isinstance(s.targets[0], ast.Subscript) and isinstance(s.value, ast.BinOp) and isinstance(s.value.op, ast.Add):
            tgt = norm(s.targets[0].value)
            if f"{tgt}.get(" in norm(s.value) or f"{tgt}[" in norm(s.value):
                acc_ok = True
        if isinstance(s, ast.AugAssign) and isinstance(s.op, ast.Add) and isinstance(s.target, ast.Subscript):
            acc_ok = True
    ctx.check(acc_ok, R4, fi.key + ":accumulate", "probabilities of outcomes projecting to the same key are added", "outcomes projecting to the same key overwrite each other instead of being summed: the result is not the marginal", f"{fi.module.relpath}:{loop.lineno}")
    # the source probabilities read are the receiver's
    reads = [n for n in ast.walk(loop.ast) if isinstance(n, ast.Subscript) and norm(n.value) == "self.distribution_dict"]
    reads += [n for n in ast.walk(loop.ast) if isinstance(n, ast.Call) and isinstance(n.func, ast.Attribute) and n.func.attr in ("get", "pop") and norm(n.func.value) == "self.distribution_dict"]
    if items_loop and any(isinstance(n, ast.Name) and n.id == norm(proj_loops[0].ast.target.elts[1]) for n in ast.walk(loop.ast) if not any(n is t for t in ast.walk(proj_loops[0].ast.target))):
        reads = reads or [proj_loops[0].ast.iter]  # `for key, probability in self.distribution_dict.items()`: the value read is the key's own
    ctx.check(bool(reads), R4, fi.key + ":source", "probabilities are read from self.distribution_dict[key]", "the projection does not read the receiver's probabilities by key", fi)


def check_nll_domain(ctx):
    """NLL(target | model) = -sum_x target(x) log max(eps, model(x)) ranges over every outcome the *target* gives weight to
    (outcomes only the model has contribute 0). Summing over the model's outcomes only drops target(x) log(eps) for every
    target outcome the model misses -- exactly the terms that keep the value above the target's entropy."""
    repo = ctx.repo
    f = repo.func("distributions.clipped_negative_log_likelihood:compute_clipped_negative_log_likelihood")
    ctx.analysed(f)
    ps = positional_params(f.node)
    tgt, meas = ps[0], ps[1]
    d = Defs(f.node)
    doms = []
    for n in body_walk(f.node):
        it = None
        if isinstance(n, ast.For) and any(isinstance(c, ast.Call) and (dotted(c.func) or "").split(".")[-1] in ("log", "log2", "log10") for c in ast.walk(n)):
            it = n.iter
        elif isinstance(n, (ast.GeneratorExp, ast.ListComp)) and any(isinstance(c, ast.Call) and (dotted(c.func) or "").split(".")[-1] in ("log", "log2", "log10") for c in ast.walk(n.elt)):
            it = n.generators[0].iter
        if it is not None:
            doms.append(it)
    if not doms:
        ctx.undecided(R2, f.key + ":domain", "cannot find the summation containing the logarithm", f)
        return
    for it in doms:
        atoms = d.atoms(it) | {norm(it)}
        txt = " ".join(sorted(atoms))
        has_t = tgt in txt
        has_m = meas in txt
        ctx.check(has_t, "C17-D3n nll-domain", f.key + ":domain", "the sum ranges over the target's outcomes (or the union of both supports)", f"the log-likelihood is summed over `{short(it)}`, which does not include the target distribution's outcomes: target outcomes the model gives no entry contribute nothing instead of target(x)*log(eps), so the value can fall below the target's entropy", f"{f.module.relpath}:{getattr(it, 'lineno', f.node.lineno)}")


def check_constructor_owns_its_dictionary(ctx):
    """The constructor normalises `preprocess_distibution_dict(input)` in place and keeps it: that is only harmless because the
    preprocessing step always builds a new dictionary. An exit that hands back the caller's dictionary (a "nothing to convert"
    shortcut) makes the constructor rescale the caller's weights and share the storage with the caller."""
    from ..common import exit_exprs

    f = ctx.repo.func(f"{MOD}:preprocess_distibution_dict")
    ctx.analysed(f)
    p0 = positional_params(f.node)[0]
    same = [e for e in exit_exprs(f.node) if isinstance(e, ast.Name) and e.id == p0]
    ctx.check(not same, R1, f.key + ":fresh-dictionary", "every exit returns a dictionary built here", f"preprocess_distibution_dict returns its argument `{p0}` itself on some path: the constructor then normalises the *caller's* dictionary in place and keeps a reference to it, so the caller's weights are rescaled and later edits of that dictionary change the distribution object (which then no longer sums to 1)", f"{f.module.relpath}:{same[0].lineno}" if same else f)


def check_writers_store_every_outcome(ctx):
    """Both writers store the distribution's dictionary as it is: an outcome listed with probability 0 is a key of the distribution
    and has to come back; a writer that filters (or otherwise rebuilds) the dictionary disagrees with its sibling and with the
    reader."""
    repo = ctx.repo
    n = 0
    for name in ("save_measurement_outcome_distribution", "save_measurement_outcome_distributions"):
        f = repo.func(f"{MOD}:{name}")
        ctx.analysed(f)
        d = Defs(f.node)
        calls = [c for c in body_walk(f.node) if isinstance(c, ast.Call) and dotted(c.func) == "change_tuple_dict_keys_to_comma_separated_integers" and c.args]
        if not calls:
            ctx.undecided(R5, f.key + ":every-outcome", "cannot find the key conversion call", f)
            continue
        for c in calls:
            n += 1
            a = c.args[0]
            if isinstance(a, ast.Name):
                ds = [x for x in d.defs.get(a.id, []) if isinstance(x, ast.AST)]
                a = ds[0] if len(ds) == 1 else a
            ok = isinstance(a, ast.Attribute) and a.attr == "distribution_dict"
            filtered = isinstance(a, (ast.DictComp, ast.ListComp, ast.GeneratorExp)) and any(g.ifs for g in a.generators)
            ctx.check(ok, R5, f.key + ":every-outcome", "the distribution's own dictionary is what is written", f"{name} writes {short(a, 90)} instead of the distribution's dictionary" + (": outcomes are filtered out before writing, so a distribution that lists an outcome with probability 0 comes back without that key" if filtered else ""), f"{f.module.relpath}:{c.lineno}")


def check_key_notation(ctx):
    """The saved key of an outcome is text; writer and reader must agree on *how the notation of one key is chosen*.
    If the writer may choose the notation key by key (separator depending on the key), the reader has to recognise it key by
    key as well: a reader that decides once for the whole file mis-parses (or rejects) files mixing both notations."""
    repo = ctx.repo
    w = repo.func(f"{MOD}:change_tuple_dict_keys_to_comma_separated_integers")
    r = repo.func(f"{MOD}:preprocess_distibution_dict")
    ctx.analysed(w, r)
    # writer: the separator of the join producing the text of a tuple key
    joins = [c for c in body_walk(w.node) if isinstance(c, ast.Call) and isinstance(c.func, ast.Attribute) and c.func.attr == "join"]
    comp_vars = {n.id for c in body_walk(w.node) if isinstance(c, (ast.DictComp, ast.ListComp, ast.GeneratorExp)) for g in c.generators for n in ast.walk(g.target) if isinstance(n, ast.Name)}
    comp_vars |= {n.id for l in body_walk(w.node) if isinstance(l, ast.For) for n in ast.walk(l.target) if isinstance(n, ast.Name)}
    wd = Defs(w.node)
    writer_per_key = None
    for j in joins:
        sep = j.func.value
        if isinstance(sep, ast.Constant):
            writer_per_key = writer_per_key or False
        else:
            names = {n.id for n in ast.walk(sep) if isinstance(n, ast.Name)}
            deps = set(names)
            for nm in names:
                for dv in wd.defs.get(nm, []):
                    if isinstance(dv, ast.AST):
                        deps |= {n.id for n in ast.walk(dv) if isinstance(n, ast.Name)}
            writer_per_key = bool(deps & comp_vars) or writer_per_key
    calls_helper = [c for c in body_walk(w.node) if isinstance(c, ast.Call) and isinstance(c.func, ast.Name) and c.func.id in w.module.functions and any(isinstance(a, ast.Name) and a.id in comp_vars for a in c.args)]
    if writer_per_key is None and calls_helper:
        writer_per_key = True  # the text of a key is produced by a helper given the key: notation may depend on it
    if writer_per_key is None:
        ctx.undecided(R5, w.key + ":key-notation", "cannot find how the text of a tuple key is produced", w)
        return
    # reader: is the split/no-split decision made from the key being converted?
    loops = [l for l in body_walk(r.node) if isinstance(l, ast.For)]
    reader_per_key = None
    if loops:
        l = loops[0]
        kv = {n.id for n in ast.walk(l.target) if isinstance(n, ast.Name)}
        rd = Defs(r.node)
        tests = [n.test for n in ast.walk(l) if isinstance(n, (ast.IfExp, ast.If))]
        tests = [t for t in tests if "isinstance" not in norm(t)]
        for t in tests:
            names = {n.id for n in ast.walk(t) if isinstance(n, ast.Name)}
            if names & kv:
                reader_per_key = True
            elif reader_per_key is None:
                reader_per_key = False
        if not tests:
            reader_per_key = True  # no notation decision at all inside the loop: a single notation is parsed
    if reader_per_key is None:
        ctx.undecided(R5, r.key + ":key-notation", "cannot find the loop converting the stored keys", r)
        return
    # a one-entry outcome: the joined text of a 1-tuple contains no separator, and a reader whose separator-free branch reads the
    # text character by character turns the entry 12 into the two entries 1, 2. The writer has to mark one-entry keys (a
    # trailing separator, Python's own notation for a 1-tuple) or the reader must not split separator-free text
    per_char = [c for c in body_walk(r.node) if isinstance(c, ast.Call) and dotted(c.func) in ("map", "tuple", "list") and c.args and isinstance(c.args[-1], ast.IfExp) and any("split" in norm(x) for x in (c.args[-1].body, c.args[-1].orelse))]
    def _len_is_one_tests(fn_node, per_key_names):
        """`len(x) == 1` tests; the mark is only sound when x is the key being written (not, say, the whole dictionary)"""
        good = bad = 0
        fd = Defs(fn_node)
        for t in ast.walk(fn_node):
            if isinstance(t, ast.Compare) and "len(" in norm(t) and norm(t.comparators[0]) == "1":
                ln = [c for c in ast.walk(t.left) if isinstance(c, ast.Call) and dotted(c.func) == "len" and c.args]
                names = {n.id for c in ln for n in ast.walk(c.args[0]) if isinstance(n, ast.Name)}
                deps = set(names)
                for nm in names:
                    for dv in fd.defs.get(nm, []):
                        if isinstance(dv, ast.AST):
                            deps |= {n.id for n in ast.walk(dv) if isinstance(n, ast.Name)}
                if deps & per_key_names:
                    good += 1
                else:
                    bad += 1
        return good, bad

    g, b = _len_is_one_tests(w.node, comp_vars)
    marks_single = g > 0 or any(isinstance(x, ast.BinOp) and isinstance(x.op, ast.Add) and isinstance(x.right, ast.Constant) and x.right.value == "," for x in ast.walk(w.node))
    foreign_mark = b > 0 and g == 0
    for hf in [w.module.functions[c.func.id] for c in calls_helper]:
        hp = set(positional_params(hf.node))
        g2, b2 = _len_is_one_tests(hf.node, hp | {n.id for c in ast.walk(hf.node) if isinstance(c, (ast.DictComp, ast.ListComp, ast.GeneratorExp)) for gg in c.generators for n in ast.walk(gg.target) if isinstance(n, ast.Name)})
        marks_single = marks_single or g2 > 0
    if per_char:
        ctx.check(marks_single, R5, f"{MOD}:key-notation-single-entry", "one-entry outcomes are written with a separator, so the reader's character-by-character branch never sees a multi-digit entry", ("the separator mark for one-entry outcomes is decided by a length that is not the length of the key being written (the whole dictionary's, say): " if foreign_mark else "") + "a one-entry outcome is written without a separator (`\",\".join` of one item) and the reader reads separator-free text character by character: the saved key of (12,) is \"12\" and loads back as (1, 2), so saving then loading a distribution on one subsystem with outcomes of 10 or more does not return the same keys", r)
    ctx.check(not (writer_per_key and not reader_per_key), R5, f"{MOD}:key-notation-granularity", "writer and reader agree on how one key's notation is chosen", "the writer chooses the notation of each saved key from that key (separator depends on the outcome) but the reader decides the notation once for the whole dictionary: a saved distribution mixing single-digit and multi-digit outcomes cannot be loaded back", r)


def run(ctx):
    from ..lints import check_caches

    check_caches(ctx, "C17-D2 pure-operations", ['distributions._measurement_outcome_distribution', 'distributions.mmd', 'distributions.clipped_negative_log_likelihood', 'distributions.jensen_shannon_divergence'])
    check_constructor(ctx)
    check_purity(ctx)
    check_symmetry(ctx)
    check_mmd(ctx)
    ctx.floor("C17-D3m", 5)
    check_subdistribution(ctx)
    legacy = {("bitstring_distribution",): "legacy key of files written by older versions; read first, never written"}
    check_pair(ctx, R5, "outcome-distribution", f"{MOD}:save_measurement_outcome_distribution", f"{MOD}:load_measurement_outcome_distribution", None, allow_unwritten=legacy)
    check_pair(ctx, R5, "outcome-distributions", f"{MOD}:save_measurement_outcome_distributions", f"{MOD}:load_measurement_outcome_distributions", None, allow_unwritten=legacy)
    check_key_notation(ctx)
    check_constructor_owns_its_dictionary(ctx)
    check_writers_store_every_outcome(ctx)
    check_nll_domain(ctx)
    ctx.floor("C17-D3n", 1)
    ctx.floor("C17-D1", 12)
    ctx.floor("C17-D2", 14)
    ctx.floor("C17-D3", 1)
    ctx.floor("C17-D4", 5)
    ctx.floor("C17-D5", 2)
