"""C08 — circuit-level constructions: inverse, controlled, gate layers, ancillas."""
from __future__ import annotations

import ast
from typing import Optional

from ..astutil import arg_or_kw, body_walk, dotted, is_const, norm, positional_params, short, walk_local
from ..common import check_width_carried, circuit_ctor_calls, ops_expr, returned_exprs, width_expr
from ..flow import Defs, is_max2
from ..linform import poly, poly_eq, p_add, p_atom, p_const, show
from ..orient import Orient
from .c20 import effects_for, mutation_obligations

EXPLANATION = (
    "Structural necessary conditions: (D1) Circuit.inverse visits self.operations with odd orientation parity, "
    "replaces each gate by its own .dagger on the unchanged qubit tuple and keeps the width; (D2) Circuit.controlled "
    "applies op.gate.controlled(1) of the *current* operation to (control, *shifted) with the control first, the "
    "shift map evaluates to i / i+1 / i+1 on the orderings i<k, i=k, i>k, and the width is one more than "
    "max(self.n_qubits, ...) (idle qubits kept); (D3) the generators do not write through their circuit argument, "
    "iterate the de-duplicated qubit collection, apply each constructed gate to the loop's own qubit, accumulate by "
    "right-concatenation, and add_ancilla_register indexes from the un-reassigned parameter's width plus the loop "
    "counter over range(n_ancilla_qubits); (D5) inverse() and controlled() keep no state: no attribute stored on the "
    "receiver or an argument, no module-level table, no mutable default."
    " Round 5: (D6) the embedding entry points as decided by C01-D5, including the twins' single exit."
    ' Round 6: (D7) stale loop variables.'
)
RULE_TEXT = "instances = comprehension/loop elements, index expressions, width expressions and (function, parameter) purity pairs of the five anchored functions; distinct by (rule, construct)"
ASSUMPTIONS = [
    "declined: the unitary meaning of controlled() and inverse() (covered structurally by C01/C07 rules on the embedding and the per-gate modifiers); pairing of parameter rows with qubits relies on set iteration order (noted, not claimed)",
]

R1 = "C08-D1 inverse-structure"
R2 = "C08-D2 controlled-structure"
R3 = "C08-D3 generators"
CIR = "circuits._circuit"
GEN = "circuits._generators"


def check_inverse(ctx):
    fi = ctx.repo.func(f"{CIR}:Circuit.inverse")
    ctx.analysed(fi)
    calls = circuit_ctor_calls(ctx.repo, fi)
    if len(calls) != 1:
        ctx.undecided(R1, fi.key, f"expected one Circuit construction, found {len(calls)}", fi)
        return
    ops = ops_expr(calls[0])
    where = f"{fi.module.relpath}:{calls[0].lineno}"
    o = Orient(fi.node, lambda e: norm(e) in ("self.operations", "self._operations"))
    p = o.parity(ops) if ops is not None else None
    if p is None:
        ctx.undecided(R1, fi.key + ":order", f"cannot follow {short(ops)} back to self.operations", where)
    else:
        ctx.check(p == 1, R1, fi.key + ":order", "operations reversed (odd parity)", f"the inverse keeps the operations in forward order (parity {p}, trace {o.trace}): A;B is inverted as A^-1;B^-1 instead of B^-1;A^-1", where)
    comp = ops if isinstance(ops, (ast.ListComp, ast.GeneratorExp)) else None
    if comp is None and isinstance(ops, ast.Call) and ops.args and isinstance(ops.args[0], (ast.ListComp, ast.GeneratorExp)):
        comp = ops.args[0]
    if comp is None:
        ctx.undecided(R1, fi.key + ":element", f"operations {short(ops)} are not built by a comprehension", where)
    else:
        v = norm(comp.generators[0].target)
        elt = comp.elt
        ok = (
            isinstance(elt, ast.Call)
            and norm(elt.func) == f"{v}.gate.dagger"
            and len(elt.args) == 1
            and isinstance(elt.args[0], ast.Starred)
            and norm(elt.args[0].value) == f"{v}.qubit_indices"
            and not elt.keywords
        )
        ok2 = isinstance(elt, ast.Call) and norm(elt.func).endswith("GateOperation") and len(elt.args) == 2 and norm(elt.args[0]) == f"{v}.gate.dagger" and norm(elt.args[1]) == f"{v}.qubit_indices"
        ctx.check(ok or ok2, R1, fi.key + ":element", "each operation becomes its gate's dagger on the same qubit tuple", f"inverse element is {short(elt)}: not `op.gate.dagger(*op.qubit_indices)` (the gate's own dagger on the unchanged indices)", where)
        ctx.check(not comp.generators[0].ifs, R1, fi.key + ":all-operations", "no operation is filtered out", "the inverse filters operations", where)
    check_width_carried(ctx, R1, fi, ["self.n_qubits", "self._n_qubits"])


def check_controlled(ctx):
    fi = ctx.repo.func(f"{CIR}:Circuit.controlled")
    ctx.analysed(fi)
    d = Defs(fi.node)
    k = positional_params(fi.node)[1]
    loops = [l for l in body_walk(fi.node) if isinstance(l, ast.For) and norm(l.iter) in ("self.operations", "self._operations")]
    if len(loops) != 1:
        ctx.undecided(R2, fi.key, "expected one loop over self.operations (forward order)", fi)
        return
    loop = loops[0]
    opv = norm(loop.target)
    where = f"{fi.module.relpath}:{loop.lineno}"
    # appended operation: G(*indices)
    apps = [c for c in ast.walk(loop) if isinstance(c, ast.Call) and isinstance(c.func, ast.Attribute) and c.func.attr == "append" and c.args]
    if len(apps) != 1:
        ctx.undecided(R2, fi.key + ":append", "expected one append per operation", where)
        return
    new_op = apps[0].args[0]
    if isinstance(new_op, ast.Call) and len(new_op.args) > 1 and not new_op.keywords:
        # gate(a, *b, ...) is gate(*(a, *b, ...))
        tup = ast.copy_location(ast.Tuple(elts=list(new_op.args), ctx=ast.Load()), new_op)
        new_op = ast.copy_location(ast.Call(func=new_op.func, args=[ast.Starred(value=tup, ctx=ast.Load())], keywords=[]), new_op)
    if not (isinstance(new_op, ast.Call) and len(new_op.args) == 1 and isinstance(new_op.args[0], ast.Starred)):
        ctx.undecided(R2, fi.key + ":append", f"appended operation {short(new_op)} is not gate(*indices)", where)
        return
    gate_e, idx_e = new_op.func, new_op.args[0].value

    def local_def(e):
        """definition of a name assigned exactly once, inside the loop"""
        if isinstance(e, ast.Name):
            defs = [s for s in d.assign_stmts.get(e.id, []) if any(x is s for x in ast.walk(loop))]
            alls = d.assign_stmts.get(e.id, [])
            if len(defs) == 1 and len(alls) == 1 and isinstance(defs[0], ast.Assign):
                return defs[0].value
            return None
        return e

    g = local_def(gate_e)
    ok_gate = isinstance(g, ast.Call) and norm(g.func) == f"{opv}.gate.controlled" and len(g.args) == 1 and is_const(g.args[0], 1) and not g.keywords
    ctx.check(ok_gate, R2, fi.key + ":gate", "each gate becomes op.gate.controlled(1) of the current operation", f"the gate applied is {short(g) if g is not None else short(gate_e) + ' (not a single per-iteration definition)'}: not `op.gate.controlled(1)` computed from the current operation (a shared/cached wrapper can belong to another gate)", where)
    idx = local_def(idx_e)
    ok_first = isinstance(idx, (ast.Tuple, ast.List)) and len(idx.elts) == 2 and norm(idx.elts[0]) == k and isinstance(idx.elts[1], ast.Starred)
    if isinstance(idx, (ast.Tuple, ast.List)) and len(idx.elts) > 2 and norm(idx.elts[0]) == k and all(isinstance(e, ast.Starred) for e in idx.elts[1:]):
        # several groups concatenated: each group filtered out of op.qubit_indices => the relative order of the original
        # indices changes whenever the groups interleave (CNOT(2, 0) with control 1: (2, 0) -> (3, 0), not (0, 3))
        groups = [local_def(e.value) for e in idx.elts[1:]]
        if all(isinstance(g_, (ast.GeneratorExp, ast.ListComp)) and len(g_.generators) == 1 and norm(g_.generators[0].iter) == f"{opv}.qubit_indices" and g_.generators[0].ifs for g_ in groups):
            ctx.violation(R2, fi.key + ":shift", f"the original indices are split into {len(groups)} filtered groups ({', '.join(short(g_) for g_ in groups)}) that are concatenated: an index below the control that follows one above it moves in front of it, so the controlled gate acts on permuted qubits", where)
            return
    ctx.check(ok_first, R2, fi.key + ":control-first", "(control_index, *shifted indices): control first", f"index tuple is {short(idx) if idx is not None else short(idx_e)}: the control qubit must come first, followed by the shifted original indices", where)
    if ok_first:
        sh = local_def(idx.elts[1].value)
        ok_shift = False
        detail = f"shifted indices {short(sh) if sh is not None else None} are not a per-index map over op.qubit_indices"
        if isinstance(sh, (ast.GeneratorExp, ast.ListComp)) and len(sh.generators) == 1 and norm(sh.generators[0].iter) == f"{opv}.qubit_indices" and not sh.generators[0].ifs and isinstance(sh.generators[0].target, ast.Name):
            i = sh.generators[0].target.id
            vals = [_eval_shift(sh.elt, i, k, iv, kv) for iv, kv in ((0, 1), (1, 1), (2, 1))]
            ok_shift = vals == [0, 2, 3]
            detail = f"shift map {short(sh.elt)} evaluates to {vals} on i<k, i=k, i>k (k=1); required i, i+1, i+1 = [0, 2, 3]"
        ctx.check(ok_shift, R2, fi.key + ":shift", "indices at or above the control are shifted up by one, others kept", detail, where)
    # width
    calls = circuit_ctor_calls(ctx.repo, fi)
    if len(calls) != 1:
        ctx.undecided(R2, fi.key + ":width", "expected one Circuit construction", fi)
        return
    w = width_expr(calls[0])
    ok_w = False
    detail = "the controlled circuit is built without an explicit width: idle qubits of the original register are lost"
    if w is not None:
        detail = f"width {short(w)} is not (original width [or max with the control index]) + 1"
        if isinstance(w, ast.BinOp) and isinstance(w.op, ast.Add):
            for a, b in ((w.left, w.right), (w.right, w.left)):
                if is_const(b, 1):
                    mx = is_max2(a)
                    if norm(a) in ("self.n_qubits", "self._n_qubits"):
                        ok_w = True
                    elif mx is not None and {norm(mx[0]), norm(mx[1])} in ({"self.n_qubits", k}, {"self._n_qubits", k}):
                        ok_w = True
        mx = is_max2(w)
        if mx is not None:
            ps = [poly(x) for x in mx]
            want = [p_add(p_atom("self.n_qubits"), p_const(1)), p_add(p_atom(k), p_const(1))]
            if all(p is not None for p in ps) and ((ps[0] == want[0] and ps[1] == want[1]) or (ps[0] == want[1] and ps[1] == want[0])):
                ok_w = True
    ctx.check(ok_w, R2, fi.key + ":width", "width = max(original width, control index) + 1", detail, f"{fi.module.relpath}:{calls[0].lineno}")
    o = ops_expr(calls[0])
    ctx.check(isinstance(o, ast.Name) and norm(apps[0].func.value) == o.id, R2, fi.key + ":result", "the accumulated controlled operations form the result", "the result is not built from the accumulated controlled operations", fi)


def _eval_shift(e: ast.AST, i: str, k: str, iv: int, kv: int) -> Optional[int]:
    """Evaluate a small integer expression over {i, k} (constant folding of the shift map)."""
    if isinstance(e, ast.Constant) and isinstance(e.value, int):
        return e.value
    if isinstance(e, ast.Name):
        return iv if e.id == i else kv if e.id == k else None
    if isinstance(e, ast.BinOp) and isinstance(e.op, (ast.Add, ast.Sub)):
        a, b = _eval_shift(e.left, i, k, iv, kv), _eval_shift(e.right, i, k, iv, kv)
        if a is None or b is None:
            return None
        return a + b if isinstance(e.op, ast.Add) else a - b
    if isinstance(e, ast.IfExp):
        t = _eval_cmp(e.test, i, k, iv, kv)
        if t is None:
            return None
        return _eval_shift(e.body if t else e.orelse, i, k, iv, kv)
    if isinstance(e, ast.Call) and dotted(e.func) == "int" and len(e.args) == 1:
        t = _eval_cmp(e.args[0], i, k, iv, kv)
        return None if t is None else int(t)
    return None


def _eval_cmp(t: ast.AST, i, k, iv, kv) -> Optional[bool]:
    if isinstance(t, ast.Compare) and len(t.ops) == 1:
        a, b = _eval_shift(t.left, i, k, iv, kv), _eval_shift(t.comparators[0], i, k, iv, kv)
        if a is None or b is None:
            return None
        return {ast.Lt: a < b, ast.LtE: a <= b, ast.Gt: a > b, ast.GtE: a >= b, ast.Eq: a == b, ast.NotEq: a != b}.get(type(t.ops[0]))
    if isinstance(t, ast.UnaryOp) and isinstance(t.op, ast.Not):
        v = _eval_cmp(t.operand, i, k, iv, kv)
        return None if v is None else not v
    return None


def check_generators(ctx):
    repo = ctx.repo
    eff = effects_for(ctx)
    fns = [repo.func(f"{GEN}:{n}") for n in ("create_layer_of_gates", "apply_gate_to_qubits", "add_ancilla_register")]
    mutation_obligations(ctx, R3, fns, eff)
    # ---- apply_gate_to_qubits
    fi = fns[1]
    d = Defs(fi.node)
    ps = positional_params(fi.node)
    circ, qs = ps[0], ps[1]
    uniq = [name for name, defs in d.defs.items() if any(isinstance(v, ast.Call) and dotted(v.func) in ("set", "frozenset", "dict.fromkeys") and v.args and norm(v.args[0]) == qs for v in defs) or any(isinstance(v, ast.Call) and dotted(v.func) in ("sorted", "list") and v.args and isinstance(v.args[0], ast.Call) and dotted(v.args[0].func) in ("set", "dict.fromkeys") for v in defs)]
    loops = [l for l in body_walk(fi.node) if isinstance(l, ast.For)]
    if not uniq or len(loops) < 1:
        ctx.violation(R3, fi.key + ":dedup", "the qubit collection is not de-duplicated (set(qubit_indices)) before gates are added", fi)
    for l in loops:
        where = f"{fi.module.relpath}:{l.lineno}"
        it = l.iter
        src = it.args[0] if isinstance(it, ast.Call) and dotted(it.func) == "zip" and it.args else it
        ok = isinstance(src, ast.Name) and src.id in uniq
        ctx.check(ok, R3, fi.key + f":loop-over-unique:{short(l.target, 30)}", "one gate per distinct listed qubit", f"the loop iterates {short(src)} rather than the de-duplicated collection: a qubit listed twice receives two gates", where)
        qv = l.target.elts[0] if isinstance(l.target, ast.Tuple) else l.target
        adds = [s for s in l.body if isinstance(s, ast.AugAssign) and isinstance(s.op, ast.Add) and norm(s.target) == circ]
        adds += [s for s in l.body if isinstance(s, ast.Assign) and isinstance(s.value, ast.BinOp) and isinstance(s.value.op, ast.Add) and norm(s.value.left) == circ and norm(s.targets[0]) == circ]
        if len(adds) != 1:
            ctx.violation(R3, fi.key + f":append:{short(l.target, 30)}", f"the loop body does not right-concatenate exactly one operation to `{circ}`", where)
            continue
        val = adds[0].value if isinstance(adds[0], ast.AugAssign) else adds[0].value.right
        ok_q = isinstance(val, ast.Call) and len(val.args) == 1 and norm(val.args[0]) == norm(qv)
        ctx.check(ok_q, R3, fi.key + f":gate-on-own-qubit:{short(l.target, 30)}", "the gate is applied to the loop's qubit", f"{short(val)} is not applied to the loop's own qubit `{norm(qv)}`", where)
        if isinstance(l.target, ast.Tuple) and len(l.target.elts) == 2:
            pv = norm(l.target.elts[1])
            ok_p = isinstance(val, ast.Call) and isinstance(val.func, ast.Call) and len(val.func.args) == 1 and isinstance(val.func.args[0], ast.Starred) and norm(val.func.args[0].value) == pv and norm(val.func.func) == ps[2]
            if not ok_p and isinstance(val, ast.Call) and isinstance(val.func, ast.Name):
                # the gate is first bound to a local inside the loop body: `g = factory(*row)` when there are parameters, `g = factory` otherwise
                def _uncast(e):
                    return e.args[1] if isinstance(e, ast.Call) and dotted(e.func) in ("cast", "typing.cast") and len(e.args) == 2 else e

                gdefs = [_uncast(x.value) for x in ast.walk(l) if isinstance(x, ast.Assign) and len(x.targets) == 1 and norm(x.targets[0]) == val.func.id]
                built = [g for g in gdefs if isinstance(g, ast.Call) and len(g.args) == 1 and isinstance(g.args[0], ast.Starred) and norm(g.args[0].value) == pv and norm(_uncast(g.func)) == ps[2]]
                plain = [g for g in gdefs if norm(g) == ps[2]]
                ok_p = len(built) == 1 and len(built) + len(plain) == len(gdefs)
            if not ok_p and isinstance(val, ast.Call) and isinstance(val.func, ast.Name) and val.func.id == pv and isinstance(it, ast.Call) and dotted(it.func) == "zip" and len(it.args) == 2 and isinstance(it.args[1], ast.Name):
                # the second loop variable *is* the gate: qubits are zipped with a sequence of gates that is either the plain gate repeated or
                # one gate built from each parameter row, in order:  gates = repeat(factory) | (factory(*row) for row in parameters)
                def _uncast2(e, depth=0):
                    if isinstance(e, ast.Call) and dotted(e.func) in ("cast", "typing.cast") and len(e.args) == 2:
                        return _uncast2(e.args[1], depth + 1)
                    if isinstance(e, ast.Name) and depth < 3 and e.id != ps[2]:
                        sd = d.single_def(e.id)
                        return _uncast2(sd, depth + 1) if isinstance(sd, ast.AST) else e
                    return e

                gdefs2 = [v for v in d.defs.get(it.args[1].id, []) if isinstance(v, ast.AST)]
                rep = [v for v in gdefs2 if isinstance(v, ast.Call) and (dotted(v.func) or "").split(".")[-1] == "repeat" and len(v.args) == 1 and norm(_uncast2(v.args[0])) == ps[2]]
                gen = [v for v in gdefs2 if isinstance(v, (ast.GeneratorExp, ast.ListComp)) and len(v.generators) == 1 and not v.generators[0].ifs and norm(v.generators[0].iter) == ps[3] and isinstance(v.elt, ast.Call) and len(v.elt.args) == 1 and isinstance(v.elt.args[0], ast.Starred) and norm(v.elt.args[0].value) == norm(v.generators[0].target) and norm(_uncast2(v.elt.func)) == ps[2]]
                if len(gen) == 1 and len(rep) + len(gen) == len(gdefs2):
                    ok_p = True
                    ok_zip_alt = True
                else:
                    ok_zip_alt = False
            else:
                ok_zip_alt = False
            ctx.check(ok_p, R3, fi.key + ":row-used-once", "each parameter row builds exactly the gate of its own iteration", f"{short(val)} does not build the gate from this iteration's parameter row", where)
            ok_zip = isinstance(it, ast.Call) and dotted(it.func) == "zip" and len(it.args) == 2 and norm(it.args[1]) == ps[3]
            if not ok_zip and isinstance(it, ast.Call) and dotted(it.func) == "zip" and len(it.args) == 2 and isinstance(it.args[1], ast.Name):
                # rows = parameters if <there are parameters> else repeat(())  -- the rows themselves, or endless empty rows for a plain gate
                rd = d.single_def(it.args[1].id)
                if isinstance(rd, ast.IfExp):
                    arms_ = {norm(rd.body), norm(rd.orelse)}
                    ok_zip = ps[3] in arms_ and bool(arms_ & {"repeat(())", "itertools.repeat(())"})
            ok_zip = ok_zip or ok_zip_alt
            ctx.check(ok_zip, R3, fi.key + ":rows-zipped", "qubits zipped with the parameter rows", f"{short(it)} does not pair the qubits with the parameter rows", where)
    rets = returned_exprs(fi.node)
    ctx.check(len(rets) == 1 and norm(rets[0]) == circ, R3, fi.key + ":returns-accumulator", "returns the extended circuit", "does not return the extended circuit", fi)
    # ---- create_layer_of_gates
    fl = fns[0]
    calls = [c for c in body_walk(fl.node) if isinstance(c, ast.Call) and dotted(c.func) == "apply_gate_to_qubits"]
    pl = positional_params(fl.node)
    ok = len(calls) == 1 and len(calls[0].args) == 4 and norm(calls[0].args[1]) == f"range({pl[0]})" and norm(calls[0].args[2]) == pl[1] and norm(calls[0].args[3]) == pl[2]
    if ok:
        c0 = calls[0].args[0]
        dl = Defs(fl.node)
        c0d = dl.single_def(c0.id) if isinstance(c0, ast.Name) else c0
        ok = isinstance(c0d, ast.Call) and dotted(c0d.func) == "Circuit" and not c0d.args and not c0d.keywords
    ctx.check(ok, R3, fl.key, "apply_gate_to_qubits(Circuit(), range(n), factory, parameters)", "create_layer_of_gates does not put the gate on every qubit 0..n-1 of a fresh circuit with the given parameter rows", fl)
    # ---- add_ancilla_register
    fa = fns[2]
    da = Defs(fa.node)
    pa = positional_params(fa.node)
    loops = [l for l in body_walk(fa.node) if isinstance(l, ast.For)]
    ok_loop = len(loops) == 1 and norm(loops[0].iter) == f"range({pa[1]})" and isinstance(loops[0].target, ast.Name)
    ctx.check(ok_loop, R3, fa.key + ":count", "exactly n_ancilla_qubits qubits added", "the ancilla loop does not run exactly n_ancilla_qubits times", fa)
    if ok_loop:
        l = loops[0]
        cnt = l.target.id
        reassigned = pa[0] in da.assign_stmts
        gates = [c for c in ast.walk(l) if isinstance(c, ast.Call) and isinstance(c.func, ast.Name) and c.func.id == "I"]
        ok_idx = False
        got = None
        if len(gates) == 1 and len(gates[0].args) == 1:
            def res(nm):
                if nm.id in (pa[0], cnt):
                    return None
                s = da.single_def(nm.id)
                return s if isinstance(s, ast.AST) else None

            got = poly(gates[0].args[0], res)
            ok_idx = poly_eq(got, p_add(p_atom(f"{pa[0]}.n_qubits"), p_atom(cnt))) and not reassigned
        ctx.check(ok_idx, R3, fa.key + ":index", "ancilla i sits at original width + i", f"ancilla index is {show(got)}" + (" with the circuit parameter re-assigned" if reassigned else "") + ": not (original circuit's width + loop counter), so ancillas overlap or leave gaps", fa)
        adds = [s for s in l.body if isinstance(s, ast.AugAssign) and isinstance(s.op, ast.Add)]
        rets = returned_exprs(fa.node)
        ok_acc = len(adds) == 1 and len(rets) == 1 and norm(rets[0]) == norm(adds[0].target)
        init = da.defs.get(norm(adds[0].target), []) if adds else []
        ok_init = any(isinstance(v, ast.Name) and v.id == pa[0] for v in init)
        ctx.check(ok_acc and ok_init, R3, fa.key + ":accumulate", "starts from the given circuit and appends one identity per ancilla", "the extended circuit does not start from the given circuit and gain one identity gate per ancilla", fa)


def run(ctx):
    from ..lints import check_stale_loop_variables

    check_stale_loop_variables(ctx, "C08-D7 loop-variables", ['circuits._circuit', 'circuits._generators', 'circuits._gates'])
    from .c07 import check_dagger_semantics

    check_dagger_semantics(ctx, "C08-D4 per-gate-dagger")
    ctx.floor("C08-D4", 12)
    check_inverse(ctx)
    check_controlled(ctx)
    check_generators(ctx)
    # inverse() and controlled() are functions of the circuit's current operations: a circuit is mutable (+=) and copyable, so
    # a result remembered on the receiver, on an argument or in module state is handed out for a circuit it no longer inverts
    from ..state import check_hidden_state

    check_hidden_state(ctx, "C08-D5 constructions-stateless", [ctx.repo.func(f"{CIR}:Circuit.inverse"), ctx.repo.func(f"{CIR}:Circuit.controlled")], effects_for(ctx), argument_caches=True, receiver_caches=True)
    ctx.floor("C08-D5", 2)
    # what controlled() and inverse() mean as matrices rests on the one analysed embedding (C01-D5: apply, lifted_matrix, the
    # numeric and symbolic twins), for symbolic circuits as well
    from ..common import share_rule
    from . import c01

    share_rule(ctx, "C01", c01.check_embedding_paths, "C08-D6 embedding-entry")
    ctx.floor("C08-D6", 6)
    ctx.floor("C08-D1", 4)
    ctx.floor("C08-D2", 5)
    ctx.floor("C08-D3", 12)  # one merged loop over (qubit, row) pairs yields two obligations fewer than the two separate loops
