"""C05 — circuits survive JSON serialisation unchanged in structure and meaning."""
from __future__ import annotations

import ast
from typing import Dict, List, Optional, Tuple

from ..astutil import arg_or_kw, body_walk, const_str, dotted, kwarg, norm, positional_params, short, walk_local
from ..common import exit_exprs, check_width_carried, circuit_ctor_calls, ops_expr, returned_exprs, width_expr
from ..flow import Defs
from ..gatetable import gate_table
from ..lints import iterator_reuse_sites, self_check_iterator_reuse
from ..orient import count_reversals
from ..records import check_pair
from ..schema import ReaderAccesses, WDict, compare, shape_keys, writer_shape
from ..state import check_hidden_state, self_check
from .c20 import effects_for

EXPLANATION = (
    "Writer/reader agreement decided from the source of circuits/_serde.py and the gate classes: (D1) for every "
    "circuit record (circuit, circuit set, gate operation, basic gate with the built-in and with the custom reader, "
    "custom definition, and each wrapper kind per reader branch) every key the reader requires is written "
    "unconditionally and every key the writer can emit is consumed; (D2) every gate class has a to_dict arm that "
    "writes 'name' and a reader branch that constructs it; (D3) each wrapper dataclass field is written from that "
    "field and fed back into the same constructor slot, the wrapped gate recursing through the generic reader with "
    "the custom definitions threaded unchanged; operations, qubit indices and parameters keep their order, the "
    "width is read back; (D4) name routing: the reader's test for each wrapper has the same kind (exact / suffix / "
    "infix) as the way that class builds its name and uses the same marker constant, infix tests come after suffix "
    "and exact ones, readers are tried built-in -> wrapper -> custom, built-in names equal their identifiers; (D5) "
    "no one-shot iterator is exhausted inside a repeated region, the symbol table for instance parameters comes from "
    "the record's own free_symbols on both reader paths and is passed to sympify as locals, no hidden state "
    "(mutable defaults, module-level caches) in the (de)serialiser. "
    "(D2w) custom-gate definitions are collected through modifier wrappers; (D5n) the stored text of a parameter is never parsed by float()/complex() (which accept the identifiers j, inf, nan) before the symbol table is consulted, also through helpers."
    ' Round 5: the built-in lookup answers for the exact name only; same-name definitions are compared across the whole circuit (no groupby over unsorted input); the symbol table has one kind of value per slot; no unsound functools cache.'
)
RULE_TEXT = "instances = record keys per writer/reader pair, gate classes, constructor slots, routing tests, deserialiser functions; distinct by (rule, construct)"
ASSUMPTIONS = [
    "declined: that sympify(str(expr)) reproduces the expression/number and tolerance-based equality (text/float round trip depends on sympy and repr, not on this source)",
]

SER = "circuits._serde"
GATES = "circuits._gates"
R1 = "C05-D1 record-keys"
R2 = "C05-D2 dispatch-exhaustive"
R3 = "C05-D3 slot-agreement"
R4 = "C05-D4 name-routing"
R5 = "C05-D5 deserialiser-lints"


def gate_classes(repo):
    mod = repo.module(GATES)
    out = []
    for ci in mod.classes.values():
        if any((dotted(b) or "").endswith("Protocol") for b in ci.node.bases):
            continue
        has_matrix = repo.find_method(ci, "matrix") is not None and "matrix" in ci.methods
        has_name = "name" in ci.methods or "name" in ci.field_names
        if has_matrix and has_name:
            out.append(ci)
    return out


def writer_arms(repo) -> Dict[str, object]:
    base = repo.func(f"{SER}:to_dict")
    arms = {}
    for texpr, arm in repo.registry(base):
        r = repo.resolve_dotted(arm.module, texpr) if isinstance(texpr, (ast.Name, ast.Attribute)) else None
        if r is not None and r[0] == "class":
            arms[r[1].name] = arm
        elif isinstance(texpr, ast.Name):
            arms[texpr.id] = arm
    return arms


def special_branches(repo, fi) -> List[Tuple[ast.AST, List[ast.stmt], Optional[str], int]]:
    """(test, body, constructed class, order) for the if/elif chain of the wrapper reader."""
    out = []
    chain = [s for s in fi.node.body if isinstance(s, ast.If)]
    if not chain:
        return out
    cur = chain[0]
    order = 0
    while isinstance(cur, ast.If):
        cls = None
        for n in ast.walk(ast.Module(body=cur.body, type_ignores=[])):
            if isinstance(n, ast.Call):
                r = repo.resolve_dotted(fi.module, n.func) if isinstance(n.func, (ast.Name, ast.Attribute)) else None
                if r is not None and r[0] == "class":
                    cls = r[1].name
        out.append((cur.test, cur.body, cls, order))
        order += 1
        cur = cur.orelse[0] if len(cur.orelse) == 1 and isinstance(cur.orelse[0], ast.If) else None
    return out


def name_kind(repo, ci) -> Tuple[Optional[str], Optional[str]]:
    """How a gate class builds ``name``: ('exact'|'suffix'|'infix', marker constant)."""
    m = ci.methods.get("name")
    if m is None:
        return None, None
    rets = returned_exprs(m.node)
    if len(rets) != 1:
        return None, None
    e = rets[0]
    if isinstance(e, ast.Name):
        return "exact", e.id
    if isinstance(e, ast.BinOp) and isinstance(e.op, ast.Add):
        parts = []

        def flat(x):
            if isinstance(x, ast.BinOp) and isinstance(x.op, ast.Add):
                flat(x.left)
                flat(x.right)
            else:
                parts.append(x)

        flat(e)
        names = [p for p in parts if isinstance(p, ast.Name)]
        if names and parts[-1] is names[-1]:
            return "suffix", names[-1].id
        if names:
            return "infix", names[-1].id
    if isinstance(e, ast.JoinedStr):
        vals = [v.value for v in e.values if isinstance(v, ast.FormattedValue)]
        consts = [v for v in vals if isinstance(v, ast.Name)]
        if consts:
            marker = consts[0]
            idx = vals.index(marker)
            return ("suffix" if idx == len(vals) - 1 else "infix"), marker.id
    return None, None


def test_kind(test: ast.AST) -> Tuple[Optional[str], Optional[str]]:
    if isinstance(test, ast.Compare) and len(test.ops) == 1:
        if isinstance(test.ops[0], ast.Eq):
            other = test.comparators[0] if "name" in norm(test.left) else test.left
            return "exact", (dotted(other) or "").split(".")[-1]
        if isinstance(test.ops[0], ast.In):
            return "infix", (dotted(test.left) or "").split(".")[-1]
    if isinstance(test, ast.Call) and isinstance(test.func, ast.Attribute) and test.func.attr == "endswith" and test.args:
        return "suffix", (dotted(test.args[0]) or "").split(".")[-1]
    if isinstance(test, ast.Call) and isinstance(test.func, ast.Attribute) and test.func.attr == "startswith" and test.args:
        return "prefix", (dotted(test.args[0]) or "").split(".")[-1]
    return None, None


def check_symbol_table_slots(ctx):
    """The table handed to sympify maps identifiers to what they denote. If the same table stores a Symbol under a plain
    name and a {index: Symbol} dictionary under the base of indexed names (`x[3]` -> table["x"][3]), a parameter list that
    contains both `x` and `x[k]` needs slot "x" to be both: whichever is stored second destroys (or cannot be added to) the first.
    Contradiction rule: one slot, two kinds of value, no test telling them apart."""
    f = ctx.repo.func(f"{SER}:_make_symbols_map") if ctx.repo.has_func(f"{SER}:_make_symbols_map") else ctx.repo.func(f"{SER}:deserialize_expr")
    ctx.analysed(f)
    dict_slots, plain_slots = [], []
    for n in body_walk(f.node):
        if isinstance(n, ast.Assign) and isinstance(n.targets[0], ast.Subscript):
            tgt = n.targets[0]
            base = tgt.value
            if isinstance(base, ast.Call) and isinstance(base.func, ast.Attribute) and base.func.attr == "setdefault" and len(base.args) == 2 and isinstance(base.args[1], (ast.Dict, ast.Call)):
                dict_slots.append((norm(base.func.value), base.args[0], n))
            elif isinstance(base, ast.Name):
                plain_slots.append((base.id, tgt.slice, n))
    hits = [(t, k1, k2, n2) for t, k1, n1 in dict_slots for t2, k2, n2 in plain_slots if t == t2]
    guarded = any(isinstance(c, ast.Call) and dotted(c.func) == "isinstance" and len(c.args) == 2 and "dict" in norm(c.args[1]).lower() for c in body_walk(f.node))
    if not dict_slots:
        ctx.ok(R5, f.key + ":slots", "no table slot holds both a symbol and a dictionary of indexed symbols", f)
        return
    ctx.check(not hits or guarded, R5, f.key + ":slots", "a slot holds one kind of value", f"`{hits[0][0]}` stores a dictionary of indexed symbols under `{short(hits[0][1])}` and a plain Symbol under `{short(hits[0][2])}` with nothing keeping the two key spaces apart: a gate whose parameters mention both `x` and `x[0]` (both legal symbol names) cannot be read back -- the second store hits the other kind of value (TypeError: 'Symbol' object does not support item assignment, or the dictionary is replaced and `x[0]` no longer resolves)" if hits else "", f"{f.module.relpath}:{hits[0][3].lineno}" if hits else f)


def run(ctx):
    from ..lints import check_caches

    check_caches(ctx, "C05-D5 deserialiser-lints", ['circuits._serde', 'circuits._circuit', 'circuits._gates'])
    repo = ctx.repo
    arms = writer_arms(repo)
    classes = gate_classes(repo)
    ctx.extra["gate_classes"] = [c.name for c in classes]
    ctx.extra["writer_arms"] = sorted(arms)
    # ------------------------------------------------------------------ D1 simple pairs
    check_pair(ctx, R1, "circuit", f"{SER}:_circuit_to_dict", f"{SER}:circuit_from_dict", "dict_")
    check_pair(ctx, R1, "circuitset", f"{SER}:_circuitset_to_dict", f"{SER}:circuitset_from_dict", "dict_")
    check_pair(ctx, R1, "gate_operation", f"{SER}:_gate_operation_to_dict", f"{SER}:_gate_operation_from_dict", "dict_", allow_unread={("type",): "only one operation kind is serialised"})
    check_pair(ctx, R1, "basic-gate/builtin-reader", f"{SER}:_basic_gate_to_dict", f"{SER}:_builtin_gate_from_dict", "dict_",
               allow_gated={("free_symbols",): "a MatrixFactoryGate's free symbols are computed from its params (C06-D4 checks free_symbols derives from self.params): no params, no free symbols, so free_symbols is never written without params"})
    check_pair(ctx, R1, "basic-gate/custom-reader", f"{SER}:_basic_gate_to_dict", f"{SER}:_custom_gate_instance_from_dict", "dict_")
    check_pair(ctx, R1, "custom-definition", f"{SER}:_custom_gate_def_to_dict", f"{SER}:custom_gate_def_from_dict", "dict_")
    # ------------------------------------------------------------------ wrappers, per reader branch
    special = repo.func(f"{SER}:_special_gate_from_dict")
    ctx.analysed(special)
    branches = special_branches(repo, special)
    by_class = {cls: (test, body, order) for test, body, cls, order in branches if cls}
    wrappers = [c for c in classes if c.name != "MatrixFactoryGate"]
    kinds = {}
    for ci in wrappers:
        where = ci.where
        arm = arms.get(ci.name)
        if arm is None:
            ctx.violation(R2, f"{ci.key}:writer-arm", f"gate class {ci.name} has no to_dict.register arm: serialising it raises NotImplementedError", where)
            continue
        built_somewhere = any(isinstance(n, ast.Call) and isinstance(n.func, (ast.Name, ast.Attribute)) and (lambda r: r is not None and r[0] == "class" and r[1].name == ci.name)(repo.resolve_dotted(special.module, n.func)) for n in body_walk(special.node))
        if ci.name not in by_class and built_somewhere:
            # the class is constructed, but not in an arm of a recognised if/elif chain over the stored name: which stored names lead to it
            # cannot be read off -- the construct is lost, which is not a decided violation
            ctx.undecided(R2, f"{ci.key}:reader-branch", f"_special_gate_from_dict constructs {ci.name}, but not in an arm of an if/elif chain over the stored name", special)
            continue
        if ci.name not in by_class:
            ctx.violation(R2, f"{ci.key}:reader-branch", f"no branch of _special_gate_from_dict constructs {ci.name}: a serialised {ci.name} cannot be read back as such", where)
            continue
        ctx.ok(R2, f"{ci.key}:writer-arm", f"to_dict arm {arm.qualname}", arm)
        ctx.ok(R2, f"{ci.key}:reader-branch", "constructed by a reader branch", special)
        test, body, order = by_class[ci.name]
        shape = writer_shape(repo, arm)
        ctx.analysed(arm)
        restrict = [ast.Expr(value=test)] + list(body)
        acc = ReaderAccesses(repo, special, "dict_", restrict=restrict).accesses
        if not isinstance(shape, WDict) or not acc:
            ctx.undecided(R1, f"record:{ci.name}", "cannot extract wrapper record shape / reader accesses", arm)
            continue
        problems, checked = compare(shape, acc, {})
        # a record member read under a computed key (`dict_[key] for key in <table>`) is read, but which member cannot be told here:
        # "never consumed" is then not a decided verdict
        dynamic_reads = any(isinstance(n, ast.Subscript) and norm(n.value) == "dict_" and const_str(n.slice) is None and isinstance(n.ctx, ast.Load) for st in body for n in ast.walk(st))
        for kind, path, detail, w in problems:
            if kind == "B-unread" and dynamic_reads:
                ctx.undecided(R1, f"record:{ci.name}:{'/'.join(path)}:{kind}", f"{ci.name}: the reader takes members of the record under computed keys; whether {'/'.join(path)} is among them is not decided", w or arm.where)
                continue
            ctx.violation(R1, f"record:{ci.name}:{'/'.join(path)}:{kind}", f"{ci.name}: {detail}", w or arm.where)
        badp = {p[1] for p in problems}
        for kind, path, flag in checked:
            if path not in badp:
                ctx.ok(R1, f"record:{ci.name}:{'/'.join(path)}:{kind[0]}", "consistent", arm)
        ctx.check("name" in shape.keys and not shape.keys["name"][0], R2, f"{ci.key}:writes-name", "arm always writes 'name'", f"the to_dict arm of {ci.name} does not always write 'name', which the reader routes on", arm)
        # ---- D3 constructor slots
        ctor = None
        for n in ast.walk(ast.Module(body=list(body), type_ignores=[])):
            if isinstance(n, ast.Call):
                r = repo.resolve_dotted(special.module, n.func) if isinstance(n.func, (ast.Name, ast.Attribute)) else None
                if r is not None and r[0] == "class" and r[1].name == ci.name:
                    ctor = n
        fields = ci.field_names
        dl = Defs(special.node)
        key_of_field = {}
        # writer: key -> gate.<field>
        for n in body_walk(arm.node):
            if isinstance(n, ast.Dict):
                for k, v in zip(n.keys, n.values):
                    ks = const_str(k) if k is not None else None
                    if ks is None:
                        continue
                    gp = positional_params(arm.node)[0]
                    if isinstance(v, ast.Attribute) and norm(v.value) == gp:
                        key_of_field[v.attr] = ks
                    elif isinstance(v, ast.Call) and dotted(v.func) == "to_dict" and len(v.args) == 1 and isinstance(v.args[0], ast.Attribute) and norm(v.args[0].value) == gp:
                        key_of_field[v.args[0].attr] = ks
        if ctor is None:
            ctx.undecided(R3, f"{ci.key}:ctor", "constructor call not found in the branch", special)
            continue
        for i, f in enumerate(fields):
            a = arg_or_kw(ctor, i, f)
            cons = f"{ci.key}:{f}"
            where = f"{special.module.relpath}:{ctor.lineno}"
            if f not in key_of_field:
                ctx.violation(R3, cons, f"field {ci.name}.{f} is never written by {arm.qualname}: it cannot survive a round trip", arm)
                continue
            key = key_of_field[f]
            if a is None and any(isinstance(x, ast.Starred) for x in ctor.args):
                # the remaining positional arguments are splatted from a computed sequence: which slot receives what is not decided here
                ctx.undecided(R3, cons, f"constructor slot {f} of {ci.name} is filled from a splatted sequence ({short(ctor, 80)})", where)
                continue
            if a is None:
                ctx.violation(R3, cons, f"reader does not pass a value for constructor slot {f} of {ci.name}", where)
                continue
            if f == "wrapped_gate":
                # local bound in this branch to _gate_from_dict(dict_["wrapped_gate"], custom_gate_defs)
                val = a
                if isinstance(a, ast.Name):
                    cands = [s.value for s in body if isinstance(s, ast.Assign) and isinstance(s.targets[0], ast.Name) and s.targets[0].id == a.id]
                    val = cands[-1] if cands else a
                ok = isinstance(val, ast.Call) and dotted(val.func) == "_gate_from_dict" and len(val.args) == 2 and norm(val.args[0]) == f'dict_[{key!r}]' and norm(val.args[1]) == positional_params(special.node)[1]
                ctx.check(ok, R3, cons, "wrapped gate read back through the generic reader with the custom definitions", f"slot wrapped_gate of {ci.name} receives {short(val)}: not _gate_from_dict(dict_[{key!r}], custom_gate_defs)", where)
            else:
                ok = norm(a) == f"dict_[{key!r}]"
                ctx.check(ok, R3, cons, f"slot {f} <- dict_[{key!r}] <- gate.{f}", f"slot {f} of {ci.name} receives {short(a)} but the writer stores gate.{f} under {key!r}: the field is not restored", where)
        # ---- D4 routing kind
        nk, nmarker = name_kind(repo, ci)
        tk, tmarker = test_kind(test)
        kinds[ci.name] = (tk, order)
        cons = f"{ci.key}:routing"
        where = f"{special.module.relpath}:{test.lineno}"
        if nk is None or tk is None:
            ctx.undecided(R4, cons, f"cannot classify how {ci.name} builds its name ({nk}) or how the reader tests it ({tk}: {short(test)})", where)
        else:
            ctx.check(nk == tk and nmarker == tmarker, R4, cons, f"name built as {nk} of {nmarker}; reader tests {tk} of {tmarker}",
                      f"{ci.name} builds its name as {nk} of {nmarker} but the reader tests `{short(test)}` ({tk} of {tmarker}): a nested name such as T_Dagger^0.5 is routed to the wrong wrapper", where)
    infix_orders = [o for k, (t, o) in kinds.items() if t == "infix"]
    other_orders = [o for k, (t, o) in kinds.items() if t in ("suffix", "exact")]
    if infix_orders and other_orders:
        ctx.check(min(infix_orders) > max(other_orders), R4, f"{special.key}:branch-order", "infix (contains-marker) tests come after all exact and suffix tests", "a contains-marker test precedes an exact/suffix test: the outermost wrapper of a nested name is mis-identified", special)
    # last branch raises KeyError (falls through to custom gates)
    last_else = None
    chain = [s for s in special.node.body if isinstance(s, ast.If)]
    cur = chain[0] if chain else None
    while isinstance(cur, ast.If):
        if len(cur.orelse) == 1 and isinstance(cur.orelse[0], ast.If):
            cur = cur.orelse[0]
        else:
            last_else = cur.orelse
            break
    ok_else = bool(last_else) and isinstance(last_else[0], ast.Raise) and "KeyError" in norm(last_else[0])
    raises_key_error = any(isinstance(n, ast.Raise) and "KeyError" in norm(n) for n in body_walk(special.node))
    if not ok_else and raises_key_error:
        # KeyError is raised, but not in the final else of the recognised chain: for which names cannot be read off here
        ctx.undecided(R4, f"{special.key}:fallthrough", "KeyError is raised somewhere other than the final else of an if/elif chain over the stored name", special)
    else:
      ctx.check(ok_else, R4, f"{special.key}:fallthrough", "unknown wrapper name raises KeyError (custom reader is tried next)", "a name that is no wrapper does not fall through to the custom-gate reader", special)
    # MatrixFactoryGate
    mfg = [c for c in classes if c.name == "MatrixFactoryGate"]
    if not mfg or "MatrixFactoryGate" not in arms:
        ctx.violation(R2, f"{GATES}:MatrixFactoryGate:writer-arm", "MatrixFactoryGate has no to_dict arm", "")
    else:
        ctx.ok(R2, f"{GATES}:MatrixFactoryGate:writer-arm", "to_dict arm present", arms["MatrixFactoryGate"])
        sh = writer_shape(repo, arms["MatrixFactoryGate"])
        ctx.check(isinstance(sh, WDict) and "name" in sh.keys and not sh.keys["name"][0], R2, f"{GATES}:MatrixFactoryGate:writes-name", "always writes 'name'", "basic gate record may lack 'name'", arms["MatrixFactoryGate"])
    for need in ("Circuit", "GateOperation", "CustomGateDefinition", "list"):
        ctx.check(need in arms, R2, f"{SER}:to_dict:{need}", f"to_dict arm for {need}", f"no to_dict arm for {need}", repo.func(f"{SER}:to_dict"))
    base_td = repo.func(f"{SER}:to_dict")
    ctx.check(any(isinstance(n, ast.Raise) for n in body_walk(base_td.node)), R2, f"{base_td.key}:default", "default arm refuses unknown objects", "the default to_dict arm does not refuse unknown objects", base_td)
    # ---- reader chain order
    gfd = repo.func(f"{SER}:_gate_from_dict")
    ctx.analysed(gfd)
    seq = [dotted(c.func) for c in sorted([c for c in body_walk(gfd.node) if isinstance(c, ast.Call) and (dotted(c.func) or "").endswith("_from_dict")], key=lambda c: c.lineno)]
    ctx.check(seq == ["_builtin_gate_from_dict", "_special_gate_from_dict", "_custom_gate_instance_from_dict"], R4, gfd.key, "readers tried built-in -> wrapper -> custom", f"readers are tried in the order {seq}", gfd)
    # built-in names equal identifiers and lookup is by identifier
    table = gate_table(repo)
    bad = [g for g in table if g.name != g.ident]
    ctx.check(len(table) >= 27 and not bad, R4, "circuits._builtin_gates:names", f"{len(table)} built-in gates, name == identifier", f"built-in gate(s) whose name differs from the identifier it is looked up by: {[(g.ident, g.name) for g in bad]} (serialised under the name, looked up by identifier)", repo.module("circuits._builtin_gates").relpath + ":1")
    lookup = repo.func("circuits._builtin_gates:builtin_gate_by_name")
    lp = positional_params(lookup.node)[0]
    lrets = exit_exprs(lookup.node)
    ok_lookup = any(isinstance(r, ast.Subscript) and norm(r.value) == "globals()" and norm(r.slice) == lp for r in lrets)
    ctx.check(ok_lookup, R4, lookup.key, "lookup is globals()[name]", "built-in lookup is no longer by module-level identifier", lookup)
    # ... by the *exact* name, on every exit: the reader tries the built-in lookup first, so a lookup that also accepts other
    # spellings (case-folded, stripped, aliased) makes a custom gate with such a name load as the built-in gate
    loose = [r for r in lrets if not (isinstance(r, ast.Subscript) and norm(r.value) == "globals()" and norm(r.slice) == lp)]
    ctx.check(not loose, R4, lookup.key + ":exact-name", "every exit looks the exact name up", f"builtin_gate_by_name also answers with {short(loose[0], 80) if loose else ''}: a name that is not a built-in identifier resolves to a built-in gate all the same, and since the reader asks this lookup first, a custom gate of that name (e.g. `h`, `u3`) is read back as the built-in one", f"{lookup.module.relpath}:{loose[0].lineno}" if loose else lookup)
    # ---- order / width preservation in the circuit reader & writers
    cfd = repo.func(f"{SER}:circuit_from_dict")
    calls = circuit_ctor_calls(repo, cfd)
    ok = False
    if len(calls) == 1:
        o, w = ops_expr(calls[0]), width_expr(calls[0])
        ok = isinstance(o, ast.ListComp) and len(o.generators) == 1 and "operations" in norm(o.generators[0].iter) and count_reversals(o) == 0 and not o.generators[0].ifs and w is not None and norm(w) == "dict_['n_qubits']"
        if ok:
            e = o.elt
            ok = isinstance(e, ast.Call) and dotted(e.func) == "_gate_operation_from_dict" and norm(e.args[0]) == norm(o.generators[0].target) and len(e.args) == 2
            if ok:
                dd = Defs(cfd.node)
                ok = "call:custom_gate_def_from_dict" in dd.atoms(e.args[1])
    ctx.check(ok, R3, cfd.key, "operations read back in order with the circuit's definitions; width from n_qubits", "circuit_from_dict does not rebuild the operations in order with the record's custom definitions and the stored width", cfd)
    gof = repo.func(f"{SER}:_gate_operation_from_dict")
    ok = any(isinstance(c, ast.Call) and norm(c.func).endswith("GateOperation") and norm(arg_or_kw(c, 1, "qubit_indices")) == "tuple(dict_['qubit_indices'])" and "_gate_from_dict(dict_['gate'], custom_gate_defs)" == norm(arg_or_kw(c, 0, "gate")) for c in body_walk(gof.node))
    ctx.check(ok, R3, gof.key, "gate and qubit tuple restored in order", "gate operation reader does not restore the gate and the qubit indices in stored order", gof)
    gow = repo.func(f"{SER}:_gate_operation_to_dict")
    okw = any(isinstance(n, ast.Dict) and {const_str(k): norm(v) for k, v in zip(n.keys, n.values) if k is not None}.get("qubit_indices") == "list(gate_operation.qubit_indices)" and {const_str(k): norm(v) for k, v in zip(n.keys, n.values) if k is not None}.get("gate") == "to_dict(gate_operation.gate)" for n in body_walk(gow.node))
    ctx.check(okw, R3, gow.key, "writes the gate and the qubit indices in order", "gate operation writer does not store the gate and the qubit indices in order", gow)
    bw = repo.func(f"{SER}:_basic_gate_to_dict")
    txt = norm(bw.node)
    ctx.check("_map_eager(serialize_expr, gate.params)" in txt and "sorted(map(str, gate.free_symbols))" in txt, R3, bw.key, "parameters serialised in order; free symbols listed", "basic gate writer does not serialise every parameter in order together with its free symbols", bw)
    # ---- D5 lints
    if not self_check_iterator_reuse() or not self_check():
        ctx.undecided(R5, "lint-self-check", "embedded positive example of a zero-expected lint was not detected", "")
    serde_funcs = [f for f in repo.module(SER).functions.values()]
    for f in serde_funcs:
        ctx.analysed(f)
        sites = iterator_reuse_sites(repo, f)
        if sites:
            for name, bind, use in sites:
                ctx.violation(R5, f"{f.key}:iterator-reuse:{name}", f"one-shot iterator `{name}` ({short(bind)}) is exhausted repeatedly ({short(use)}): only the first use sees its elements", f"{f.module.relpath}:{getattr(use, 'lineno', bind.lineno)}")
        else:
            ctx.ok(R5, f"{f.key}:iterator-reuse", "no one-shot iterator exhausted in a repeated region", f)
    check_hidden_state(ctx, R5, serde_funcs, effects_for(ctx))
    for key in (f"{SER}:_builtin_gate_from_dict", f"{SER}:_custom_gate_instance_from_dict"):
        f = repo.func(key)
        dd = Defs(f.node)
        calls = [c for c in body_walk(f.node) if isinstance(c, ast.Call) and dotted(c.func) == "deserialize_expr"]
        if not calls:
            ctx.violation(R5, f"{key}:symbol-table", "parameters are not deserialised through deserialize_expr", f)
        for c in calls:
            st = arg_or_kw(c, 1, "symbol_names")
            atoms = dd.atoms(st) if st is not None else set()
            ok = st is not None and ("free_symbols" in norm(st) or any("free_symbols" in norm(v) for v in dd.defs.get(getattr(st, "id", ""), []) if isinstance(v, ast.AST)))
            ctx.check(ok, R5, f"{key}:symbol-table", "parameter symbols come from the record's free_symbols", f"symbol table {short(st)} for the instance parameters does not come from the record's own free_symbols (names such as gamma/beta then resolve to sympy functions)", f"{f.module.relpath}:{c.lineno}")
            p = arg_or_kw(c, 0, "expr_str")
            loops = [g for n in body_walk(f.node) if isinstance(n, ast.ListComp) for g in n.generators if any(x is c for x in ast.walk(n))]
            okp = bool(loops) and "params" in norm(loops[0].iter) and norm(p) == norm(loops[0].target) and count_reversals(loops[0].iter) == 0
            ctx.check(okp, R5, f"{key}:param-order", "every stored parameter deserialised in order", "parameters are not deserialised one by one in stored order", f"{f.module.relpath}:{c.lineno}")
    de = repo.func(f"{SER}:deserialize_expr")
    def _table_from_names(fn, e) -> bool:
        """`e` is a dictionary filled, in a loop over the function's symbol-name parameter, with `sympy.Symbol(<that name>)`"""
        if not isinstance(e, ast.Name):
            return False
        names_param = positional_params(fn.node)[1] if len(positional_params(fn.node)) > 1 else None
        for loop in body_walk(fn.node):
            if not isinstance(loop, ast.For):
                continue
            it = loop.iter.args[0] if isinstance(loop.iter, ast.Call) and dotted(loop.iter.func) == "enumerate" and loop.iter.args else loop.iter
            if norm(it) != names_param:
                continue
            tv = {n.id for n in ast.walk(loop.target) if isinstance(n, ast.Name)}
            stores = [a for a in ast.walk(loop) if isinstance(a, ast.Assign) and isinstance(a.targets[0], ast.Subscript) and norm(a.targets[0].value) == e.id]
            if stores and all(isinstance(a.value, ast.Call) and (dotted(a.value.func) or "").split(".")[-1] == "Symbol" and len(a.value.args) == 1 and norm(a.value.args[0]) in tv for a in stores):
                return True
        return False

    okl = any(isinstance(c, ast.Call) and (dotted(c.func) or "").endswith("sympify") and kwarg(c, "locals") is not None and ("call:_make_symbols_map" in Defs(de.node).atoms(kwarg(c, "locals")) or _table_from_names(de, kwarg(c, "locals"))) for c in body_walk(de.node))
    ctx.check(okl, R5, de.key, "sympify(expr, locals=<symbol table>)", "expressions are parsed without the record's symbol table as locals: symbol names that shadow sympy names are mis-parsed", de)
    # the stored text of a parameter may be a bare symbol name: Python's own float()/complex() accept the *identifiers*
    # "inf", "nan", "infinity", "j" (and sign/case variants), so parsing the text with them before the symbol table had
    # its say turns the symbols j / J / inf / nan into numbers
    early = []

    def scan(fi, pname, depth):
        dd = Defs(fi.node)
        for c in body_walk(fi.node):
            if not isinstance(c, ast.Call) or not c.args:
                continue
            fn_names = set()
            if isinstance(c.func, ast.Name):
                fn_names.add(c.func.id)
                for loop in body_walk(fi.node):
                    if isinstance(loop, ast.For) and isinstance(loop.target, ast.Name) and loop.target.id == c.func.id and isinstance(loop.iter, (ast.Tuple, ast.List)):
                        fn_names |= {e.id for e in loop.iter.elts if isinstance(e, ast.Name)}
            takes = [i for i, a in enumerate(c.args) if norm(a) == pname or pname in dd.atoms(a)]
            if fn_names & {"float", "complex"} and 0 in takes:
                early.append((fi, c))
            elif takes and depth < 2 and isinstance(c.func, ast.Name) and c.func.id in fi.module.functions and c.func.id not in ("_make_symbols_map",):
                callee = fi.module.functions[c.func.id]
                cps = positional_params(callee.node)
                for i in takes:
                    if i < len(cps):
                        scan(callee, cps[i], depth + 1)

    scan(de, positional_params(de.node)[0], 0)
    early_fi = early[0][0] if early else de
    early = [c for _, c in early]
    ctx.check(not early, R5, de.key + ":symbol-names-first", "the stored text is interpreted with the record's symbol table, not by float()/complex()", f"`{short(early[0]) if early else ''}` parses the stored text with Python's float/complex: these accept the identifiers inf, nan, infinity and j, so a bare symbol of that name (e.g. RY(Symbol('j'))) is deserialised as a number", f"{early_fi.module.relpath}:{early[0].lineno}" if early else de)
    se = repo.func(f"{SER}:serialize_expr")
    rs = returned_exprs(se.node)
    ctx.check(len(rs) == 1 and norm(rs[0]) == f"str({positional_params(se.node)[0]})", R5, se.key, "expressions stored as str(expr)", "expressions are no longer stored as str(expr)", se)
    # the writer stores the definitions of the custom gates a circuit uses; the reader resolves a custom gate's name at any
    # depth of a modifier stack (Control/Dagger/Power/Exponential records recurse into `wrapped_gate` with the same
    # definition list), so the collector has to look through the modifiers too -- otherwise a custom gate that only occurs
    # wrapped is serialised without its definition and the record cannot be read back
    col = repo.func("circuits._circuit:Circuit.collect_custom_gate_definitions")
    ctx.analysed(col)
    scope = [col] + [col.module.functions[c.func.id] for c in body_walk(col.node) if isinstance(c, ast.Call) and isinstance(c.func, ast.Name) and c.func.id in col.module.functions]
    scope += [f.module.functions[c.func.id] for f in list(scope) for c in body_walk(f.node) if isinstance(c, ast.Call) and isinstance(c.func, ast.Name) and c.func.id in f.module.functions]
    unwraps = any((isinstance(n, ast.Attribute) and n.attr == "wrapped_gate") or (isinstance(n, ast.Call) and dotted(n.func) in ("getattr", "hasattr") and len(n.args) >= 2 and isinstance(n.args[1], ast.Constant) and n.args[1].value == "wrapped_gate") for f in scope for n in body_walk(f.node))
    ctx.check(unwraps, R2, col.key + ":through-wrappers", "custom gate definitions are collected through modifier wrappers", "collect_custom_gate_definitions only recognises a custom gate applied directly: a custom gate under controlled/dagger/power/exp is serialised without its definition, and circuit_from_dict then raises 'Custom gate definition ... missing'", col)
    # two definitions with one name must be noticed wherever in the circuit they occur: itertools.groupby only groups *adjacent*
    # equal keys, so grouping an input that is not sorted by the same key compares neighbours only
    for f in scope:
        for c in body_walk(f.node):
            if isinstance(c, ast.Call) and (dotted(c.func) or "").split(".")[-1] == "groupby" and c.args:
                src = c.args[0]
                dd = Defs(f.node)
                while isinstance(src, ast.Name) and len([v for v in dd.defs.get(src.id, []) if isinstance(v, ast.AST)]) == 1:
                    src = [v for v in dd.defs[src.id] if isinstance(v, ast.AST)][0]
                is_sorted = isinstance(src, ast.Call) and dotted(src.func) == "sorted" and norm(kwarg(src, "key")) == norm(kwarg(c, "key") or (c.args[1] if len(c.args) > 1 else None))
                ctx.check(is_sorted, R2, f.key + ":same-name-definitions", "definitions are grouped by name over input sorted by name", f"`{short(c, 90)}` groups definitions by name, but its input is not sorted by that key: groupby only merges neighbours, so two different definitions of one name separated by another custom gate are not refused -- one of them is silently dropped and the gates using it are read back with the other's matrix", f"{f.module.relpath}:{c.lineno}")
    # compositionality of the records: the record of a circuit inside a list is the record `_circuit_to_dict` produced for
    # it, unaltered -- the reader of the list hands each element to the single-circuit reader, which expects a complete
    # record (its own width, operations *and* custom-gate definitions). Moving a key out of the child records couples the
    # circuits of a list to one another (e.g. definitions merged across circuits by gate name).
    cs = repo.func(f"{SER}:_circuitset_to_dict")
    ctx.analysed(cs)
    dcs = Defs(cs.node)
    children = {nm for nm, vs in dcs.defs.items() if any(isinstance(v, ast.AST) and "_circuit_to_dict" in norm(v) for v in vs)}
    elems = set()
    for lp in body_walk(cs.node):
        if isinstance(lp, ast.For) and isinstance(lp.iter, ast.Name) and lp.iter.id in children and isinstance(lp.target, ast.Name):
            elems.add(lp.target.id)
    edits = []
    for n in body_walk(cs.node):
        if isinstance(n, ast.Call) and isinstance(n.func, ast.Attribute) and n.func.attr in ("pop", "popitem", "clear", "update", "setdefault", "__delitem__", "__setitem__") and isinstance(n.func.value, ast.Name) and n.func.value.id in elems:
            edits.append(n)
        if isinstance(n, ast.Subscript) and isinstance(n.ctx, (ast.Store, ast.Del)) and isinstance(n.value, ast.Name) and n.value.id in elems:
            edits.append(n)
    ctx.check(not edits, R1, cs.key + ":child-records-unaltered", "each circuit of a list is stored as its own complete record", f"`{short(edits[0]) if edits else ''}` edits the record of a single circuit after _circuit_to_dict produced it: the circuits of a list are no longer stored independently (custom-gate definitions of different circuits that share a name get merged, the later circuit is read back with the earlier one's matrix)", f"{cs.module.relpath}:{edits[0].lineno}" if edits else cs)
    check_symbol_table_slots(ctx)
    ctx.floor("C05-D1", 40)
    ctx.floor("C05-D2", 14)
    ctx.floor("C05-D3", 10)
    ctx.floor("C05-D4", 8)
    ctx.floor("C05-D5", 30)
