"""C15 — estimation returns one correctly weighted result per task, in task order."""
from __future__ import annotations

import ast
from typing import Dict, List, Optional, Set, Tuple

from ..astutil import arg_or_kw, body_walk, const_value, dotted, kwarg, norm, positional_params, short, walk_local
from ..cfg import branch_raises, cfg_of
from ..common import find_calls_named, returned_exprs
from ..flow import Defs
from ..orient import count_reversals
from ..state import check_hidden_state

EXPLANATION = (
    "Partition provenance: (D1) split_estimation_tasks_to_measure appends, on each branch of one test (constant "
    "operator or zero shots), the task's enumerate index and the task itself to lists of the *same* partition, and "
    "returns the four lists in the slots the caller unpacks; in estimate_expectation_values_by_averaging every name "
    "of a partition is bound once (never re-ordered, filtered or re-assigned), results are produced element-wise in "
    "order from the task list of that partition (the runner is given circuits and shots unzipped from one "
    "comprehension over the measured tasks, the measurements are zipped back with the operators of the same "
    "comprehension), and each zip(values, indices) pairs operands of one partition and stores to full[index]; (D2) "
    "the output list has len(not measured) + len(measured) slots and is what is returned; (D3) a constant operator "
    "is valued by aggregating over all its terms, a non-constant zero-shot task by the literal 0, and a task that "
    "asked for shots raises; (D4) evaluate_estimation_circuits builds each new task from the operator and shot "
    "count of the same task whose circuit it binds with the map zipped to it, with no lookup table or state "
    "surviving between tasks; (D5) exact values: one runner.get_exact_expectation_values(task.circuit, "
    "task.operator) per task in order (argument slots match the simulator's signature), wrapped one-to-one. "
    "(D3) is decided by path conditions on `is_constant` (a value not governed by that test serves both cases and is a violation); (D6) both sampling regimes number qubits alike (rule shared with C04-D1), which 'regardless of shot count' needs."
    ' Round 4: (D7) the simulated state the exact values are computed from is threaded as decided by C01-D1.'
    ' Round 5: (D8) no unsound cache; (D9) the exact values are the quadratic form of C09-D4; is_constant looks at the factors only.'
    ' Round 6: the sampling rule shared with C04 also follows bit-by-bit decoding of drawn indices (D6).'
)
RULE_TEXT = "instances = partition appends, unpack slots, single-binding obligations per partition name, element-wise producers, zips, allocation, constant/zero-shot branches, per-task field provenance; distinct by (rule, construct)"
ASSUMPTIONS = [
    "declined: exact values for basis states and the simulator's quadratic form (numeric; C04/C09/C10 decide the structural parts); runner.run_batch_and_measure returns one Measurements per circuit in order (C14-D4)",
]

ES = "estimation._estimation"
R1 = "C15-D1 partition-provenance"
R2 = "C15-D2 output-allocation"
R3 = "C15-D3 non-measured-values"
R4 = "C15-D4 per-task-binding"
R5 = "C15-D5 exact-values"

REORDER = {"sorted", "reversed", "sort", "reverse", "shuffle", "filter", "set", "frozenset", "unique", "sample"}


def _reorders(e: ast.AST) -> Optional[ast.AST]:
    for x in ast.walk(e):
        if isinstance(x, ast.Call) and (dotted(x.func) or "").split(".")[-1] in REORDER:
            return x
        if isinstance(x, ast.Attribute) and x.attr in ("sort", "reverse") :
            return x
    if count_reversals(e):
        return e
    return None


def check_split(ctx) -> Optional[Dict[str, str]]:
    repo = ctx.repo
    f = repo.func(f"{ES}:split_estimation_tasks_to_measure")
    ctx.analysed(f)
    tasks = positional_params(f.node)[0]
    loops = [l for l in f.node.body if isinstance(l, ast.For)]
    if len(loops) != 1 or not (isinstance(loops[0].iter, ast.Call) and dotted(loops[0].iter.func) == "enumerate" and norm(loops[0].iter.args[0]) == tasks and isinstance(loops[0].target, ast.Tuple)):
        ctx.undecided(R1, f.key + ":loop", "cannot find `for i, task in enumerate(tasks)`", f)
        return None
    l = loops[0]
    i, t = (norm(x) for x in l.target.elts)
    ifs = [s for s in l.body if isinstance(s, ast.If)]
    if len(ifs) != 1 or len(l.body) != 1:
        ctx.undecided(R1, f.key + ":branches", "loop body is not a single two-way test", f)
        return None
    br = ifs[0]
    test = norm(br.test)
    disj = {norm(v) for v in br.test.values} if isinstance(br.test, ast.BoolOp) and isinstance(br.test.op, ast.Or) else {test}
    ok_test = disj == {f"{t}.operator.is_constant", f"{t}.number_of_shots == 0"}
    ctx.check(ok_test, R1, f.key + ":classifier", "not measured <=> constant operator or zero shots", f"tasks are classified by `{short(br.test)}`: the not-measured class must be exactly the constant-operator and the zero-shot tasks", f)

    def appended(block) -> Dict[str, str]:
        out = {}
        for s in block:
            for c in ast.walk(s):
                if isinstance(c, ast.Call) and isinstance(c.func, ast.Attribute) and c.func.attr == "append" and len(c.args) == 1:
                    out[norm(c.func.value)] = norm(c.args[0])
        return out

    a_not, a_yes = appended(br.body), appended(br.orelse)
    rets = returned_exprs(f.node)
    if len(rets) != 1 or not isinstance(rets[0], ast.Tuple) or len(rets[0].elts) != 4:
        ctx.undecided(R1, f.key + ":return", "does not return a 4-tuple", f)
        return None
    slots = [norm(x) for x in rets[0].elts]
    # documented slots: (tasks to measure, tasks not to measure, indices to measure, indices not to measure)
    want = [("measure", t), ("not", t), ("measure", i), ("not", i)]
    ok = True
    detail = []
    for slot, (part, what) in zip(slots, want):
        src = a_yes if part == "measure" else a_not
        other = a_not if part == "measure" else a_yes
        if src.get(slot) != what or slot in other:
            ok = False
            detail.append(f"slot `{slot}` should collect the {'index' if what == i else 'task'} of the {'measured' if part == 'measure' else 'not measured'} branch, but that branch appends {src.get(slot)!r} to it" + (" and the other branch appends to it too" if slot in other else ""))
    ctx.check(ok and len(a_not) == 2 and len(a_yes) == 2, R1, f.key + ":appends", "each branch appends the task and its own index to the two lists of its partition; returned in the documented slots", "; ".join(detail) or f"branches append to {sorted(a_not)} / {sorted(a_yes)}", f)
    return {"measure_tasks": slots[0], "not_tasks": slots[1], "measure_idx": slots[2], "not_idx": slots[3]}


def check_averaging(ctx):
    repo = ctx.repo
    f = repo.func(f"{ES}:estimate_expectation_values_by_averaging")
    ctx.analysed(f)
    runner, tasks = positional_params(f.node)[:2]
    d = Defs(f.node)
    unpack = [s for s in f.node.body if isinstance(s, ast.Assign) and isinstance(s.targets[0], ast.Tuple) and len(s.targets[0].elts) == 4 and isinstance(s.value, ast.Call) and dotted(s.value.func) == "split_estimation_tasks_to_measure" and norm(s.value.args[0]) == tasks]
    if len(unpack) != 1:
        ctx.undecided(R1, f.key + ":unpack", "cannot find the 4-way unpacking of split_estimation_tasks_to_measure(tasks)", f)
        return
    mt, nt, mi, ni = (norm(x) for x in unpack[0].targets[0].elts)
    ctx.ok(R1, f.key + ":unpack", f"partitions: measured ({mt}, {mi}), not measured ({nt}, {ni})", f)
    # single binding: no partition name is rebound or re-ordered in place
    for name in (mt, nt, mi, ni):
        stmts = d.assign_stmts.get(name, [])
        inplace = [c for c in body_walk(f.node) if isinstance(c, ast.Call) and isinstance(c.func, ast.Attribute) and norm(c.func.value) == name and c.func.attr in ("sort", "reverse", "pop", "remove", "insert", "append", "extend", "clear")]
        ok = len(stmts) == 1 and not inplace
        bad = (stmts[1] if len(stmts) > 1 else (inplace[0] if inplace else None))
        ctx.check(ok, R1, f.key + f":single-binding:{name}", f"`{name}` keeps the order produced by the split", f"`{name}` is re-bound or edited after the split ({short(bad) if bad is not None else ''}): its order no longer matches the index list remembered for that partition, so results land at other tasks' positions", f"{f.module.relpath}:{getattr(bad, 'lineno', f.node.lineno)}")
    # not-measured values
    nm_vals = [nm for nm, vs in d.defs.items() if any(isinstance(v, ast.Call) and dotted(v.func) == "evaluate_non_measured_estimation_tasks" and norm(v.args[0]) == nt for v in vs)]
    ctx.check(len(nm_vals) == 1, R1, f.key + ":not-measured-values", "values of the not-measured partition come from its own task list", "the not-measured values are not computed from the not-measured task list", f)
    # measured: one comprehension over measured tasks -> unzip -> runner -> zip with operators
    unz = [s for s in body_walk(f.node) if isinstance(s, ast.Assign) and isinstance(s.targets[0], ast.Tuple) and isinstance(s.value, ast.Call) and dotted(s.value.func) == "zip" and len(s.value.args) == 1 and isinstance(s.value.args[0], ast.Starred)]
    m_vals = None
    if len(unz) == 1 and isinstance(unz[0].value.args[0].value, ast.ListComp):
        comp = unz[0].value.args[0].value
        e = norm(comp.generators[0].target)
        names = [norm(x) for x in unz[0].targets[0].elts]
        fields = [norm(x) for x in comp.elt.elts] if isinstance(comp.elt, ast.Tuple) else []
        by_field = dict(zip(fields, names))
        ro = _reorders(comp.generators[0].iter)
        ok = norm(comp.generators[0].iter) == mt and not comp.generators[0].ifs and set(fields) == {f"{e}.circuit", f"{e}.operator", f"{e}.number_of_shots"} and len(names) == 3
        ctx.check(ok, R1, f.key + ":unzip", "circuits, operators and shot counts are unzipped from one pass over the measured tasks", f"circuits/operators/shots are taken from {short(comp)}" + (f" — `{short(ro)}` re-orders the tasks relative to their remembered indices" if ro is not None else ": not one un-filtered pass over the measured task list"), f"{f.module.relpath}:{unz[0].lineno}")
        c_name, o_name, s_name = by_field.get(f"{e}.circuit"), by_field.get(f"{e}.operator"), by_field.get(f"{e}.number_of_shots")
        runs = [(nm, v) for nm, vs in d.defs.items() for v in vs if isinstance(v, ast.Call) and isinstance(v.func, ast.Attribute) and v.func.attr == "run_batch_and_measure" and norm(v.func.value) == runner]
        ok = len(runs) == 1 and [norm(a) for a in runs[0][1].args] == [c_name, s_name]
        ctx.check(ok, R1, f.key + ":run", "runner.run_batch_and_measure(circuits, shots) with the unzipped sequences", f"the runner is called as {short(runs[0][1]) if runs else '?'}: not (circuits, shots per circuit) of the measured tasks", f)
        if runs:
            ml = runs[0][0]
            vals = [(nm, v) for nm, vs in d.defs.items() for v in vs if isinstance(v, ast.ListComp) and isinstance(v.generators[0].iter, ast.Call) and dotted(v.generators[0].iter.func) == "zip"]
            ok = False
            detail = "no comprehension zipping operators with measurements"
            for nm, v in vals:
                za = [norm(a) for a in v.generators[0].iter.args]
                tg = [norm(x) for x in v.generators[0].target.elts] if isinstance(v.generators[0].target, ast.Tuple) else []
                if set(za) == {o_name, ml} and len(tg) == 2:
                    bind = dict(zip(za, tg))
                    calls = [c for c in ast.walk(v.elt) if isinstance(c, ast.Call) and isinstance(c.func, ast.Attribute) and c.func.attr == "get_expectation_values"]
                    ok = len(calls) == 1 and norm(calls[0].func.value) == bind[ml] and norm(calls[0].args[0]) == bind[o_name] and not v.generators[0].ifs
                    detail = f"{short(v)}: the i-th measurements must be evaluated with the i-th operator"
                    m_vals = nm
            ctx.check(ok, R1, f.key + ":evaluate", "i-th measurements evaluated against the i-th measured task's operator", detail, f)
    else:
        ctx.undecided(R1, f.key + ":unzip", "cannot find `circuits, operators, shots = zip(*[...measured tasks...])`", f)
    # write-back
    full = None
    allocs = [(nm, v) for nm, vs in d.defs.items() for v in vs if isinstance(v, ast.ListComp) and isinstance(v.elt, ast.Constant) and v.elt.value is None] + [(nm, v) for nm, vs in d.defs.items() for v in vs if isinstance(v, ast.BinOp) and isinstance(v.op, ast.Mult) and isinstance(v.left, ast.List) and len(v.left.elts) == 1]
    if len(allocs) == 1:
        full, a = allocs[0]
        size = a.generators[0].iter.args[0] if isinstance(a, ast.ListComp) and isinstance(a.generators[0].iter, ast.Call) and dotted(a.generators[0].iter.func) == "range" else (a.right if isinstance(a, ast.BinOp) else None)
        st = norm(size) if size is not None else ""
        ok = st in (f"len({nt}) + len({mt})", f"len({mt}) + len({nt})", f"len({tasks})", f"len({ni}) + len({mi})", f"len({mi}) + len({ni})")
        ctx.check(ok, R2, f.key + ":allocation", "one slot per task", f"the result list is allocated with {st or '?'} slots: it must have one slot per task (measured + not measured)", f)
    else:
        ctx.undecided(R2, f.key + ":allocation", "cannot find the allocation of the result list", f)
    loops = [l for l in f.node.body if isinstance(l, ast.For) and isinstance(l.iter, ast.Call) and dotted(l.iter.func) == "zip" and len(l.iter.args) == 2]
    seen = set()
    for l in loops:
        va, ia = (norm(x) for x in l.iter.args)
        tv, ti = (norm(x) for x in l.target.elts) if isinstance(l.target, ast.Tuple) else (None, None)
        stores = [s for s in l.body if isinstance(s, ast.Assign) and isinstance(s.targets[0], ast.Subscript)]
        part = "measured" if ia == mi else ("not-measured" if ia == ni else None)
        want_vals = m_vals if part == "measured" else (nm_vals[0] if (part == "not-measured" and nm_vals) else None)
        ok = part is not None and va == want_vals and len(stores) == 1 and norm(stores[0].targets[0].value) == full and norm(stores[0].targets[0].slice) == ti and norm(stores[0].value) == tv
        seen.add(part)
        if part == "measured" and m_vals is None:
            # the list of measured values was not identified above (the evaluation has another shape): nothing can be said about
            # which list this loop must zip -- the construct is lost, which is not a decided violation
            ctx.undecided(R1, f.key + f":write-back:{ia}", f"the measured values could not be identified, so it is unknown whether `{va}` holds them", f)
            continue
        ctx.check(ok, R1, f.key + f":write-back:{ia}", f"{part} values are written to the positions remembered for that partition", f"write-back loop zips {va} with {ia}: values of one partition must be stored at the indices remembered for the same partition", f"{f.module.relpath}:{l.lineno}")
    if not loops:
        ctx.undecided(R1, f.key + ":write-back:both", "cannot find the two `for value, index in zip(values, indices)` write-back loops", f)
    else:
      ctx.check(seen >= {"measured", "not-measured"}, R1, f.key + ":write-back:both", "both partitions are written back", "one of the two partitions is never written back into the result list", f)
    rets = returned_exprs(f.node)
    ok = len(rets) == 1 and full is not None and full in {n.id for n in ast.walk(rets[0]) if isinstance(n, ast.Name)} and _reorders(rets[0]) is None
    ctx.check(ok, R2, f.key + ":return", "the filled list is returned as is", "the filled result list is not what is returned (or it is re-ordered on the way out)", f)
    # empty measured branch
    guards = [s for s in f.node.body if isinstance(s, ast.If) and norm(s.test) in (f"not {mt}", f"len({mt}) == 0")]
    ok = not guards or any(isinstance(x, ast.Assign) and isinstance(x.value, ast.List) and not x.value.elts for x in guards[0].body)
    ctx.check(ok, R1, f.key + ":nothing-to-measure", "with nothing to measure the measured results are the empty list (runner not called)", "the nothing-to-measure branch does not produce an empty list of measured results", f)


def check_non_measured(ctx):
    repo = ctx.repo
    f = repo.func(f"{ES}:evaluate_non_measured_estimation_tasks")
    ctx.analysed(f)
    tasks = positional_params(f.node)[0]
    loops = [l for l in f.node.body if isinstance(l, ast.For) and norm(l.iter) == tasks]
    if len(loops) != 1:
        ctx.undecided(R3, f.key + ":loop", "cannot find the loop over the tasks", f)
        return
    l = loops[0]
    t = norm(l.target)
    cfg = cfg_of(f.node)
    from .c03 import _bool_eval

    # the value variable: what the appended ExpectationValues carries
    apps0 = [c for c in ast.walk(l) if isinstance(c, ast.Call) and isinstance(c.func, ast.Attribute) and c.func.attr == "append" and c.args and isinstance(c.args[0], ast.Call) and dotted(c.args[0].func) == "ExpectationValues"]
    assigns = [s for s in ast.walk(l) if isinstance(s, (ast.Assign, ast.AnnAssign)) and getattr(s, "value", None) is not None and isinstance(s.targets[0] if isinstance(s, ast.Assign) else s.target, ast.Name)]
    vnames = {norm(s.targets[0] if isinstance(s, ast.Assign) else s.target) for s in assigns}
    used = {n.id for a in apps0 for n in ast.walk(a.args[0]) if isinstance(n, ast.Name)} & vnames
    if len(apps0) != 1 or len(used) != 1:
        ctx.undecided(R3, f.key + ":constant-test", "cannot find the single value variable carried by the appended ExpectationValues", f)
        return
    vname = next(iter(used))
    vdefs = [s for s in assigns if norm(s.targets[0] if isinstance(s, ast.Assign) else s.target) == vname]
    is_const_txt = f"{t}.operator.is_constant"
    tests = [n for n in cfg.nodes if n.kind == "test" and n.ast is not None and norm(getattr(n.ast, "test", n.ast)) in (is_const_txt, f"not {is_const_txt}")]

    def side(stmt) -> Optional[str]:
        node = cfg.containing_node(stmt)
        if node is None:
            return None
        for tn in tests:
            neg = norm(getattr(tn.ast, "test", tn.ast)).startswith("not ")
            if cfg.edge_dominates(tn, "true", node):
                return "nonconstant" if neg else "constant"
            if cfg.edge_dominates(tn, "false", node):
                return "constant" if neg else "nonconstant"
        return None

    def from_ifexp(v):
        """value = A if is_constant else B"""
        if isinstance(v, ast.IfExp) and norm(v.test) in (is_const_txt, f"not {is_const_txt}"):
            neg = norm(v.test).startswith("not ")
            return (v.orelse, v.body) if neg else (v.body, v.orelse)
        return None

    const_vals, nonconst_vals, both_vals = [], [], []
    for sdef in vdefs:
        pair = from_ifexp(sdef.value)
        if pair is not None:
            const_vals.append(pair[0])
            nonconst_vals.append(pair[1])
            continue
        sd = side(sdef)
        (const_vals if sd == "constant" else nonconst_vals if sd == "nonconstant" else both_vals).append(sdef.value)

    def is_aggregate(v) -> bool:
        agg_sum = isinstance(v, ast.Call) and dotted(v.func) in ("sum", "np.sum", "math.fsum") and v.args and isinstance(v.args[0], (ast.GeneratorExp, ast.ListComp)) and norm(v.args[0].generators[0].iter) == f"{t}.operator.terms" and norm(v.args[0].elt) == f"{norm(v.args[0].generators[0].target)}.coefficient" and not v.args[0].generators[0].ifs
        return bool(agg_sum) or norm(v) == f"{t}.operator.constant_term"

    def is_zero(v) -> bool:
        try:
            return const_value(v) == 0
        except ValueError:
            return False

    if both_vals:
        v = both_vals[0]
        ctx.violation(R3, f.key + ":zero-shot", f"the value `{short(v)}` is used for constant and non-constant operators alike (no `{is_const_txt}` test governs it): a non-constant zero-shot task must yield exactly 0, but this expression yields the operator's constant part (e.g. 3 for 2*Z0 + 3*I)" if is_aggregate(v) else f"the value `{short(v)}` is used for constant and non-constant operators alike: a constant operator must yield the sum of its terms and a non-constant zero-shot task exactly 0", f)
        ctx.check(is_aggregate(v), R3, f.key + ":constant", "constant operator -> sum of all its (constant) terms' coefficients", f"a constant operator is valued as {short(v)}", f)
    else:
        ok = len(const_vals) >= 1 and all(is_aggregate(v) for v in const_vals)
        v = const_vals[0] if const_vals else None
        fixed = [n for n in ast.walk(v) if isinstance(n, ast.Subscript) and isinstance(n.slice, ast.Constant)] if v is not None else []
        detail = "no value assigned on the constant branch" if v is None else f"a constant operator is valued as {short(v)}" + (": a fixed subscript takes one term only (wrong for several constant terms, IndexError for the empty sum)" if fixed else ": it must aggregate the coefficients of all its terms")
        ctx.check(ok, R3, f.key + ":constant", "constant operator -> sum of all its (constant) terms' coefficients", detail, f)
        ok_zero = len(nonconst_vals) >= 1 and all(is_zero(v) for v in nonconst_vals)
        ctx.check(ok_zero, R3, f.key + ":zero-shot", "non-constant zero-shot task -> literal 0", "a non-constant zero-shot task is not valued as exactly 0" + (f" (it gets {short(nonconst_vals[0])})" if nonconst_vals else ""), f)
    # a non-constant task that asked for shots is refused
    ok_raise = False
    for st in ast.walk(l):
        if isinstance(st, ast.If) and any(isinstance(x, ast.Raise) for x in st.body):
            cmps = [c for c in ast.walk(st.test) if isinstance(c, ast.Compare) and norm(c.left) == f"{t}.number_of_shots" and not isinstance(c.ops[0], (ast.Is, ast.IsNot))]
            pos = any(_bool_eval(ast.parse(norm(c).replace(f"{t}.number_of_shots", "N"), mode="eval").body, {"N": 1}) is True and _bool_eval(ast.parse(norm(c).replace(f"{t}.number_of_shots", "N"), mode="eval").body, {"N": 0}) is False for c in cmps)
            node = cfg.containing_node(st.body[0]) if st.body else None
            on_nonconst = (node is not None and any(cfg.edge_dominates(tn, "false" if not norm(getattr(tn.ast, "test", tn.ast)).startswith("not ") else "true", node) for tn in tests)) or f"not {is_const_txt}" in norm(st.test)
            if pos and on_nonconst:
                ok_raise = True
    ctx.check(ok_raise, R3, f.key + ":misclassified", "a non-constant task that asked for shots raises", "a non-constant task with a positive shot count is not refused here", f)
    const_assign = vdefs
    apps = [c for c in ast.walk(l) if isinstance(c, ast.Call) and isinstance(c.func, ast.Attribute) and c.func.attr == "append"]
    ok = len(apps) == 1 and apps[0] in [x for s in l.body if not isinstance(s, ast.If) for x in ast.walk(s)] and isinstance(apps[0].args[0], ast.Call) and dotted(apps[0].args[0].func) == "ExpectationValues"
    ok = ok and vname is not None and vname in norm(apps[0].args[0].args[0] if apps[0].args[0].args else apps[0].args[0])
    rets = returned_exprs(f.node)
    ok = ok and len(rets) == 1 and norm(rets[0]) == norm(apps[0].func.value)
    ctx.check(bool(ok), R3, f.key + ":one-per-task", "exactly one ExpectationValues per task, in order, carrying that value", "not exactly one result per task, in task order, built from the value computed for that task", f)


def check_binding(ctx):
    repo = ctx.repo
    f = repo.func(f"{ES}:evaluate_estimation_circuits")
    ctx.analysed(f)
    tasks, maps = positional_params(f.node)[:2]
    check_hidden_state(ctx, R4, [f])
    mod = repo.module(ES)
    ctors = [c for c in body_walk(f.node) if isinstance(c, ast.Call) and dotted(c.func) == "EstimationTask"]
    if len(ctors) != 1:
        ctx.undecided(R4, f.key + ":construction", f"expected one EstimationTask(...) construction, found {len(ctors)}", f)
        return
    c = ctors[0]
    # enclosing iteration
    zipped = None
    for n in body_walk(f.node):
        gens = n.generators if isinstance(n, (ast.ListComp, ast.GeneratorExp)) else ([n] if isinstance(n, ast.For) else [])
        for g in gens:
            it, tg = (g.iter, g.target)
            if isinstance(it, ast.Call) and dotted(it.func) == "zip" and [norm(a) for a in it.args] == [tasks, maps] and isinstance(tg, ast.Tuple) and len(tg.elts) == 2 and any(x is c for x in ast.walk(n)):
                zipped = (norm(tg.elts[0]), norm(tg.elts[1]), g)
    if zipped is None:
        ctx.undecided(R4, f.key + ":pairing", "the construction is not inside an iteration over zip(tasks, maps)", f)
        return
    t, m, g = zipped
    ctx.check(not getattr(g, "ifs", []), R4, f.key + ":pairing", "every (task, map) pair is processed, in order", "some (task, map) pairs are filtered out", f)
    d = Defs(f.node)

    def expand(e):
        hops = 0
        while isinstance(e, ast.Name) and hops < 3:
            ds = [x for x in d.defs.get(e.id, []) if isinstance(x, ast.AST)]
            if len(ds) != 1:
                break
            e, hops = ds[0], hops + 1
        return e

    op = expand(arg_or_kw(c, 0, "operator"))
    ci = expand(arg_or_kw(c, 1, "circuit"))
    sh = expand(arg_or_kw(c, 2, "number_of_shots"))
    ctx.check(op is not None and norm(op) == f"{t}.operator", R4, f.key + ":operator", "operator copied from the same task", f"the new task's operator is {short(op) if op is not None else '<missing>'}, not the operator of the task being bound", f)
    ctx.check(sh is not None and norm(sh) == f"{t}.number_of_shots", R4, f.key + ":shots", "shot count copied from the same task", f"the new task's shot count is {short(sh) if sh is not None else '<missing>'}, not that of the task being bound", f)
    ok = ci is not None and norm(ci) == f"{t}.circuit.bind({m})"
    detail = f"the new task's circuit is {short(ci) if ci is not None else '<missing>'}"
    if ci is not None and any(isinstance(x, ast.Subscript) for x in ast.walk(ci)) or (isinstance(ci, ast.Call) and isinstance(ci.func, ast.Attribute) and ci.func.attr in ("get", "setdefault")):
        detail += ": it is taken from a lookup table, so a task can receive a circuit bound with another task's map"
    else:
        detail += f": it must be this task's circuit bound with the map zipped to this task, {t}.circuit.bind({m})"
    ctx.check(ok, R4, f.key + ":circuit", "circuit = this task's circuit bound with this task's map", detail, f)
    ec = repo.cls("api.estimation:EstimationTask")
    ctx.check(list(ec.field_names)[:3] == ["operator", "circuit", "number_of_shots"], R4, ec.key + ":fields", "EstimationTask fields are (operator, circuit, number_of_shots)", f"EstimationTask field order is {list(ec.field_names)}: positional constructions bind the wrong slots", ec.where)


def check_exact(ctx):
    repo = ctx.repo
    f = repo.func(f"{ES}:calculate_exact_expectation_values")
    ctx.analysed(f)
    runner, tasks = positional_params(f.node)[:2]
    d = Defs(f.node)
    comps = [(nm, v) for nm, vs in d.defs.items() for v in vs if isinstance(v, ast.ListComp) and norm(v.generators[0].iter) == tasks] + [(None, r) for r in returned_exprs(f.node) if isinstance(r, ast.ListComp) and norm(r.generators[0].iter) == tasks]
    ok = False
    detail = "no pass over the tasks"
    name = None
    for nm, v in comps:
        t = norm(v.generators[0].target)
        calls = [c for c in ast.walk(v.elt) if isinstance(c, ast.Call) and isinstance(c.func, ast.Attribute) and c.func.attr == "get_exact_expectation_values"]
        if len(calls) == 1:
            args = [norm(a) for a in calls[0].args] + [f"{k.arg}={norm(k.value)}" for k in calls[0].keywords]
            ok = norm(calls[0].func.value) == runner and (args == [f"{t}.circuit", f"{t}.operator"] or set(args) == {f"circuit={t}.circuit", f"operator={t}.operator"}) and not v.generators[0].ifs and _reorders(v.generators[0].iter) is None
            detail = f"{short(calls[0])}: the simulator takes (circuit, operator) of the same task"
            name = nm
    # exact values do not depend on shot counts: the helpers that classify tasks by `number_of_shots` (a task with 0 shots is "not to be
    # measured" and valued 0) have no business on the exact path
    shot_based = [c for c in body_walk(f.node) if isinstance(c, ast.Call) and (dotted(c.func) or "").split(".")[-1] in ("split_estimation_tasks_to_measure", "evaluate_non_measured_estimation_tasks")]
    ctx.check(not shot_based, R5, f.key + ":no-shot-based-split", "every task is valued by the simulator; nothing is classified by its shot count", f"calculate_exact_expectation_values routes tasks through {short(shot_based[0], 70) if shot_based else ''}: that split treats a task with number_of_shots == 0 as not-to-be-run and values it 0, but an exact expectation value does not depend on the shot count -- a non-constant operator with zero shots gets 0.0 instead of the state's quadratic form", f"{f.module.relpath}:{shot_based[0].lineno}" if shot_based else f)
    if name is None and detail == "no pass over the tasks":
        ctx.undecided(R5, f.key + ":per-task", "cannot find a comprehension over the tasks calling get_exact_expectation_values", f)
    else:
      ctx.check(ok, R5, f.key + ":per-task", "one exact value per task, in order, from (task.circuit, task.operator)", detail, f)
    sig = repo.func("api.wavefunction_simulator:BaseWavefunctionSimulator.get_exact_expectation_values")
    ps = positional_params(sig.node)
    ctx.check(ps[1:3] == ["circuit", "operator"], R5, sig.key + ":signature", "simulator signature is (circuit, operator)", f"the simulator's signature is {ps}: the estimation code passes (circuit, operator) positionally", sig)
    rets = returned_exprs(f.node)
    ok = len(rets) == 1 and isinstance(rets[0], ast.ListComp) and not rets[0].generators[0].ifs and (name is None or norm(rets[0].generators[0].iter) == name) and isinstance(rets[0].elt, ast.Call) and dotted(rets[0].elt.func) == "ExpectationValues" and norm(rets[0].generators[0].target) in norm(rets[0].elt)
    if not (len(rets) == 1 and isinstance(rets[0], ast.ListComp)):
        ctx.undecided(R5, f.key + ":wrap", "the result is not returned as one list comprehension wrapping the values", f)
    else:
      ctx.check(ok, R5, f.key + ":wrap", "each value wrapped in its own ExpectationValues, order kept", "the exact values are not wrapped one-to-one, in order", f)


def run(ctx):
    from . import c03 as _c03

    _c03.check_is_constant(ctx, "C15-D3 non-measured-values")
    from ..lints import check_caches

    check_caches(ctx, "C15-D8 caches", ['estimation._estimation', 'api.estimation'])
    check_split(ctx)
    check_averaging(ctx)
    check_non_measured(ctx)
    check_binding(ctx)
    check_exact(ctx)
    # "exactly coefficient times eigenvalue regardless of shot count": the values are averaged from sampled tuples, so both
    # sampling regimes of sample_from_wavefunction must number the qubits like the circuit does (rule shared with C04-D1)
    from ..report import Ctx as _Ctx
    from . import c04

    sub = _Ctx("C04", ctx.repo, ctx.tier)
    try:
        pk = c04.outcome_key_parity(sub)
        pb = c04.elementwise_parity(sub, f"{c04.UT}:bitstring_to_tuple")
        pc = c04.collection_map_parity(sub, f"{c04.UT}:convert_bitstrings_to_tuples", "bitstring_to_tuple", pb)
        sub.check((pk + pc) % 2 == 0, c04.R1, "path:amplitude-index->outcome-key->tuple", "get_outcome_probs and convert_bitstrings_to_tuples cancel", f"get_outcome_probs applies {pk} reversal(s) and the string->tuple conversion {pc}: odd in total", "")
        c04.check_sampling(sub, pk, pc)
    except c04.Und as e:
        sub.undecided(c04.R1, "path:amplitude-index->tuple", str(e))
    except c04.PathsDisagree as e:
        sub.violation(c04.R1, f"{e.fi.key}:exits-agree", str(e), e.fi)
    for o in sub.obligations:
        ctx._add(o.status, "C15-D6 sampled-values-independent-of-shot-count", o.construct, o.detail, o.where)
    ctx.functions_analysed |= sub.functions_analysed
    ctx.floor("C15-D6", 3)
    # "exact expectation values equal the state's quadratic form": the state is the simulator's get_wavefunction, whose
    # threading of the state through the native / non-native segments is decided once, by C01-D1
    from ..common import share_rule
    from . import c01

    def _threading(sub):
        base = sub.repo.func("api.wavefunction_simulator:BaseWavefunctionSimulator.get_wavefunction")
        c01.check_threading(sub, base, "initial_state", allow_fresh=True)
        c01.check_native_split(sub, base)

    share_rule(ctx, "C01", _threading, "C15-D7 simulated-state")
    # "... equal the state's quadratic form": decided once, by C09-D4
    from . import c09

    share_rule(ctx, "C09", c09.check_expectation, "C15-D9 quadratic-form")
    ctx.floor("C15-D9", 5)
    ctx.floor("C15-D7", 5)
    ctx.floor("C15-D1", 14)
    ctx.floor("C15-D2", 2)
    ctx.floor("C15-D3", 4)
    ctx.floor("C15-D4", 6)
    ctx.floor("C15-D5", 3)
