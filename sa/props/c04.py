"""C04 — every view of a simulated state agrees on which qubit is which."""
from __future__ import annotations

import ast
from typing import Dict, List, Optional, Tuple

from ..astutil import arg_or_kw, body_walk, const_str, const_value, dotted, kwarg, norm, positional_params, short, walk_local
from ..common import find_calls_named, returned_exprs
from ..flow import Defs, ElementOf
from ..linform import poly, p_atom
from ..orient import Orient, count_reversals, fold_direction, is_reverse_slice

EXPLANATION = (
    "Convention: position 0 of a bit sequence = qubit 0 = most significant bit of the amplitude index. Every "
    "bit-order-sensitive conversion gets an orientation parity (number of reversal constructs on the dataflow from "
    "its bit-sequence input to its output, mod 2), computed from its source; the parities are summed along the "
    "conversion paths the library actually takes (call edges are checked) and must be even: (D1) amplitude index -> "
    "get_outcome_probs key -> sampled tuple, on *both* sampling branches, with the candidate list and the "
    "probability vector drawn from the same un-reordered key/value listing; (D2) tuple <-> count string (get_counts, "
    "add_counts), count string -> parity column -> marked qubit, operator term qubits passed unchanged; (D3) amplitude "
    "index -> exact-distribution key (itertools.product order, ascending digits, un-reversed zip), string key -> "
    "tuple key; (D4) operator qubit index -> Kronecker position in the sparse operator (ascending sort, append-order "
    "list, left fold) and no operator reversal unless explicitly requested; (D5) gate embedding helpers: basis "
    "bitstring is MSB-first, the numeric and the symbolic dense-vector builders put state[0] on the most significant "
    "position (positional-weight analysis for index formulas), and both agree; (D6) the simulator wires these "
    "functions together without extra conversions. "
    "(D1x) every exit of an element-wise bit-sequence converter gives the bits the same orientation (order-preserving array plumbing counts as parity 0); strings freshly formatted from drawn amplitude indices are MSB-first, i.e. lack the key listing's reversal."
    ' Round 4: (D7) the embedding entry points (apply, lifted_matrix, the lifting twins) as decided by C01-D5; no matrix is widened by an identity factor on the left (qubit 0 is the leftmost Kronecker factor).'
    ' Round 5: (D8) exact expectation values are expectation(get_sparse_operator(op, width), state) on every exit (C09-D4); the bit-order tracer follows map(tuple, ...).'
    ' Round 6: bits decoded from a drawn amplitude index -- tuple((i >> E(q)) & 1 for q in range(n)) -- carry a reversal iff E increases with q (D1); (D9) stale loop variables.'
    ' Round 7: a top-level early exit with its own draw is traced as one more sampling path (D1); (D10) query methods of Wavefunction remember nothing on the receiver.'
)
RULE_TEXT = "instances = conversion functions (parity each), conversion paths (sum of parities), call-edge and alignment obligations; distinct by (rule, function/path)"
ASSUMPTIONS = [
    "format(i, '0nb'), bin(i), itertools.product, str.join, reshape(-1, n) and numpy/scipy kron have their documented ordering",
    "declined: numerical equality of exact and sampled expectation values, positivity of sampled outcomes, tuple length = register width (runtime quantities)",
    "the MSB = qubit 0 convention of the gate embedding itself is C01-D6",
]

R1 = "C04-D1 amplitude-to-sample"
R2 = "C04-D2 counts-and-parities"
R3 = "C04-D3 exact-distribution"
R4 = "C04-D4 operator-matrix"
R5 = "C04-D5 embedding-helpers"
R6 = "C04-D6 simulator-wiring"

WF = "wavefunction"
UT = "utils"
MS = "measurements.measurements"
PA = "measurements.parities"
DI = "distributions._measurement_outcome_distribution"
SP = "operators._openfermion_utils.sparse_tools"
OU = "operators._utils"
UN = "circuits._unitary_tools"
SIM = "api.wavefunction_simulator"


class Und(Exception):
    pass


# ----------------------------------------------------------------------------- element functions
def elementwise_parity(ctx, key: str) -> int:
    """Bit-level parity of a function mapping one bit sequence to another."""
    fi = ctx.repo.func(key)
    ctx.analysed(fi)
    p = positional_params(fi.node)[0]
    rets = returned_exprs(fi.node)
    if len(rets) != 1:
        raise Und(f"{fi.qualname}: expected a single return")
    o = Orient(fi.node, lambda e: isinstance(e, ast.Name) and e.id == p)
    e = rets[0]
    # "".join(X) is order preserving
    while isinstance(e, ast.Call) and isinstance(e.func, ast.Attribute) and e.func.attr == "join" and isinstance(e.func.value, ast.Constant) and len(e.args) == 1:
        e = e.args[0]
    par = o.parity(e)
    if par is None:
        raise Und(f"{fi.qualname}: cannot follow the bit order from `{p}` to {short(rets[0])}")
    return par


def collection_map_parity(ctx, key: str, elem_name: str, elem_parity: int) -> int:
    """``[elem(x) for x in xs]`` / ``list(map(elem, xs))``: bit parity = the element function's; the
    collection order must be preserved."""
    fi = ctx.repo.func(key)
    ctx.analysed(fi)
    p = positional_params(fi.node)[0]
    rets = returned_exprs(fi.node)
    if len(rets) != 1:
        # several exits (e.g. a vectorised fast path next to the element-wise one): every one of them must give the
        # bits the same orientation, otherwise the result depends on which path the input's type happens to select
        pars = []
        for r in rets:
            pars.append((r, _one_return_parity(fi, p, r, elem_name, elem_parity)))
        known = [(r, q) for r, q in pars if q is not None]
        if len(known) != len(pars):
            bad = next(r for r, q in pars if q is None)
            raise Und(f"{fi.qualname}: cannot follow the bit order from `{p}` to the exit {short(bad)}")
        if len({q for _, q in known}) > 1:
            raise PathsDisagree(fi, [(short(r), q) for r, q in known])
        return known[0][1]
    d = Defs(fi.node)
    e = rets[0]
    if isinstance(e, ast.Name) and len(d.defs.get(e.id, [])) == 1:
        e = d.defs[e.id][0]
    while isinstance(e, ast.Call) and dotted(e.func) in ("list", "tuple") and len(e.args) == 1:
        e = e.args[0]
    if isinstance(e, ast.ListComp) and len(e.generators) == 1 and not e.generators[0].ifs and norm(e.generators[0].iter) == p:
        t = norm(e.generators[0].target)
        el = e.elt
        flips = 0
        while True:
            if is_reverse_slice(el):
                flips ^= 1
                el = el.value
                continue
            if isinstance(el, ast.Call) and dotted(el.func) == elem_name and len(el.args) == 1:
                flips ^= elem_parity
                el = el.args[0]
                continue
            break
        if norm(el) == t:
            return flips
    if isinstance(e, ast.Call) and dotted(e.func) == "map" and len(e.args) == 2 and dotted(e.args[0]) == elem_name and norm(e.args[1]) == p:
        return elem_parity
    raise Und(f"{fi.qualname}: {short(rets[0])} is not an order-preserving element-wise map of {elem_name} over `{p}`")


class PathsDisagree(Exception):
    def __init__(self, fi, paths):
        super().__init__(f"{fi.qualname}: exits disagree on the bit order: {paths}")
        self.fi, self.paths = fi, paths


ORDER_PRESERVING_ARRAY_OPS = {"view", "reshape", "astype", "tolist", "ascontiguousarray", "asarray", "array", "ravel", "flatten", "copy", "list", "tuple", "int", "split", "char", "frombuffer", "encode"}


def _one_return_parity(fi, p: str, ret: ast.AST, elem_name: str, elem_parity: int) -> Optional[int]:
    """bit-order parity of one returned expression of an element-wise conversion of `p`: through the element function
    (its parity), through explicit reversals, or through order-preserving array plumbing (parity 0)"""
    d = Defs(fi.node)
    selfref: set = set()

    def go(e: ast.AST, depth: int = 0) -> Optional[int]:
        if depth > 25:
            return None
        if isinstance(e, ast.Name):
            if e.id == p:
                return 0
            if e.id in selfref:
                return 0
            ds = [x for x in d.defs.get(e.id, []) if isinstance(x, ast.AST)]
            if len(ds) == 1:
                return go(ds[0], depth + 1)
            # straight-line refinement `x = f(p); x = g(x)`: parity of the base definition plus that of every update
            base = [x for x in ds if not any(isinstance(n, ast.Name) and n.id == e.id for n in ast.walk(x))]
            upd = [x for x in ds if x not in base]
            if len(base) == 1 and upd:
                q = go(base[0], depth + 1)
                selfref.add(e.id)
                try:
                    for u in upd:
                        qu = go(u, depth + 1)
                        if q is None or qu is None:
                            return None
                        q ^= qu
                finally:
                    selfref.discard(e.id)
                return q
            ps = {go(x, depth + 1) for x in ds}
            return ps.pop() if len(ps) == 1 else None
        if is_reverse_slice(e):
            q = go(e.value, depth + 1)
            return None if q is None else q ^ 1
        if isinstance(e, ast.Subscript):
            return go(e.value, depth + 1)
        if isinstance(e, (ast.ListComp, ast.GeneratorExp)) and len(e.generators) == 1:
            g = e.generators[0]
            src = go(g.iter, depth + 1)
            if src is None:
                return None
            # the element expression must itself be an order-preserving / counted function of the loop variable
            t = norm(g.target)
            el = e.elt
            f = 0
            while True:
                if is_reverse_slice(el):
                    f ^= 1
                    el = el.value
                elif isinstance(el, ast.Call) and dotted(el.func) == elem_name and len(el.args) == 1:
                    f ^= elem_parity
                    el = el.args[0]
                elif isinstance(el, ast.Call) and (dotted(el.func) or "").split(".")[-1] == "reversed" and len(el.args) == 1:
                    f ^= 1
                    el = el.args[0]
                elif isinstance(el, ast.Call) and (dotted(el.func) or "").split(".")[-1] in ORDER_PRESERVING_ARRAY_OPS and len(el.args) == 1:
                    el = el.args[0]
                elif isinstance(el, (ast.ListComp, ast.GeneratorExp)) and len(el.generators) == 1 and norm(el.generators[0].iter) == t:
                    el = ast.Name(id=t, ctx=ast.Load())
                else:
                    break
            if norm(el) != t:
                return None
            return src ^ f
        if isinstance(e, ast.Call):
            name = e.func.attr if isinstance(e.func, ast.Attribute) else (e.func.id if isinstance(e.func, ast.Name) else "")
            if name == "map" and len(e.args) == 2 and dotted(e.args[0]) == elem_name:
                q = go(e.args[1], depth + 1)
                return None if q is None else q ^ elem_parity
            if name == "map" and len(e.args) == 2 and dotted(e.args[0]) in ("tuple", "list", "int", "str"):
                return go(e.args[1], depth + 1)  # a container / scalar conversion applied to every element keeps its bit order
            if name in ("reversed", "flip", "fliplr") and e.args:
                q = go(e.args[0], depth + 1)
                return None if q is None else q ^ 1
            if name in ORDER_PRESERVING_ARRAY_OPS:
                base = e.func.value if isinstance(e.func, ast.Attribute) and not (dotted(e.func) or "").startswith(("np.", "numpy.")) else (e.args[0] if e.args else None)
                return go(base, depth + 1) if base is not None else None
            return None
        return None

    return go(ret)


# ----------------------------------------------------------------------------- D1
def outcome_key_parity(ctx) -> int:
    fi = ctx.repo.func(f"{WF}:Wavefunction.get_outcome_probs")
    ctx.analysed(fi)
    d = Defs(fi.node)
    rets = returned_exprs(fi.node)
    ok_zip = False
    keys_expr = probs_expr = None
    if len(rets) == 1 and isinstance(rets[0], ast.Call) and dotted(rets[0].func) == "dict" and len(rets[0].args) == 1:
        z = rets[0].args[0]
        if isinstance(z, ast.Call) and dotted(z.func) == "zip" and len(z.args) == 2:
            keys_expr, probs_expr = z.args
            ok_zip = True
    elif len(rets) == 1 and isinstance(rets[0], ast.DictComp) and len(rets[0].generators) == 1:
        g = rets[0].generators[0]
        if isinstance(g.iter, ast.Call) and dotted(g.iter.func) == "zip" and len(g.iter.args) == 2 and isinstance(g.target, ast.Tuple) and [norm(x) for x in g.target.elts] == [norm(rets[0].key), norm(rets[0].value)]:
            keys_expr, probs_expr = g.iter.args
            ok_zip = True
        elif isinstance(g.iter, ast.Call) and dotted(g.iter.func) == "enumerate" and len(g.iter.args) == 1 and not g.iter.keywords and not g.ifs and isinstance(g.target, ast.Tuple) and len(g.target.elts) == 2 and norm(g.target.elts[1]) == norm(rets[0].value) and isinstance(g.target.elts[0], ast.Name):
            # {key(i): p for i, p in enumerate(probabilities)}: the keys are key(i) for i = 0, 1, ... in the order of the probabilities
            i_name = g.target.elts[0].id
            probs_expr = g.iter.args[0]
            keys_expr = ast.ListComp(elt=rets[0].key, generators=[ast.comprehension(target=ast.Name(id=i_name, ctx=ast.Store()), iter=ast.parse("range(len(self))", mode="eval").body, ifs=[], is_async=0)])
            ast.copy_location(keys_expr, rets[0])
            ast.fix_missing_locations(keys_expr)
            ok_zip = True
    if not ok_zip:
        raise Und("get_outcome_probs does not return dict(zip(keys, probabilities))")

    def expand(e):
        hops = 0
        while isinstance(e, ast.Name) and hops < 4:
            ds = [x for x in d.defs.get(e.id, []) if isinstance(x, ast.AST)]
            if len(ds) != 1:
                break
            e, hops = ds[0], hops + 1
        return e

    ke, pe = expand(keys_expr), expand(probs_expr)
    # probabilities in amplitude order
    ok_p = norm(pe) in ("self.get_probabilities()", "np.abs(self.amplitudes) ** 2") and count_reversals(pe) == 0
    ctx.check(ok_p, R1, fi.key + ":probabilities", "values are the probabilities in amplitude-index order", f"values {short(pe)} are not the probabilities in amplitude order", fi)
    if not (isinstance(ke, ast.ListComp) and len(ke.generators) == 1):
        raise Und(f"keys {short(ke)} are not a comprehension over the amplitude indices")
    g = ke.generators[0]
    ok_range = norm(g.iter) in ("range(len(self))", "range(2 ** self.n_qubits)", "range(len(self.amplitudes))", "range(self.amplitudes.shape[0])") and not g.ifs
    ctx.check(ok_range, R1, fi.key + ":index-order", "keys enumerate the amplitude indices in ascending order", f"keys are generated over {short(g.iter)}: not the ascending amplitude indices the probabilities are listed in", fi)
    idx = norm(g.target)
    el = ke.elt
    flips = 0
    while True:
        if is_reverse_slice(el):
            flips ^= 1
            el = el.value
            continue
        if isinstance(el, ast.Call) and isinstance(el.func, ast.Attribute) and el.func.attr == "join" and len(el.args) == 1 and isinstance(el.args[0], ast.Call) and dotted(el.args[0].func) == "reversed":
            flips ^= 1
            el = el.args[0].args[0]
            continue
        break
    # base must be the zero-padded MSB-first binary text of the index
    import copy as _copy

    class _Loc(ast.NodeTransformer):  # a local that only holds `self.n_qubits`
        def visit_Name(self, n):
            sd = d.single_def(n.id) if isinstance(n.ctx, ast.Load) else None
            return _copy.deepcopy(sd) if isinstance(sd, ast.AST) and norm(sd) == "self.n_qubits" else n

    el = _Loc().visit(_copy.deepcopy(el))
    base_ok = False
    if isinstance(el, ast.Call) and dotted(el.func) == "format" and len(el.args) == 2 and norm(el.args[0]) == idx:
        spec = el.args[1]
        txt = norm(spec)
        base_ok = txt in ("'0' + str(self.n_qubits) + 'b'", "f'0{self.n_qubits}b'")
    elif isinstance(el, ast.Call) and dotted(el.func) in ("np.binary_repr", "numpy.binary_repr") and norm(el.args[0]) == idx and norm(arg_or_kw(el, 1, "width")) == "self.n_qubits":
        base_ok = True
    elif isinstance(el, ast.JoinedStr):
        txt = norm(el)
        base_ok = txt == f"f'{{{idx}:0{{self.n_qubits}}b}}'"
    if not base_ok:
        raise Und(f"key text {short(el)} is not the zero-padded binary representation of the amplitude index")
    return flips


class Level2:
    """(collection-order parity, bit parity) of an expression relative to the key listing
    ``outcome_strings`` inside sample_from_wavefunction."""

    def __init__(self, func: ast.AST, source: str, conv: Dict[str, int], region: List[ast.stmt]):
        self.func = func
        self.source = source
        self.conv = conv  # callee name -> bit parity of an element-wise conversion
        self.region = region  # statements of the branch being analysed (searched first for definitions)
        self.pre = [s for s in func.body]

    def defs_of(self, name: str) -> List[ast.stmt]:
        out = []
        for s in self.region:
            for n in ast.walk(s):
                if isinstance(n, (ast.Assign, ast.AugAssign, ast.AnnAssign)):
                    tgts = n.targets if isinstance(n, ast.Assign) else [n.target]
                    if any(isinstance(t, ast.Name) and t.id == name for t in tgts):
                        out.append(n)
        return out

    def ev(self, e: ast.AST, depth: int = 0) -> Tuple[int, int]:
        if depth > 12:
            raise Und("expression too deep")
        if isinstance(e, ast.Name):
            if e.id == self.source:
                return (0, 0)
            ds = self.defs_of(e.id)
            if not ds:
                raise Und(f"`{e.id}` has no definition inside the sampling branch")
            res = None
            for s in ds:
                v = s.value
                if v is None:
                    continue
                if isinstance(v, (ast.List, ast.Tuple)) and (not v.elts or all(isinstance(x, ast.Constant) for x in v.elts)):
                    continue  # [] initialisation or the [0] padding element
                r = self.ev(v, depth + 1)
                if res is not None and r != res:
                    raise Und(f"`{e.id}` is built from parts with different orientations")
                res = r
            if res is None:
                raise Und(f"`{e.id}` is never given an outcome list")
            return res
        if is_reverse_slice(e):
            c, b = self.ev(e.value, depth + 1)
            return (c ^ 1, b)
        if isinstance(e, (ast.List, ast.Tuple)) and e.elts and len(e.elts) <= 2:
            # a literal list of texts freshly formatted from a drawn amplitude index (MSB first: no reversal of the listing's)
            res = None
            for el in e.elts:
                x = el
                if isinstance(x, ast.Name):
                    ds = [d_ for d_ in self.defs_of(x.id) if d_.value is not None]
                    if len(ds) != 1:
                        raise Und(f"`{x.id}` is not a single freshly formatted text")
                    x = ds[0].value
                fl = 0
                while is_reverse_slice(x):
                    fl ^= 1
                    x = x.value
                fresh = (isinstance(x, ast.Call) and dotted(x.func) == "format" and len(x.args) == 2 and "b" in norm(x.args[1])) or (isinstance(x, ast.Call) and (dotted(x.func) or "").split(".")[-1] == "binary_repr") or (isinstance(x, ast.JoinedStr) and any(isinstance(v, ast.FormattedValue) and v.format_spec is not None and "b" in norm(v.format_spec) for v in x.values))
                if not fresh:
                    raise Und(f"unrecognised list element {short(el, 50)}")
                r = (0, getattr(self, "pi_key", 0) ^ fl)
                if res is not None and r != res:
                    raise Und("list elements with different orientations")
                res = r
            return res
        if isinstance(e, ast.Call):
            d = dotted(e.func) or ""
            base = e.func.attr if isinstance(e.func, ast.Attribute) else d.split(".")[-1]
            if base == "reversed" and len(e.args) == 1:
                c, b = self.ev(e.args[0], depth + 1)
                return (c ^ 1, b)
            if base in self.conv and len(e.args) == 1:
                c, b = self.ev(e.args[0], depth + 1)
                return (c, b ^ self.conv[base])
            if base in ("list", "tuple", "array", "asarray") and e.args:
                return self.ev(e.args[0], depth + 1)
            if base == "tolist" and isinstance(e.func, ast.Attribute):
                return self.ev(e.func.value, depth + 1)
            if base == "choice":
                a = arg_or_kw(e, 0, "a")
                if a is None:
                    raise Und("rng.choice without a candidate list")
                return self.ev(a, depth + 1)
            if base in ("len",) and len(e.args) == 1:
                # rng.choice(len(xs)) draws positions 0..N-1; with p = the listing's probabilities these are positions of
                # the listing (that both regimes use the same probability vector is a separate obligation)
                try:
                    return self.ev(e.args[0], depth + 1)
                except Und:
                    return (0, 0)
            if base in ("range", "arange") and len(e.args) == 1:
                return self.ev(e.args[0], depth + 1)
            if base == "sorted":
                raise Und("candidates are re-sorted")
            raise Und(f"unrecognised call {short(e, 60)} on the way from the outcome keys to the samples")
        if isinstance(e, (ast.ListComp, ast.GeneratorExp)) and len(e.generators) == 1 and not e.generators[0].ifs:
            t = norm(e.generators[0].target)
            # text freshly formatted from a drawn amplitude index: MSB-first, i.e. *without* the reversal(s) the key
            # listing of get_outcome_probs carries
            el0 = e.elt
            fl0 = 0
            while is_reverse_slice(el0):
                fl0 ^= 1
                el0 = el0.value
            fresh = False
            if isinstance(el0, ast.Call) and dotted(el0.func) == "format" and len(el0.args) == 2 and norm(el0.args[0]) == t and "b" in norm(el0.args[1]):
                fresh = True
            if isinstance(el0, ast.Call) and (dotted(el0.func) or "").split(".")[-1] == "binary_repr" and el0.args and norm(el0.args[0]) == t:
                fresh = True
            if isinstance(el0, ast.JoinedStr) and any(isinstance(v, ast.FormattedValue) and norm(v.value) == t and v.format_spec is not None and "b" in norm(v.format_spec) for v in el0.values):
                fresh = True
            if fresh:
                self.ev(e.generators[0].iter, depth + 1)  # the indices must be drawn over the listing (raises otherwise)
                return (0, getattr(self, "pi_key", 0) ^ fl0)
            # bits freshly extracted from a drawn amplitude index: tuple((index >> E(q)) & 1 for q in range(n)). Qubit 0 is the most
            # significant bit of an amplitude index, so position q must read bit n-1-q (E decreasing in q); E increasing in q lists
            # the least significant bit first, i.e. carries one reversal
            dec = _bit_decode_direction(el0, t)
            if dec is not None:
                self.ev(e.generators[0].iter, depth + 1)
                return (0, getattr(self, "pi_key", 0) ^ fl0 ^ dec)
            indexed = any(isinstance(x, ast.Subscript) and not isinstance(x.slice, ast.Slice) and norm(x.slice) == t for x in ast.walk(e.elt))
            c, b = (0, 0) if indexed else self.ev(e.generators[0].iter, depth + 1)
            el = e.elt
            fl = 0
            while True:
                if is_reverse_slice(el):
                    fl ^= 1
                    el = el.value
                    continue
                if isinstance(el, ast.Call) and (dotted(el.func) or "").split(".")[-1] in self.conv and len(el.args) == 1:
                    fl ^= self.conv[(dotted(el.func) or "").split(".")[-1]]
                    el = el.args[0]
                    continue
                if isinstance(el, ast.Call) and dotted(el.func) == "tuple" and len(el.args) == 1:
                    inner = el.args[0]
                    if isinstance(inner, ast.Call) and dotted(inner.func) == "map" and len(inner.args) == 2 and dotted(inner.args[0]) == "int":
                        el = inner.args[1]
                        continue
                    if isinstance(inner, ast.GeneratorExp) and len(inner.generators) == 1 and isinstance(inner.elt, ast.Call) and dotted(inner.elt.func) == "int" and norm(inner.elt.args[0]) == norm(inner.generators[0].target):
                        el = inner.generators[0].iter
                        continue
                if isinstance(el, ast.Subscript) and not isinstance(el.slice, ast.Slice) and norm(el.slice) == t:
                    # outcome_strings[index] for index in <drawn indices>
                    base_c, base_b = self.ev(el.value, depth + 1)
                    return (0, base_b ^ fl)
                break
            if norm(el) == t:
                return (c, b ^ fl)
            raise Und(f"unrecognised element {short(e.elt, 60)}")
        raise Und(f"unrecognised expression {short(e, 60)}")


def _bit_decode_direction(el: ast.AST, index_name: str) -> Optional[int]:
    """0 for tuple((i >> (n-1-q)) & 1 for q in range(n)) (most significant bit first), 1 for tuple((i >> q) & 1 for q in range(n)),
    None when `el` is not a bit-by-bit decoding of `index_name`. Also `(i // 2**E) % 2`."""
    if isinstance(el, ast.Call) and dotted(el.func) in ("tuple", "list") and len(el.args) == 1:
        el = el.args[0]
    if not isinstance(el, (ast.GeneratorExp, ast.ListComp)) or len(el.generators) != 1 or el.generators[0].ifs:
        return None
    g = el.generators[0]
    if not (isinstance(g.iter, ast.Call) and dotted(g.iter.func) in ("range", "np.arange") and isinstance(g.target, ast.Name)):
        return None
    q = g.target.id
    rev_range = len(g.iter.args) == 3 and norm(g.iter.args[2]) in ("-1", "(-1)")
    x = el.elt
    if isinstance(x, ast.Call) and dotted(x.func) == "int" and len(x.args) == 1:
        x = x.args[0]
    E = None
    if isinstance(x, ast.BinOp) and isinstance(x.op, ast.BitAnd) and norm(x.right) == "1" and isinstance(x.left, ast.BinOp) and isinstance(x.left.op, ast.RShift) and norm(x.left.left) == index_name:
        E = x.left.right
    elif isinstance(x, ast.BinOp) and isinstance(x.op, ast.Mod) and norm(x.right) == "2" and isinstance(x.left, ast.BinOp) and isinstance(x.left.op, ast.FloorDiv) and norm(x.left.left) == index_name and isinstance(x.left.right, ast.BinOp) and isinstance(x.left.right.op, ast.Pow) and norm(x.left.right.left) == "2":
        E = x.left.right.right
    if E is None:
        return None
    import copy as _c

    class _Op(ast.NodeTransformer):
        def visit_Call(self, node):
            return ast.Name(id="CALL_" + "".join(ch for ch in norm(node) if ch.isalnum()), ctx=ast.Load())

        def visit_Attribute(self, node):
            return ast.Name(id="ATTR_" + "".join(ch for ch in norm(node) if ch.isalnum()), ctx=ast.Load())

    pe = poly(_Op().visit(_c.deepcopy(E)))
    if pe is None:
        return None
    co = pe.get(((q, 1),))
    if co not in (1, -1):
        return None
    return (1 if co == 1 else 0) ^ (1 if rev_range else 0)


def check_sampling(ctx, pi_key: int, pi_b2t: int):
    repo = ctx.repo
    fi = repo.func(f"{WF}:sample_from_wavefunction")
    ctx.analysed(fi)
    # the listing: outcome_strings, probabilities = zip(*wavefunction.get_outcome_probs().items())
    listing = None
    for n in body_walk(fi.node):
        if isinstance(n, ast.Assign) and isinstance(n.targets[0], ast.Tuple) and len(n.targets[0].elts) == 2 and isinstance(n.value, ast.Call) and dotted(n.value.func) == "zip" and len(n.value.args) == 1 and isinstance(n.value.args[0], ast.Starred):
            inner = n.value.args[0].value
            if isinstance(inner, ast.Call) and isinstance(inner.func, ast.Attribute) and inner.func.attr == "items" and isinstance(inner.func.value, ast.Call) and isinstance(inner.func.value.func, ast.Attribute) and inner.func.value.func.attr == "get_outcome_probs":
                listing = n
    if listing is None:
        ctx.undecided(R1, fi.key + ":listing", "cannot find `keys, probabilities = zip(*wavefunction.get_outcome_probs().items())`", fi)
        return
    keys_name, probs_raw = (norm(x) for x in listing.targets[0].elts)
    d = Defs(fi.node)
    branches = [n for n in fi.node.body if isinstance(n, ast.If) and any(isinstance(c, ast.Call) and (dotted(c.func) or "").endswith("choice") for c in ast.walk(n))]
    early_ifs = [n for n in branches if not n.orelse and any(isinstance(x, ast.Return) for y in n.body for x in ast.walk(y))]
    branches = [n for n in branches if n not in early_ifs]
    if len(branches) != 1 or not branches[0].orelse:
        # single regime is fine too: analyse the whole body as one branch
        regions = [("single", list(fi.node.body))]
    else:
        regions = [("many-samples", branches[0].body), ("few-samples", branches[0].orelse)]
    conv = {"convert_bitstrings_to_tuples": pi_b2t, "bitstring_to_tuple": pi_b2t}
    results = {}
    # early exits: a top-level `if <case>: ... return <samples>` ahead of the two regimes is one more sampling path with its own conversions
    all_rets = returned_exprs(fi.node)
    early_rets = set()
    for st in fi.node.body:
        if st in early_ifs:
            inside = [r for r in all_rets if any(x is r for y in st.body for x in ast.walk(y))]
            if len(inside) == 1 and any(isinstance(c, ast.Call) and (dotted(c.func) or "").endswith("choice") for y in st.body for c in ast.walk(y)):
                early_rets.add(id(inside[0]))
                lv = Level2(fi.node, keys_name, conv, st.body)
                lv.pi_key = pi_key
                lab = "early-exit:" + norm(st.test)[:40]
                try:
                    c, b = lv.ev(inside[0])
                    total = (pi_key + b) % 2
                    ctx.check(total == 0, R1, fi.key + f":{lab}:bit-order", "the early exit hands out tuples whose position q is qubit q", f"the early exit under `{short(st.test)}` turns a drawn amplitude index into a tuple through {b} reversal(s) while the key listing of get_outcome_probs applies {pi_key}: position q of the sampled tuple is qubit n-1-q on that path only", f"{fi.module.relpath}:{inside[0].lineno}")
                except Und as e:
                    ctx.undecided(R1, fi.key + f":{lab}", f"cannot follow the drawn index to the returned samples on the early exit: {e}", fi)
    for label, region in regions:
        rets = [r for r in all_rets if id(r) not in early_rets]
        if len(rets) != 1:
            ctx.undecided(R1, fi.key + f":{label}", "expected a single return", fi)
            return
        lv = Level2(fi.node, keys_name, conv, region)
        lv.pi_key = pi_key
        try:
            c, b = lv.ev(rets[0])
        except Und as e:
            ctx.undecided(R1, fi.key + f":{label}", f"cannot follow the outcome keys to the returned samples on the {label} branch: {e}", fi)
            continue
        results[label] = b
        total = (pi_key + b) % 2
        ctx.check(total == 0, R1, fi.key + f":{label}:bit-order", f"amplitude index -> key ({pi_key} flip) -> sample tuple ({b} flip): even, position q of a sampled tuple is qubit q", f"on the {label} branch the outcome keys reach the returned tuples through {b} reversal(s) while get_outcome_probs applies {pi_key}: position q of a sampled tuple is qubit n-1-q", fi)
        # candidates and probabilities must be in the same order
        choices = [x for s in region for x in ast.walk(s) if isinstance(x, ast.Call) and (dotted(x.func) or "").endswith("choice")]
        for ch in choices:
            a, p = arg_or_kw(ch, 0, "a"), kwarg(ch, "p") or arg_or_kw(ch, 3, "p")
            try:
                ca, _ = lv.ev(a)
            except Und as e:
                ctx.undecided(R1, fi.key + f":{label}:alignment", str(e), fi)
                continue
            patoms = d.atoms(p) if p is not None else set()
            p_ok = p is not None and (probs_raw in {x.id for x in ast.walk(p) if isinstance(x, ast.Name)} or any(probs_raw in {y.id for y in ast.walk(v) if isinstance(y, ast.Name)} for x in ast.walk(p) if isinstance(x, ast.Name) for v in d.defs.get(x.id, []) if isinstance(v, ast.AST))) and count_reversals(p) == 0
            ctx.check(ca == 0 and p_ok, R1, fi.key + f":{label}:alignment", "candidate list and probability vector come from the same key/value listing, neither re-ordered", f"rng.choice draws from {short(a)} with p={short(p) if p is not None else '<uniform>'}: the candidates and their probabilities are not listed in the same order" + (" (no probability vector)" if p is None else ""), f"{fi.module.relpath}:{ch.lineno}")
    if len(results) == 2:
        vals = list(results.values())
        ctx.check(vals[0] == vals[1], R1, fi.key + ":branches-agree", "both sampling regimes apply the same bit-order conversions", f"the two sampling regimes convert keys differently ({results}): few-sample and many-sample requests disagree on the qubit order", fi)
    # the probability list is derived element-by-element (no re-ordering) from the listing
    pdefs = [v for name, vs in d.defs.items() for v in vs if isinstance(v, ast.ListComp) and probs_raw in norm(v.generators[0].iter)]
    for v in pdefs:
        ctx.check(count_reversals(v) == 0 and not v.generators[0].ifs, R1, fi.key + ":probabilities", "probabilities are taken one-to-one from the listing", f"the probability list {short(v)} filters or re-orders the listing", fi)


# ----------------------------------------------------------------------------- D2
def check_counts(ctx, pi_t2b: int):
    repo = ctx.repo
    try:
        pi_conv = collection_map_parity(ctx, f"{UT}:convert_tuples_to_bitstrings", "tuple_to_bitstring", pi_t2b)
    except Und as e:
        ctx.undecided(R2, f"{UT}:convert_tuples_to_bitstrings", str(e))
        return
    ctx.check(pi_t2b == 0, R2, f"{UT}:tuple_to_bitstring", "character q of a count string is entry q of the tuple", "tuple_to_bitstring reverses the tuple: character q of a count string is qubit n-1-q, but add_counts/from_counts and the parity columns read character q as qubit q", repo.func(f"{UT}:tuple_to_bitstring"))
    gc = repo.func(f"{MS}:Measurements.get_counts")
    ctx.analysed(gc)
    calls = find_calls_named(gc.node, ["convert_tuples_to_bitstrings"])
    ok = len(calls) == 1 and norm(calls[0].args[0]) == "self.bitstrings" and count_reversals(gc.node) == 0 and pi_conv == 0
    ctx.check(ok, R2, gc.key, "count strings are the stored tuples, character by character", "get_counts does not turn the stored tuples into strings position by position", gc)
    ac = repo.func(f"{MS}:Measurements.add_counts")
    ctx.analysed(ac)
    p = positional_params(ac.node)[1]
    o = None
    outer = [n for n in body_walk(ac.node) if isinstance(n, ast.For) and (norm(n.iter) in (f"{p}.keys()", p, f"{p}.items()"))]
    par = None
    if len(outer) == 1:
        key_t = outer[0].target.elts[0] if isinstance(outer[0].target, ast.Tuple) else outer[0].target
        key_name = norm(key_t)
        orient = Orient(ac.node, lambda e: isinstance(e, ast.Name) and e.id == key_name)
        stores = [n for n in ast.walk(outer[0]) if isinstance(n, ast.AugAssign) and norm(n.target) == "self.bitstrings"] + [n for n in ast.walk(outer[0]) if isinstance(n, ast.Call) and norm(n.func) in ("self.bitstrings.extend", "self.bitstrings.append")]
        if stores:
            v = stores[0].value if isinstance(stores[0], ast.AugAssign) else stores[0].args[0]
            # [tuple(measurement)] * counts[key]
            tup = [c for c in ast.walk(v) if isinstance(c, ast.Call) and dotted(c.func) == "tuple" and len(c.args) == 1]
            if tup:
                inner = tup[0].args[0]
                if isinstance(inner, ast.Call) and dotted(inner.func) == "map" and len(inner.args) == 2:
                    inner = inner.args[1]
                par = orient.parity(inner)
    if par is None:
        ctx.undecided(R2, ac.key, "cannot follow a count string to the stored tuple", ac)
    else:
        ctx.check(par == 0, R2, ac.key, "entry q of the stored tuple is character q of the count string", "add_counts stores the characters of a count string in reversed order", ac)
    # string -> vector -> column
    cv = repo.func(f"{MS}:_convert_bitstrings_to_vector")
    ctx.analysed(cv)
    resh = [c for c in body_walk(cv.node) if isinstance(c, ast.Call) and isinstance(c.func, ast.Attribute) and c.func.attr == "reshape"]
    ok = count_reversals(cv.node) == 0 and len(resh) == 1 and len(resh[0].args) == 2 and norm(resh[0].args[0]) == "-1" and not any(isinstance(n, ast.Attribute) and n.attr == "T" for n in body_walk(cv.node)) and kwarg(resh[0], "order") is None
    ctx.check(ok, R2, cv.key, "column q of the bit matrix is character q of each count string (row-major reshape(-1, n))", "the bit matrix is not a plain row-major reshape of the concatenated strings: its columns no longer correspond to string positions", cv)
    cp = repo.func(f"{PA}:check_parity_of_vector")
    ctx.analysed(cp)
    ps = positional_params(cp.node)
    subs = [n for n in body_walk(cp.node) if isinstance(n, ast.Subscript) and norm(n.value) == ps[0] and isinstance(n.slice, ast.Tuple) and len(n.slice.elts) == 2]
    ok = False
    if len(subs) == 1:
        rows, cols = subs[0].slice.elts
        colnames = {x.id for x in ast.walk(cols) if isinstance(x, ast.Name)}
        arithmetic = any(isinstance(x, (ast.BinOp, ast.UnaryOp)) for x in ast.walk(cols))
        ok = isinstance(rows, ast.Slice) and rows.lower is None and rows.upper is None and rows.step is None and ps[1] in colnames and not arithmetic and count_reversals(cols) == 0
    ctx.check(ok, R2, cp.key, "the columns selected are exactly the marked qubit indices", "check_parity_of_vector does not select column q for marked qubit q", cp)
    fr = repo.func(f"{MS}:get_expectation_value_from_frequencies")
    ctx.analysed(fr)
    fp = positional_params(fr.node)
    cpc = find_calls_named(fr.node, ["check_parity_of_vector"])
    ok = len(cpc) == 1 and len(cpc[0].args) == 2 and norm(cpc[0].args[1]) == fp[0] and norm(cpc[0].args[0]) in (f"_convert_bitstrings_to_vector({fp[1]}.keys())", f"_convert_bitstrings_to_vector({fp[1]})", f"_convert_bitstrings_to_vector(list({fp[1]}.keys()))")
    vals = [c for c in body_walk(fr.node) if isinstance(c, ast.Call) and norm(c.func).endswith("fromiter")]
    ok_vals = bool(vals) and norm(vals[0].args[0]) == f"{fp[1]}.values()"
    ctx.check(ok and ok_vals, R2, fr.key, "parities are computed from the dictionary's keys with the given marked qubits and weighted by the same dictionary's values", "the parity vector and the frequency vector are not both taken, un-reordered, from the same count dictionary with the caller's marked qubits", fr)
    ge = repo.func(f"{MS}:Measurements.get_expectation_values")
    ctx.analysed(ge)
    calls = find_calls_named(ge.node, ["get_expectation_value_from_frequencies"])
    d = Defs(ge.node)
    ok = bool(calls)
    for c in calls:
        a0 = c.args[0]
        atoms = d.atoms(a0)
        arithmetic = any(isinstance(x, ast.BinOp) for x in ast.walk(a0))
        ok = ok and any(a.endswith(".qubits") for a in atoms) and not arithmetic and "self.get_counts" in norm(d.defs.get(norm(c.args[1]), [c.args[1]])[0])
    ctx.check(ok, R2, ge.key, "marked qubits are the term's own qubit indices; frequencies are this object's counts", "get_expectation_values does not pass each term's qubit set and this object's own counts to the parity computation", ge)


# ----------------------------------------------------------------------------- D3
def check_exact_distribution(ctx):
    repo = ctx.repo
    fi = repo.func(f"{DI}:create_bitstring_distribution_from_probability_distribution")
    ctx.analysed(fi)
    p = positional_params(fi.node)[0]
    d = Defs(fi.node)
    prods = find_calls_named(fi.node, ["product"])
    ok = False
    detail = "keys are not itertools.product([0, 1], repeat=n)"
    if len(prods) == 1 and len(prods[0].args) == 1 and kwarg(prods[0], "repeat") is not None:
        digits = prods[0].args[0]
        try:
            vals = [const_value(e) for e in digits.elts] if isinstance(digits, (ast.List, ast.Tuple)) else (list(range(const_value(digits.args[0]))) if isinstance(digits, ast.Call) and dotted(digits.func) == "range" and len(digits.args) == 1 else None)
        except ValueError:
            vals = None
        ok = vals == [0, 1]
        detail = f"digits {short(digits)}: the first key must be all zeros and the first position must vary slowest"
    ctx.check(ok, R3, fi.key + ":key-order", "keys enumerate bit tuples with position 0 most significant, digits ascending", detail, fi)
    zips = [c for c in body_walk(fi.node) if isinstance(c, ast.Call) and dotted(c.func) == "zip" and len(c.args) == 2]
    ok = False
    if len(zips) == 1:
        a0, a1 = zips[0].args
        a0d = d.defs.get(norm(a0), [a0])[0] if isinstance(a0, ast.Name) else a0
        ok = isinstance(a0d, ast.AST) and any(x is prods[0] for x in ast.walk(a0d)) and norm(a1) == p and count_reversals(a0d) == 0 if prods else False
    comps = [n for n in body_walk(fi.node) if isinstance(n, ast.DictComp)]
    key_ok = bool(comps) and isinstance(comps[0].generators[0].target, ast.Tuple) and norm(comps[0].key) == norm(comps[0].generators[0].target.elts[0]) and not comps[0].generators[0].ifs
    ctx.check(ok and key_ok, R3, fi.key + ":pairing", "i-th key paired with the i-th probability, key used as is", "the enumerated keys are not paired one-to-one, un-reversed, with the probabilities in amplitude order", fi)
    pre = repo.func(f"{DI}:preprocess_distibution_dict")
    ctx.analysed(pre)
    stores = [n for n in body_walk(pre.node) if isinstance(n, ast.Assign) and isinstance(n.targets[0], ast.Subscript) and isinstance(n.targets[0].slice, ast.Call)]
    ok = bool(stores) and all(count_reversals(s.targets[0].slice) == 0 for s in stores)
    convs = [c for c in body_walk(pre.node) if isinstance(c, ast.Call) and dotted(c.func) == "tuple" and c.args]
    if not stores and convs and count_reversals(pre.node) == 0 and not any(isinstance(c, ast.Call) and (dotted(c.func) or "").split(".")[-1] in ("sorted", "reversed") for c in body_walk(pre.node)):
        ok = True  # the tuple is built first and stored under a local name: nothing in the function reverses or sorts
    if not stores and not convs:
        ctx.undecided(R3, pre.key, "cannot find where a string key is turned into a tuple", pre)
    else:
      ctx.check(ok, R3, pre.key, "string keys become tuples character by character", "string keys of a distribution are re-ordered when they are turned into tuples", pre)
    gd = repo.func(f"{MS}:Measurements.get_distribution")
    ctx.analysed(gd)
    ctx.check(count_reversals(gd.node) == 0 and "self.get_counts()" in norm(gd.node), R3, gd.key, "empirical distribution is keyed by the count strings themselves", "get_distribution re-orders the count strings", gd)


# ----------------------------------------------------------------------------- D4
def check_operator_matrix(ctx):
    repo = ctx.repo
    fi = repo.func(f"{SP}:get_sparse_operator")
    ctx.analysed(fi)
    loops = [n for n in body_walk(fi.node) if isinstance(n, ast.For) and "operations" in norm(n.iter)]
    if len(loops) != 1:
        ctx.undecided(R4, fi.key + ":qubit-order", "cannot find the loop over a term's operations", fi)
        return
    it = loops[0].iter
    asc = isinstance(it, ast.Call) and dotted(it.func) == "sorted" and count_reversals(it) == 0 and kwarg(it, "key") is None
    ctx.check(asc, R4, fi.key + ":qubit-order", "a term's operators are visited in ascending qubit order", f"operators are visited as {short(it)}: not in ascending qubit order, so qubit 0 is not the leftmost Kronecker factor", f"{fi.module.relpath}:{loops[0].lineno}")
    # the factor list grows at its end only
    acc = None
    for n in ast.walk(loops[0]):
        if isinstance(n, ast.AugAssign) and isinstance(n.op, ast.Add) and isinstance(n.target, ast.Name):
            acc = n.target.id
        if isinstance(n, ast.Call) and isinstance(n.func, ast.Attribute) and n.func.attr in ("append", "extend") and isinstance(n.func.value, ast.Name):
            acc = n.func.value.id
    grows_ok = acc is not None
    if acc:
        for n in body_walk(fi.node):
            if isinstance(n, ast.Call) and isinstance(n.func, ast.Attribute) and norm(n.func.value) == acc and n.func.attr in ("insert", "appendleft", "reverse"):
                grows_ok = False
            if isinstance(n, ast.Assign) and norm(n.targets[0]) == acc and isinstance(n.value, ast.BinOp) and norm(n.value.right) == acc:
                grows_ok = False
    ctx.check(grows_ok, R4, fi.key + ":factor-list", "Kronecker factors are appended in visiting order", "a Kronecker factor is prepended / the factor list is reversed", fi)
    kcalls = find_calls_named(fi.node, ["_kronecker_operators"])
    ok = len(kcalls) == 1 and acc is not None and norm(kcalls[0].args[0]) == acc
    kf = repo.func(f"{SP}:_kronecker_operators")
    wf = repo.func(f"{SP}:_wrapped_kronecker")
    ctx.analysed(kf, wf)
    kr = returned_exprs(kf.node)
    fd = None
    if len(kr) == 1 and isinstance(kr[0], ast.Call) and (dotted(kr[0].func) or "").split(".")[-1] == "reduce":
        f0 = kr[0].args[0]
        if dotted(f0) == "_wrapped_kronecker":
            wr = returned_exprs(wf.node)
            wp = positional_params(wf.node)
            if len(wr) == 1 and isinstance(wr[0], ast.Call) and (dotted(wr[0].func) or "").split(".")[-1] == "kron" and len(wr[0].args) >= 2:
                a, b = norm(wr[0].args[0]), norm(wr[0].args[1])
                fd = 0 if (a, b) == (wp[0], wp[1]) else (1 if (a, b) == (wp[1], wp[0]) else None)
        else:
            fd = fold_direction(kf.node, kr[0])
        if count_reversals(kr[0]) % 2 == 1:
            fd = None if fd is None else fd ^ 1
    ctx.check(ok and fd == 0, R4, kf.key, "left fold kron(kron(f0, f1), f2): the first factor is the most significant", "the Kronecker fold puts the first factor last (or is not a recognisable fold): qubit 0 becomes the least significant position", kf)
    ge = repo.func(f"{OU}:get_expectation_value")
    ctx.analysed(ge)
    a = ge.node.args
    names = [x.arg for x in a.args]
    dflt = None
    if "reverse_operator" in names:
        i = names.index("reverse_operator") - (len(names) - len(a.defaults))
        dflt = a.defaults[i] if i >= 0 else None
    ok_def = dflt is not None and isinstance(dflt, ast.Constant) and dflt.value is False
    revs = find_calls_named(ge.node, ["reverse_qubit_order"])
    guarded = all(any(isinstance(n, ast.If) and norm(n.test) == "reverse_operator" and any(x is r for s in n.body for x in ast.walk(s)) for n in body_walk(ge.node)) for r in revs)
    ctx.check(ok_def and guarded and count_reversals(ge.node) == 0, R4, ge.key, "operator and state are combined without re-indexing unless the caller asks for it", "get_expectation_value re-indexes the operator or the state by default", ge)
    sp = find_calls_named(ge.node, ["get_sparse_operator"])
    ex = find_calls_named(ge.node, ["expectation"])
    ok = len(sp) == 1 and len(ex) == 1 and norm(ex[0].args[1]) in ("wavefunction.amplitudes",) and (kwarg(sp[0], "n_qubits") is not None or len(sp[0].args) == 2)
    ctx.check(ok, R4, ge.key + ":wiring", "<psi| sparse(op, n) |psi> with the state's own amplitudes and width", "the expectation is not taken between the sparse operator of the state's width and the state's own amplitude vector", ge)


# ----------------------------------------------------------------------------- D5
def positional_weight(func: ast.AST, state: str) -> Optional[int]:
    """0 if element 0 of ``state`` is the most significant position of the value the function
    builds, 1 if least significant, None if the shape is not recognised.

    Kronecker chains over ``state`` in order -> 0; reversed -> 1. Index formulas
    ``sum(bit << E)`` / ``sum(bit * 2 ** E)`` over ``enumerate(state)``: E decreasing in the position
    (coefficient -1) -> 0, increasing (+1) -> 1; ``int("".join(...), 2)`` -> parity of the join."""
    rets = returned_exprs(func)
    if len(rets) != 1:
        return None
    d = Defs(func)
    e = rets[0]
    o = Orient(func, lambda x: isinstance(x, ast.Name) and x.id == state)

    def seq_arg(call: ast.Call) -> Optional[ast.AST]:
        base = (dotted(call.func) or "").split(".")[-1]
        if base in ("kronecker_product", "TensorProduct") and len(call.args) == 1 and isinstance(call.args[0], ast.Starred):
            return call.args[0].value
        if base == "reduce" and len(call.args) >= 2:
            return call.args[1]
        return None

    for c in [x for x in ast.walk(e) if isinstance(x, ast.Call)]:
        s = seq_arg(c)
        if s is not None:
            base = (dotted(c.func) or "").split(".")[-1]
            par = o.parity(s)
            if par is None:
                return None
            if base == "reduce":
                fd = fold_direction(func, c)
                f0 = dotted(c.args[0]) or ""
                if fd is None and f0.split(".")[-1] in ("kron", "kronecker_product"):
                    fd = 0
                if fd is None:
                    return None
                par ^= fd
            return par
    # index formulas
    for c in [x for x in ast.walk(func) if isinstance(x, ast.Call) and dotted(x.func) == "sum" and x.args]:
        g = c.args[0]
        if isinstance(g, (ast.GeneratorExp, ast.ListComp)) and len(g.generators) == 1:
            it = g.generators[0].iter
            tgt = g.generators[0].target
            if isinstance(it, ast.Call) and dotted(it.func) == "enumerate" and isinstance(tgt, ast.Tuple) and len(tgt.elts) == 2:
                src_par = o.parity(it.args[0])
                pos, bit = norm(tgt.elts[0]), norm(tgt.elts[1])
                el = g.elt
                expo = None
                if isinstance(el, ast.BinOp) and isinstance(el.op, ast.LShift) and norm(el.left) == bit:
                    expo = el.right
                elif isinstance(el, ast.BinOp) and isinstance(el.op, ast.Mult):
                    for a, b in ((el.left, el.right), (el.right, el.left)):
                        if norm(a) == bit and isinstance(b, ast.BinOp) and isinstance(b.op, ast.Pow) and norm(b.left) == "2":
                            expo = b.right
                if expo is None or src_par is None:
                    return None
                class _Opaque(ast.NodeTransformer):
                    def visit_Call(self, node):
                        return ast.Name(id="call_" + "".join(ch if ch.isalnum() else "_" for ch in norm(node)), ctx=ast.Load())

                import copy as _copy

                pl = poly(_Opaque().visit(_copy.deepcopy(expo)))
                if pl is None:
                    return None
                coef = pl.get(((pos, 1),))
                if coef == 1:
                    return 1 ^ src_par
                if coef == -1:
                    return 0 ^ src_par
                return None
    for c in [x for x in ast.walk(func) if isinstance(x, ast.Call) and dotted(x.func) == "int" and len(x.args) == 2]:
        j = c.args[0]
        if isinstance(j, ast.Call) and isinstance(j.func, ast.Attribute) and j.func.attr == "join":
            return o.parity(j.args[0])
    return None


def check_embedding_helpers(ctx):
    repo = ctx.repo
    bb = repo.func(f"{UN}:_basis_bitstring")
    ctx.analysed(bb)
    rets = returned_exprs(bb.node)
    ok = False
    if len(rets) == 1 and isinstance(rets[0], ast.ListComp) and len(rets[0].generators) == 1:
        it = rets[0].generators[0].iter
        txt = norm(it)
        ps = positional_params(bb.node)
        ok = count_reversals(rets[0]) == 0 and (txt == f"bin({ps[0]})[2:].zfill({ps[1]})" or txt == f"format({ps[0]}, '0' + str({ps[1]}) + 'b')" or txt == f"np.binary_repr({ps[0]}, {ps[1]})" or txt == f"np.binary_repr({ps[0]}, width={ps[1]})")
    ctx.check(ok, R5, bb.key, "basis bit list is the zero-padded binary text of the index, most significant first", "_basis_bitstring does not list the bits of the index most-significant first", bb)
    res = {}
    for name in ("_bitstring_to_sympy_dense_vector", "_bitstring_to_numpy_dense_vector"):
        f = repo.func(f"{UN}:{name}")
        ctx.analysed(f)
        w = positional_weight(f.node, positional_params(f.node)[0])
        res[name] = w
        if w is None:
            ctx.undecided(R5, f.key, "cannot determine which element of the bit list is the most significant position of the vector", f)
        else:
            ctx.check(w == 0, R5, f.key, "state[0] is the most significant (leftmost Kronecker) position", f"{name} puts state[0] on the least significant position: with qubit 0 most significant everywhere else, gates built through this helper act on mirrored qubits", f)
    if None not in res.values():
        ctx.check(len(set(res.values())) == 1, R5, f"{UN}:dense-vector-siblings", "numeric and symbolic builders agree", f"the numeric and the symbolic dense-vector builders disagree on the bit order ({res}): a circuit simulated with free symbols and bound afterwards differs from binding first", repo.func(f"{UN}:_bitstring_to_sympy_dense_vector"))
    # both variants of _lift_matrix pass the matching helper
    for variant, helper in (("_lift_matrix_numpy", "_bitstring_to_numpy_dense_vector"), ("_lift_matrix_sympy", "_bitstring_to_sympy_dense_vector")):
        f = repo.func(f"{UN}:{variant}")
        ctx.analysed(f)
        calls = find_calls_named(f.node, ["_lift_matrix"])
        ok = len(calls) == 1 and (norm(kwarg(calls[0], "bitstring_to_dense_vector")) == helper or (len(calls[0].args) >= 7 and norm(calls[0].args[6]) == helper))
        ctx.check(ok, R5, f.key, f"uses {helper}", f"{variant} does not hand {helper} to _lift_matrix", f)


# ----------------------------------------------------------------------------- D6
def check_simulator(ctx):
    repo = ctx.repo
    rm = repo.func(f"{SIM}:BaseWavefunctionSimulator._run_and_measure")
    ctx.analysed(rm)
    calls = find_calls_named(rm.node, ["sample_from_wavefunction"])
    rets = returned_exprs(rm.node)
    ok = len(calls) == 1 and len(rets) == 1 and isinstance(rets[0], ast.Call) and dotted(rets[0].func) == "Measurements" and count_reversals(rm.node) == 0
    if ok:
        a = rets[0].args[0] if rets[0].args else kwarg(rets[0], "bitstrings")
        d = Defs(rm.node)
        ok = a is not None and (any(x is calls[0] for x in ast.walk(a)) or (isinstance(a, ast.Name) and any(isinstance(v, ast.AST) and any(x is calls[0] for x in ast.walk(v)) for v in d.defs.get(a.id, []))))
    ctx.check(ok, R6, rm.key, "measurements are the sampled tuples themselves", "the simulator converts or re-orders the sampled tuples before wrapping them in Measurements", rm)
    gd = repo.func(f"{SIM}:BaseWavefunctionSimulator.get_measurement_outcome_distribution")
    ctx.analysed(gd)
    calls = find_calls_named(gd.node, ["create_bitstring_distribution_from_probability_distribution"])
    ok = len(calls) == 1 and count_reversals(gd.node) == 0 and isinstance(calls[0].args[0], ast.Call) and isinstance(calls[0].args[0].func, ast.Attribute) and calls[0].args[0].func.attr == "get_probabilities"
    ctx.check(ok, R6, gd.key, "exact distribution is built from the state's probabilities in amplitude order", "the exact distribution is not built directly from wavefunction.get_probabilities()", gd)
    gp = repo.func(f"{WF}:Wavefunction.get_probabilities")
    ctx.analysed(gp)
    rets = returned_exprs(gp.node)
    ok = len(rets) == 1 and not isinstance(rets[0], ast.IfExp) and count_reversals(rets[0]) == 0 and "self.amplitudes" in norm(rets[0]) and not any(isinstance(n, ast.Subscript) for n in ast.walk(rets[0]))
    ctx.check(ok, R6, gp.key, "probabilities are element-wise |amplitude|^2 in amplitude order", "get_probabilities re-orders or slices the amplitudes", gp)
    ex = repo.func(f"{SIM}:BaseWavefunctionSimulator.get_exact_expectation_values")
    ctx.analysed(ex)
    calls = find_calls_named(ex.node, ["get_expectation_value"])
    ok = len(calls) == 1 and kwarg(calls[0], "reverse_operator") is None and len(calls[0].args) == 2 and count_reversals(ex.node) == 0 and not find_calls_named(ex.node, ["reverse_qubit_order", "flip_wavefunction", "flip_amplitudes"])
    ctx.check(ok, R6, ex.key, "exact expectation uses the operator and the simulated state as they are", "the exact expectation re-indexes the operator or flips the state: it then disagrees with the sampled and distribution views", ex)


def run(ctx):
    from ..lints import check_stale_loop_variables

    # the views of a state are computed from its current amplitudes on every request: a query method that remembers its result on the
    # (mutable, assignable) wavefunction keeps describing the old state after an accepted assignment, while the other views move on
    from ..state import check_hidden_state
    from .c20 import effects_for as _eff

    wq = [f for f in ctx.repo.module("wavefunction").functions.values() if f.cls is not None and f.name not in ("__init__", "__setitem__", "__post_init__")]
    check_hidden_state(ctx, "C04-D10 views-not-remembered", wq, _eff(ctx), receiver_caches=True)
    check_stale_loop_variables(ctx, "C04-D9 loop-variables", ['wavefunction', 'measurements.measurements', 'measurements.parities', 'utils', 'operators._openfermion_utils.sparse_tools', 'distributions._measurement_outcome_distribution', 'circuits._unitary_tools'])
    repo = ctx.repo
    try:
        pi_key = outcome_key_parity(ctx)
        pi_b2t = elementwise_parity(ctx, f"{UT}:bitstring_to_tuple")
        pi_conv = collection_map_parity(ctx, f"{UT}:convert_bitstrings_to_tuples", "bitstring_to_tuple", pi_b2t)
        ctx.ok(R1, f"{WF}:Wavefunction.get_outcome_probs:parity", f"key text carries {pi_key} reversal(s) relative to MSB-first", repo.func(f"{WF}:Wavefunction.get_outcome_probs"))
        ctx.ok(R1, f"{UT}:bitstring_to_tuple:parity", f"{pi_b2t} reversal(s)", repo.func(f"{UT}:bitstring_to_tuple"))
        ctx.check(pi_conv == pi_b2t, R1, f"{UT}:convert_bitstrings_to_tuples", "element-wise bitstring_to_tuple", "convert_bitstrings_to_tuples adds a reversal of its own", repo.func(f"{UT}:convert_bitstrings_to_tuples"))
        ctx.check((pi_key + pi_conv) % 2 == 0, R1, "path:amplitude-index->outcome-key->tuple", "get_outcome_probs and convert_bitstrings_to_tuples cancel", f"get_outcome_probs applies {pi_key} reversal(s) and the string->tuple conversion {pi_conv}: odd in total, so entry q of a converted outcome is qubit n-1-q", repo.func(f"{UT}:bitstring_to_tuple"))
        check_sampling(ctx, pi_key, pi_conv)
    except Und as e:
        ctx.undecided(R1, "path:amplitude-index->tuple", str(e))
    except PathsDisagree as e:
        ctx.violation(R1, f"{e.fi.key}:exits-agree", f"the exits of {e.fi.qualname} orient the bits differently ({'; '.join(f'{t}: {q} reversal(s)' for t, q in e.paths)}): which numbering a converted outcome uses then depends on the path taken (e.g. the type of the input), so one sampling regime reads qubit q at position n-1-q", e.fi)
    try:
        pi_t2b = elementwise_parity(ctx, f"{UT}:tuple_to_bitstring")
        check_counts(ctx, pi_t2b)
    except Und as e:
        ctx.undecided(R2, "path:tuple->count-string", str(e))
    except PathsDisagree as e:
        ctx.violation(R2, f"{e.fi.key}:exits-agree", f"the exits of {e.fi.qualname} orient the bits differently ({'; '.join(f'{t}: {q} reversal(s)' for t, q in e.paths)})", e.fi)
    check_exact_distribution(ctx)
    check_operator_matrix(ctx)
    check_embedding_helpers(ctx)
    check_simulator(ctx)
    # qubit q of the register is bit q of the amplitude index only if every gate application goes through the one analysed
    # embedding: the entry points (apply, lifted_matrix and the numeric / symbolic twins) are decided once, by C01-D5
    from ..common import share_rule
    from . import c01

    share_rule(ctx, "C01", c01.check_embedding_paths, "C04-D7 embedding-entry")
    # exact expectation values use the same numbering only if they are the quadratic form with the sparse matrix (whose Kronecker
    # order D4 decides): the path from operator and state to the number is decided once, by C09-D4
    from . import c09

    share_rule(ctx, "C09", c09.check_expectation, "C04-D8 expectation-path")
    ctx.floor("C04-D8", 5)
    from ..lints import identity_padding_on_the_left

    _hits = identity_padding_on_the_left(ctx.repo, ("operators._utils", "api.wavefunction_simulator", "operators._openfermion_utils.sparse_tools", "wavefunction"))
    for _fi, _c in _hits:
        ctx.violation(R4, f"{_fi.key}:identity-padding:{short(_c, 40)}", f"{_fi.qualname}: `{short(_c, 90)}` widens a matrix by an identity factor on the left: qubit 0 is the leftmost Kronecker factor, so the added (higher-numbered, idle) qubits belong on the right; as written the operator acts on the last qubits of the register instead of the ones it names", f"{_fi.module.relpath}:{_c.lineno}")
    ctx.ok(R4, "artefacts:identity-padding", f"no matrix is widened by an identity factor on the left ({len(_hits)} found)", "")
    ctx.floor("C04-D7", 6)
    ctx.floor("C04-D1", 9)
    ctx.floor("C04-D2", 7)
    ctx.floor("C04-D3", 4)
    ctx.floor("C04-D4", 5)
    ctx.floor("C04-D5", 6)
    ctx.floor("C04-D6", 4)
