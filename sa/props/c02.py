"""C02 — every built-in gate is a valid unitary that keeps its textbook identities."""
from __future__ import annotations

import ast
from typing import Dict, List, Optional, Tuple

from ..astutil import arg_or_kw, body_walk, dotted, norm, positional_params, short, walk_local
from ..common import returned_exprs
from ..exppoly import EP, K, K1, Evaluator, Mat, Undecided, self_check
from ..gatetable import BUILTIN, MATRICES, GateEntry, gate_table

EXPLANATION = (
    "The matrix factories are straight-line closed-form tables; the checker reads them from the syntax tree and "
    "constant-folds each into an exact normal form (polynomials over Q(i, sqrt 2) times exp(i * rational linear form "
    "in the real parameters and pi)), in which equality of normal forms is equality for all real parameters. Decided "
    "for all 27 table entries: (D1) the table is complete, each gate's name string equals the identifier it is bound "
    "to, its factory resolves into _matrices.py with the arity its kind requires, and the prototype helper and "
    "MatrixFactoryGate.matrix pass name/factory/params/qubit-count/flag through the matching slots; (D2) the folded "
    "matrix is square of dimension 2**num_qubits; (D3) every gate flagged is_hermitian equals its conjugate "
    "transpose; (D4) the matrix is computable for every real parameter: no division by an expression that can vanish, "
    "no numpy scalar reaching a sympy constructor un-sanitised; (D5) M * M^dagger = 1 identically; (D6) each "
    "one-parameter rotation/phase gate satisfies M(a) * M(b) = M(a + b) and M(0) = 1 identically in a, b; (D7) the "
    "stated relations S*S=Z, T*T=S, SX*SX=X, H*Z*H=X, CNOT/CZ = 1 (+) X/Z, SWAP = qubit exchange, Delay = I = identity. "
    "(D6p) a factory that reduces a parameter modulo a period before building the matrix is accepted only if the folded closed form provably has that period (M(p+P) = M(p) in the normal form)."
    ' Round 4: decorators of matrix factories are folded (each special-case answer `if p == c: return E` must be the closed form at c, same shape); an unrecognised decorator is undecided.'
    ' Round 5: special answers inside a factory (`if p == c: return E`) equal the closed form at c; parameter reductions through a helper must be periods of the closed form; the prototype passes parameters as given; factories do not return module-level mutable matrices; a base gate is its own dagger only under its flag (path-sensitive, shared with C07-D6).'
    ' Round 6: (D8) stale loop variables.'
    ' Round 7: (D4) no matrix factory is wrapped in a functools cache (module-level aliases followed): a cached factory hands every caller the same mutable matrix.'
)
RULE_TEXT = "instances = the 27 gate-table entries x {table, dimension, self-adjoint flag, computability, unitarity}, 10 group-law gates x {additivity, zero}, 9 fixed relations; exhaustive over the table, symbolic (normal-form) in the parameters"
ASSUMPTIONS = [
    "gate parameters are real (the property's quantifier); conjugation of exp(i*L) negates L under that assumption",
    "sympy.Matrix / exp / cos / sin / sqrt / simplify have their documented meaning; float literals are read as the rationals they spell; 1/np.sqrt(2) and 2**-0.5 are read as the exact algebraic number (the float rounding of the installed numpy is not modelled)",
    "declined: nothing of the stated property for table entries inside the closed-form fragment; a factory that leaves the fragment (loops, data-dependent branches, unknown calls) is reported as ANALYSIS-ERROR, not guessed",
]

R1 = "C02-D1 gate-table"
R2 = "C02-D2 dimension"
R3 = "C02-D3 self-adjoint-flag"
R4 = "C02-D4 computable"
R5 = "C02-D5 unitary"
R6 = "C02-D6 group-law"
R7 = "C02-D7 defining-relations"

EXPECTED_GATES = ["X", "Y", "Z", "H", "I", "S", "SX", "T", "RX", "RY", "RZ", "RH", "PHASE", "U3", "GPi", "GPi2", "CNOT", "CZ", "SWAP", "ISWAP", "CPHASE", "XX", "YY", "ZZ", "XY", "MS", "Delay"]
# "the one-parameter rotation and phase gates form additive groups"
GROUP_GATES = ["RX", "RY", "RZ", "RH", "PHASE", "CPHASE", "XX", "YY", "ZZ", "XY"]
NUMPY_SCALAR_PRODUCERS = {"sqrt", "exp", "cos", "sin", "tan", "power", "float64", "complex128", "cbrt", "log", "abs", "absolute"}
SANITIZERS = {"float", "int", "complex"}


def _fold(ctx, entry: GateEntry, args: List[EP], reduction_rule: str = "C02-D6 group-law") -> Mat:
    repo = ctx.repo
    mod = repo.module(MATRICES)

    def resolve(call: ast.Call):
        r = repo.resolve_dotted(mod, call.func) if isinstance(call.func, (ast.Name, ast.Attribute)) else None
        if r is not None and r[0] == "func":
            return r[1].node, r[1].qualname
        return None

    _shared_results(ctx, entry)
    ev = Evaluator(resolve)
    ev.module_assigns = dict(mod.assigns)
    out = ev.run(entry.factory.node, args)
    if not isinstance(out, Mat):
        raise Undecided(f"{entry.factory.qualname} does not return a matrix")
    _fold_decorators(ctx, entry, ev, out)
    for fname, pname, cval, special, stmt in ev.special_cases:
        # a special answer for one parameter value inside a factory (`if angle == 0: return i_matrix()`): it has to be the closed
        # form at that value -- same shape, same entries
        where = f"{entry.factory.module.relpath}:{stmt.lineno}"
        construct = f"{entry.factory.key}:special-case:{fname}:{short(stmt.test, 30)}"
        if fname != entry.factory.node.name or pname not in positional_params(entry.factory.node) or not isinstance(special, Mat):
            raise Undecided(f"special case `{short(stmt.test)}` inside the helper {fname}")
        want = out.subst({pname: cval})
        if special.shape != want.shape:
            ctx.violation(R2, construct, f"{entry.ident}: `{short(stmt.test)}` is answered with {short(stmt.body[0].value)}, a {special.shape[0]}x{special.shape[1]} matrix, but the gate's matrix is {want.shape[0]}x{want.shape[1]}: at that parameter value the gate has the wrong dimension", where)
            continue
        diff = special.first_difference(want)
        ctx.check(diff is None, R7, construct, f"{entry.ident}: the special answer for `{short(stmt.test)}` is the closed form at that value", f"{entry.ident}: `{short(stmt.test)}` is answered with {short(stmt.body[0].value)}, but the closed form there has [{diff[0]}][{diff[1]}] = {diff[3]!r} (special answer: {diff[2]!r})" if diff else "", where)
    # a parameter reduced modulo a period before use: the fold ignored the reduction, which is only right if the folded
    # table really has that period (M(p + P) = M(p) identically); otherwise values outside the principal range get a
    # different matrix than the closed form (e.g. a sign for half-angle gates), which breaks additivity
    pv = positional_params(entry.factory.node)
    for fname, pname, period in ev.reductions:
        if fname != entry.factory.node.name or pname not in pv:
            raise Undecided(f"parameter reduction inside the helper {fname}")
        shifted = out.subst({pname: EP.var(pname) + period})
        diff = shifted.first_difference(out)
        where = f"{entry.factory.module.relpath}:{entry.factory.node.lineno}"
        ctx.check(diff is None, reduction_rule, f"{entry.factory.key}:reduction:{pname}", f"{entry.ident}: `{pname}` is reduced modulo {period!r} and the matrix has that period", f"{entry.ident}: `{pname}` is reduced modulo {period!r} before the matrix is built, but the closed form does not have that period: M({pname} + P)[{diff[0]}][{diff[1]}] = {diff[2]!r} vs {diff[3]!r}; angles outside the principal range give a different gate, so angle a followed by angle b is no longer angle a+b" if diff else "", where)
    return out


def _shared_results(ctx, entry: GateEntry) -> None:
    """A factory hands out a matrix built on this call. Returning one module-level *mutable* matrix makes every gate using the
    factory share it: after a caller edits the matrix it was given, the gate's matrix is no longer what the table says
    (sympy.Matrix / eye / zeros are mutable; ImmutableMatrix is not)."""
    f = entry.factory
    for r in returned_exprs(f.node):
        if isinstance(r, ast.Name) and r.id in f.module.assigns and r.id not in {a.arg for a in f.node.args.args}:
            v = f.module.assigns[r.id]
            last = (dotted(v.func) or "").split(".")[-1] if isinstance(v, ast.Call) and dotted(v.func) else ""
            if last and "Immutable" not in last and last not in ("tuple", "frozenset"):
                ctx.violation(R4, f"{f.key}:shared-result:{r.id}", f"{entry.ident}: the factory returns the module-level object `{r.id}` (= {short(v)}), a mutable matrix shared by every call: a caller editing the matrix of one gate changes the matrix of every gate built from this factory, so the gate is no longer the one the table defines", f"{f.module.relpath}:{r.lineno}")


def _fold_decorators(ctx, entry: GateEntry, ev: Evaluator, out: Mat) -> None:
    """A decorated factory is the decorator's wrapper, not the closed form below it. The one shape decided here: the decorator
    returns an inner function that answers special parameter values (``if p == c: return E``) and otherwise calls the factory with
    its own parameters. Each special answer must be the closed form at that value (same shape, same entries); anything else about
    a decorator is outside the fragment (UNDECIDED, never a silent pass)."""
    from ..exppoly import _num

    f = entry.factory
    decos = [d for d in f.node.decorator_list]
    if not decos:
        return
    mod = f.module
    names = positional_params(f.node)
    for deco in decos:
        r = ctx.repo.resolve_dotted(mod, deco) if isinstance(deco, (ast.Name, ast.Attribute)) else None
        if r is None or r[0] != "func":
            raise Undecided(f"{f.qualname} is decorated with {short(deco)}, which is not a function of the repository")
        D = r[1].node
        dps = positional_params(D)
        body = [s_ for s_ in D.body if not (isinstance(s_, ast.Expr) and isinstance(s_.value, ast.Constant))]
        if not (len(dps) == 1 and len(body) == 2 and isinstance(body[0], ast.FunctionDef) and isinstance(body[1], ast.Return) and isinstance(body[1].value, ast.Name) and body[1].value.id == body[0].name):
            raise Undecided(f"decorator {D.name} of {f.qualname} is not `def inner(...): ...; return inner`")
        inner = body[0]
        ips = positional_params(inner)
        if len(ips) != len(names) or inner.args.vararg or inner.args.kwarg:
            raise Undecided(f"wrapper {inner.name} of decorator {D.name} does not take the factory's parameters")
        ibody = [s_ for s_ in inner.body if not (isinstance(s_, ast.Expr) and isinstance(s_.value, ast.Constant))]
        last = ibody[-1] if ibody else None
        if not (isinstance(last, ast.Return) and isinstance(last.value, ast.Call) and norm(last.value.func) == dps[0] and [norm(a) for a in last.value.args] == ips and not last.value.keywords):
            raise Undecided(f"wrapper {inner.name} does not end in `return {dps[0]}({', '.join(ips)})`")
        env = {ip: EP.var(nm) for ip, nm in zip(ips, names)}
        for st in ibody[:-1]:
            t = st.test if isinstance(st, ast.If) else None
            ok_case = isinstance(st, ast.If) and not st.orelse and len(st.body) == 1 and isinstance(st.body[0], ast.Return) and isinstance(t, ast.Compare) and len(t.ops) == 1 and isinstance(t.ops[0], ast.Eq) and isinstance(t.left, ast.Name) and t.left.id in ips and isinstance(t.comparators[0], ast.Constant) and isinstance(t.comparators[0].value, (int, float))
            if not ok_case:
                raise Undecided(f"statement outside the special-case fragment in wrapper {inner.name}: {short(st, 80)}")
            pname = names[ips.index(t.left.id)]
            cval = EP.const(_num(t.comparators[0].value))
            special = ev.ev(st.body[0].value, dict(env))
            want = out.subst({pname: cval})
            where = f"{mod.relpath}:{st.lineno}"
            construct = f"{f.key}:special-case:{D.name}:{short(t, 30)}"
            if not isinstance(special, Mat):
                raise Undecided(f"special case of wrapper {inner.name} does not return a matrix")
            if special.shape != want.shape:
                ctx.violation(R2, construct, f"{entry.ident}: the decorator {D.name} answers `{short(t)}` with {short(st.body[0].value)}, a {special.shape[0]}x{special.shape[1]} matrix, but the gate's matrix is {want.shape[0]}x{want.shape[1]}: at that parameter value the gate has the wrong dimension", where)
                continue
            diff = special.first_difference(want)
            ctx.check(diff is None, R7, construct, f"{entry.ident}: the special answer of {D.name} for `{short(t)}` is the closed form at that value", f"{entry.ident}: the decorator {D.name} answers `{short(t)}` with {short(st.body[0].value)}, but the closed form there has [{diff[0]}][{diff[1]}] = {diff[3]!r} (special answer: {diff[2]!r})" if diff else "", where)


def _param_vars(entry: GateEntry) -> List[str]:
    return positional_params(entry.factory.node)


def check_table(ctx, table: List[GateEntry]):
    repo = ctx.repo
    by_ident = {g.ident: g for g in table}
    for ident in EXPECTED_GATES:
        if ident not in by_ident:
            ctx.violation(R1, f"{BUILTIN}:{ident}:present", f"built-in gate {ident} is no longer bound in the gate table (the property quantifies over all 27 built-in gates; builtin_gate_by_name({ident!r}) raises)", f"src/orquestra/quantum/circuits/_builtin_gates.py:1")
    for g in table:
        where = f"src/orquestra/quantum/circuits/_builtin_gates.py:{g.lineno}"
        problems = []
        if g.name is None:
            problems.append("name is not a string literal")
        elif g.name != g.ident:
            problems.append(f"name string {g.name!r} differs from the identifier {g.ident} the gate is bound to (builtin_gate_by_name looks gates up by identifier)")
        if g.factory is None:
            problems.append(f"matrix factory {short(g.factory_expr)} does not resolve to a function")
        elif g.factory.module.name != MATRICES:
            problems.append(f"matrix factory {g.factory.qualname} is not defined in _matrices.py")
        if not isinstance(g.num_qubits, int) or g.num_qubits < 1:
            problems.append("declared qubit count is not a positive integer literal")
        if g.factory is not None:
            n = len(positional_params(g.factory.node))
            if g.parametric and n < 1:
                problems.append(f"parametric prototype with a factory of {n} parameters")
            if not g.parametric and n != 0:
                problems.append(f"constant gate whose factory takes {n} parameter(s)")
            if not g.parametric and g.params_expr is not None and norm(g.params_expr) not in ("()", "tuple()"):
                problems.append(f"constant gate constructed with params {short(g.params_expr)}")
        if problems:
            ctx.violation(R1, f"{BUILTIN}:{g.ident}:entry", "; ".join(problems), where)
        else:
            ctx.ok(R1, f"{BUILTIN}:{g.ident}:entry", f"name == identifier, factory {g.factory.qualname}, {g.num_qubits} qubit(s), hermitian flag {g.is_hermitian}", where)
    # the prototype helper must pass its arguments into the matching constructor slots
    proto = repo.func(f"{BUILTIN}:make_parametric_gate_prototype")
    ctx.analysed(proto)
    ps = positional_params(proto.node)
    inner = [n for n in ast.walk(proto.node) if isinstance(n, ast.Call) and (dotted(n.func) or "").split(".")[-1] == "MatrixFactoryGate"]
    if len(inner) != 1 or len(ps) < 4:
        ctx.undecided(R1, proto.key + ":slots", "cannot find the single MatrixFactoryGate(...) construction in the prototype helper", proto)
    else:
        call = inner[0]
        nested = [n for n in ast.walk(proto.node) if isinstance(n, ast.FunctionDef) and n is not proto.node]
        star = nested[0].args.vararg.arg if nested and nested[0].args.vararg else None
        want = {"name": ps[0], "matrix_factory": ps[1], "params": star, "num_qubits": ps[2], "is_hermitian": ps[3]}
        got = {k: norm(arg_or_kw(call, i, k)) for i, k in enumerate(["name", "matrix_factory", "params", "num_qubits", "is_hermitian"])}
        bad = [f"{k}: passes {got[k]!r}, expected {want[k]!r}" for k in want if got[k] != want[k]]
        # ... and passes the parameters *as given*: a prototype that rewrites them (wrapping angles into one turn, rounding,
        # sorting) builds a different gate than the one asked for -- half-angle gates have period 4*pi, so RX(a) for a reduced
        # modulo 2*pi is -RX(a) and "angle a followed by angle b equals angle a+b" fails across the wrap
        rebinds = [st for st in ast.walk(nested[0]) if isinstance(st, (ast.Assign, ast.AugAssign, ast.AnnAssign)) and star is not None and any(isinstance(t, ast.Name) and t.id == star for t in ast.walk(st.targets[0] if isinstance(st, ast.Assign) else st.target))] if nested else []
        ctx.check(not rebinds, R6, proto.key + ":parameters-as-given", "the gate is built from the parameters the prototype was called with", f"the prototype rewrites the call's parameters before building the gate (`{short(rebinds[0], 90) if rebinds else ''}`): the gate then is not the table's gate at the requested parameter (e.g. an angle reduced modulo 2*pi flips the sign of the half-angle gates RX, RY, RZ, XX, YY, ZZ, so RX(4)*RX(3) != RX(7))", f"{proto.module.relpath}:{rebinds[0].lineno}" if rebinds else proto)
        ctx.check(not bad, R1, proto.key + ":slots", "prototype passes name, factory, the call's parameters, qubit count and flag to the matching slots", "prototype helper mis-routes a field: " + "; ".join(bad), proto)
    # MatrixFactoryGate.matrix = matrix_factory(*params)
    m = repo.func("circuits._gates:MatrixFactoryGate.matrix")
    ctx.analysed(m)
    rets = returned_exprs(m.node)
    ok = len(rets) == 1 and norm(rets[0]) == "self.matrix_factory(*self.params)"
    ctx.check(ok, R1, m.key, "matrix = matrix_factory(*params)", f"MatrixFactoryGate.matrix does not evaluate the factory on exactly the bound parameters ({short(rets[0]) if rets else 'no return'})", m)
    # field order of the dataclass is what positional constructions rely on
    ci = repo.cls("circuits._gates:MatrixFactoryGate")
    fields = list(ci.field_names)
    ctx.check(fields[:5] == ["name", "matrix_factory", "params", "num_qubits", "is_hermitian"], R1, ci.key + ":fields", "field order name, matrix_factory, params, num_qubits, is_hermitian", f"MatrixFactoryGate field order changed to {fields}: positional constructions in the gate table bind the wrong slots", ci.where)


def check_taint(ctx):
    """numpy scalar producers must not reach a sympy constructor un-sanitised (sympy<=1.9 cannot
    sympify numpy>=2 scalars: the matrix then cannot be computed at all)."""
    repo = ctx.repo
    mod = repo.module(MATRICES)
    n_sites = 0
    for fi in mod.functions.values():
        ctx.analysed(fi)
        parents: Dict[ast.AST, ast.AST] = {}
        for n in ast.walk(fi.node):
            for c in ast.iter_child_nodes(n):
                parents[c] = n
        for n in body_walk(fi.node):
            if not isinstance(n, ast.Call):
                continue
            d = dotted(n.func) or ""
            parts = d.split(".")
            if len(parts) == 2 and parts[0] in ("np", "numpy") and parts[1] in NUMPY_SCALAR_PRODUCERS:
                n_sites += 1
                cur, sanitised, reaches = n, False, False
                while cur in parents:
                    p = parents[cur]
                    if isinstance(p, ast.Call) and (dotted(p.func) or "").split(".")[-1] in SANITIZERS and cur in p.args:
                        sanitised = True
                        break
                    if isinstance(p, ast.Call):
                        pd = dotted(p.func) or ""
                        if pd.split(".")[0] in ("sympy", "sp") and cur is not p.func:
                            reaches = True
                            break
                    if isinstance(p, (ast.stmt,)):
                        # assigned to a local or returned: conservatively a sympy matrix factory's value
                        reaches = True
                        break
                    cur = p
                key = f"{fi.key}:numpy-scalar:{short(n, 40)}"
                if sanitised:
                    ctx.ok(R4, key, f"{short(n)} is converted to a Python number before it reaches sympy", f"{mod.relpath}:{n.lineno}")
                elif reaches:
                    ctx.violation(R4, key, f"{short(n)} is a numpy scalar flowing into a sympy expression in {fi.qualname}: with sympy<=1.9 and numpy>=2 (both allowed by setup.cfg) sympify fails and the gate's matrix cannot be computed", f"{mod.relpath}:{n.lineno}")
    ctx.extra["numpy_scalar_sites"] = n_sites


def hermitian_flag_obligations(ctx, rule: str):
    """Shared with C07/C08: `.dagger` of a MatrixFactoryGate returns the gate itself when it is flagged
    is_hermitian, so every flagged table entry must equal its conjugate transpose identically."""
    if not self_check():
        ctx.undecided(rule, "exppoly:self-check", "the normal-form engine failed its embedded controls")
        return
    n = 0
    for g in gate_table(ctx.repo):
        if not g.is_hermitian or g.factory is None or not isinstance(g.num_qubits, int):
            continue
        where = f"src/orquestra/quantum/circuits/_builtin_gates.py:{g.lineno}"
        try:
            m = _fold(ctx, g, [EP.var(p) for p in _param_vars(g)])
        except Undecided as e:
            ctx.undecided(rule, f"{BUILTIN}:{g.ident}:flag", f"cannot fold {g.ident}: {e}", where)
            continue
        ctx.analysed(g.factory)
        diff = m.first_difference(m.adjoint()) if m.rectangular() and m.shape[0] == m.shape[1] else (0, 0, "non-square", "")
        n += 1
        ctx.check(diff is None, rule, f"{BUILTIN}:{g.ident}:flag", f"{g.ident} is flagged self-adjoint and equals its conjugate transpose identically, so returning it as its own dagger is sound", f"{g.ident} is flagged is_hermitian but entry [{diff[0]}][{diff[1]}] = {diff[2]!r} differs from the conjugate transpose's {diff[3]!r}: `{g.ident}(...).dagger` returns the gate itself, which is not its inverse" if diff else "", where)
    return n


def run(ctx):
    from ..lints import check_stale_loop_variables

    check_stale_loop_variables(ctx, "C02-D8 loop-variables", ['circuits._matrices', 'circuits._builtin_gates', 'circuits._gates'])
    from ..lints import check_caches

    # a matrix factory hands out a fresh matrix on every call: a functools cache (also under a module-level alias) makes all gates share one
    # mutable sympy Matrix, so an in-place edit by one caller changes the matrix every later request receives
    check_caches(ctx, "C02-D4 computable", ['circuits._matrices', 'circuits._builtin_gates'])
    repo = ctx.repo
    if not self_check():
        ctx.undecided(R5, "exppoly:self-check", "the normal-form engine failed its embedded positive/negative controls")
        return
    table = gate_table(repo)
    check_table(ctx, table)
    check_taint(ctx)
    folded: Dict[str, Mat] = {}
    for g in table:
        if g.factory is None or not isinstance(g.num_qubits, int):
            continue
        ctx.analysed(g.factory)
        where = f"{g.factory.module.relpath}:{g.factory.node.lineno}"
        pv = _param_vars(g)
        try:
            m = _fold(ctx, g, [EP.var(p) for p in pv])
        except Undecided as e:
            msg = str(e)
            if "may vanish" in msg or "vanishes" in msg:
                ctx.violation(R4, f"{g.factory.key}:division", f"{g.ident}: {msg} — the matrix is not defined for every real parameter value", where)
            else:
                ctx.undecided(R2, f"{g.factory.key}:fold", f"{g.ident}: factory leaves the closed-form fragment: {msg}", where)
            continue
        ctx.ok(R4, f"{g.factory.key}:division", f"{g.ident}: only non-vanishing divisors; folded to a {m.shape[0]}x{m.shape[1]} table", where)
        folded[g.ident] = m
        dim = 2 ** g.num_qubits
        if not m.rectangular() or m.shape != (dim, dim):
            ctx.violation(R2, f"{g.factory.key}:shape", f"{g.ident} declares {g.num_qubits} qubit(s) but its matrix is {'ragged' if not m.rectangular() else 'x'.join(map(str, m.shape))}, expected {dim}x{dim}", where)
            continue
        ctx.ok(R2, f"{g.factory.key}:shape", f"{g.ident}: {dim}x{dim} for {g.num_qubits} qubit(s)", where)
        adj = m.adjoint()
        if g.is_hermitian:
            diff = m.first_difference(adj)
            ctx.check(diff is None, R3, f"{BUILTIN}:{g.ident}:flag", f"{g.ident} is flagged self-adjoint and equals its conjugate transpose identically", f"{g.ident} is flagged is_hermitian but entry [{diff[0]}][{diff[1]}] = {diff[2]!r} differs from the conjugate transpose's {diff[3]!r}: .dagger returns the gate itself, which is then not its inverse" if diff else "", f"src/orquestra/quantum/circuits/_builtin_gates.py:{g.lineno}")
        prod = m * adj
        diff = prod.first_difference(Mat.identity(dim))
        ctx.check(diff is None, R5, f"{g.factory.key}:unitary", f"{g.ident}: M * M^dagger = 1 for all real parameters", f"{g.ident} is not unitary: (M M^dagger)[{diff[0]}][{diff[1]}] = {diff[2]!r}, expected {diff[3]!r}" if diff else "", where)
        if g.parametric and len(pv) == 1 and g.ident in GROUP_GATES:
            p = pv[0]
            a, b = EP.var("a"), EP.var("b")
            lhs = m.subst({p: a}) * m.subst({p: b})
            rhs = m.subst({p: a + b})
            diff = lhs.first_difference(rhs)
            ctx.check(diff is None, R6, f"{g.factory.key}:additive", f"{g.ident}(a) * {g.ident}(b) = {g.ident}(a+b) identically", f"{g.ident}(a)*{g.ident}(b) differs from {g.ident}(a+b) at [{diff[0]}][{diff[1]}]: {diff[2]!r} vs {diff[3]!r}" if diff else "", where)
            zero = m.subst({p: EP()})
            diff = zero.first_difference(Mat.identity(dim))
            ctx.check(diff is None, R6, f"{g.factory.key}:zero", f"{g.ident}(0) = identity", f"{g.ident}(0) is not the identity: entry [{diff[0]}][{diff[1]}] = {diff[2]!r}" if diff else "", where)
        elif g.parametric and len(pv) == 1 and g.ident not in GROUP_GATES and g.ident not in ("GPi", "GPi2", "Delay"):
            ctx.info(R6, f"{g.factory.key}:additive", f"{g.ident} is a one-parameter gate not in the frozen list of rotation/phase gates; group law not required")
    missing_groups = [x for x in GROUP_GATES if x in {g.ident for g in table} and x not in folded]
    # ---- defining relations
    def rel(name: str, need: List[str], build, expect, text_ok: str):
        if any(n not in folded for n in need):
            if all(n in {g.ident for g in table} for n in need):
                return  # already reported as undecided/violation above
            return
        try:
            lhs, rhs = build(), expect()
        except Undecided as e:
            ctx.undecided(R7, f"{BUILTIN}:{name}", str(e))
            return
        diff = lhs.first_difference(rhs) if lhs.shape == rhs.shape else (0, 0, "shape " + str(lhs.shape), "shape " + str(rhs.shape))
        ctx.check(diff is None, R7, f"{BUILTIN}:{name}", text_ok, f"{name} fails: entry [{diff[0]}][{diff[1]}] is {diff[2]!r}, expected {diff[3]!r}" if diff else "", f"src/orquestra/quantum/circuits/_matrices.py:1")

    F = folded
    I2 = Mat.identity(2)
    rel("S*S=Z", ["S", "Z"], lambda: F["S"] * F["S"], lambda: F["Z"], "S*S = Z")
    rel("T*T=S", ["T", "S"], lambda: F["T"] * F["T"], lambda: F["S"], "T*T = S")
    rel("SX*SX=X", ["SX", "X"], lambda: F["SX"] * F["SX"], lambda: F["X"], "SX*SX = X")
    rel("H*Z*H=X", ["H", "Z", "X"], lambda: F["H"] * F["Z"] * F["H"], lambda: F["X"], "H*Z*H = X")
    rel("CNOT=1(+)X", ["CNOT", "X"], lambda: F["CNOT"], lambda: Mat.block_diag(I2, F["X"]), "CNOT is the controlled X (control = first qubit)")
    rel("CZ=1(+)Z", ["CZ", "Z"], lambda: F["CZ"], lambda: Mat.block_diag(I2, F["Z"]), "CZ is the controlled Z")

    def swap_perm():
        rows = []
        for i in range(4):
            a, b = i >> 1, i & 1
            j = (b << 1) | a
            rows.append([EP.const(K1) if c == j else EP() for c in range(4)])
        return Mat(rows)

    rel("SWAP=exchange", ["SWAP"], lambda: F["SWAP"], swap_perm, "SWAP maps |ab> to |ba>")
    rel("Delay=identity", ["Delay"], lambda: F["Delay"], lambda: I2, "Delay(d) is the identity for every duration")
    rel("I=identity", ["I"], lambda: F["I"], lambda: I2, "I is the identity")
    # what the self-adjoint flag is trusted for: a base gate is handed out as its own dagger exactly under that flag (and is
    # wrapped in Dagger otherwise) -- decided once, by C07-D6
    from .c07 import check_matrix_factory_dagger

    check_matrix_factory_dagger(ctx, R3)
    ctx.floor("C02-D1", 27 + 3)
    ctx.floor("C02-D2", 27)
    ctx.floor("C02-D3", 10)
    ctx.floor("C02-D5", 27)
    ctx.floor("C02-D6", 20)
    ctx.floor("C02-D7", 9)
    ctx.extra["gates_folded"] = sorted(folded)
    ctx.note("normal form: sum of K[params]-polynomials times exp(i*L), K = Q(i, sqrt2); equality of normal forms <=> equality for all real parameters")
