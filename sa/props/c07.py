"""C07 — gate modifiers (dagger, controlled, power, exp) mean what they say."""
from __future__ import annotations

import ast
from typing import List, Optional, Tuple

from ..astutil import arg_or_kw, body_walk, dotted, is_const, kwarg, norm, positional_params, short, walk_local
from ..cfg import cfg_of
from ..flow import Defs
from ..common import returned_exprs
from ..linform import poly, p_add, show
from ..state import check_hidden_state, self_check
from .c20 import effects_for

EXPLANATION = (
    "(D1) re-association algebra: every modifier method (controlled / dagger / exp / power) of every gate class is "
    "parsed into a stack of abstract modifiers over the wrapped gate and compared, in a normal form, with 'the "
    "modifier applied to this gate'. The normal form uses exactly the laws that hold for matrices: dagger commutes "
    "with control, power and exp and cancels in pairs; adjacent controls add; control commutes with power; nothing "
    "else commutes. A dropped or hard-coded field (control count, exponent), a lost wrapped gate or an unsound "
    "re-association changes the normal form; (D2) params delegate to the wrapped gate and num_qubits is the wrapped "
    "count plus the controls; (D3) matrix idioms: Dagger = adjoint idiom of the wrapped matrix (bare transpose or "
    "conjugate is rejected), Controlled = block diagonal with the identity block first of size 2**n_total - "
    "2**n_wrapped, Power = wrapped.matrix ** self.exponent, Exponential = wrapped.matrix.exp(), the base gate "
    "returns itself as its dagger only under its own is_hermitian flag, and that flag is never derived from anything "
    "but a Hermiticity test; (D4) fewer than one control is rejected at construction; (D5) no hidden state in the "
    "gate classes (module-level caches, mutable defaults). "
    "(D1x) every exit of a modifier method has the modifier's normal form (no value-dependent re-association such as inverse -> dagger); (D3f) the is_hermitian flag of every MatrixFactoryGate construction is absent, literal, forwarded or a sound Hermiticity test, with class attributes followed to their defining expression."
    ' Round 4: the peeling loop of a replace_params helper may live in a callee returning (base, modifiers).'
    ' Round 5: every exit of MatrixFactoryGate.dagger is self under is_hermitian or Dagger(self); the leaf replace_params keeps every field but the parameters (C06-D2).'
    " Round 7: the controlled matrix's blocks may be bound to locals; the identity block's size is decided by evaluating the extracted integer expression on a grid of widths (D3)."
)
RULE_TEXT = "instances = (gate class, modifier method) pairs, delegating properties, matrix properties, constructions of MatrixFactoryGate; distinct by (rule, construct)"
ASSUMPTIONS = [
    "declined: the meaning of sympy's matrix power / exp / adjoint (incl. fractional roots) - library semantics",
]

GATES = "circuits._gates"
R1 = "C07-D1 reassociation-algebra"
R2 = "C07-D2 delegation"
R3 = "C07-D3 matrix-idioms"
R4 = "C07-D4 control-count-guard"
R5 = "C07-D5 no-hidden-state"

SELF_STACK = {
    "ControlledGate": [("ctrl", "self.num_control_qubits")],
    "Dagger": [("dag", None)],
    "Exponential": [("exp", None)],
    "Power": [("pow", "self.exponent")],
    "MatrixFactoryGate": [],
}
CTOR = {"ControlledGate": "ctrl", "Dagger": "dag", "Exponential": "exp", "Power": "pow"}
CTOR_FIELD = {"ControlledGate": "num_control_qubits", "Power": "exponent"}


class Unparsed(Exception):
    pass


def stack_of(e: ast.AST, cls_name: str) -> Tuple[List[Tuple[str, Optional[str]]], str]:
    """(modifier stack outermost-first, base) of a gate-valued expression."""
    if isinstance(e, ast.Name) and e.id == "self":
        base = "self" if cls_name == "MatrixFactoryGate" else "W"
        return list(SELF_STACK[cls_name]), base
    if isinstance(e, ast.Attribute):
        if norm(e) == "self.wrapped_gate" and cls_name != "MatrixFactoryGate":
            return [], "W"
        if e.attr == "dagger":
            s, b = stack_of(e.value, cls_name)
            return [("dag", None)] + s, b
        if e.attr == "exp":
            s, b = stack_of(e.value, cls_name)
            return [("exp", None)] + s, b
    if isinstance(e, ast.Call):
        f = e.func
        if isinstance(f, ast.Attribute) and f.attr == "controlled" and len(e.args) + len(e.keywords) == 1:
            s, b = stack_of(f.value, cls_name)
            a = e.args[0] if e.args else e.keywords[0].value
            return [("ctrl", norm(a))] + s, b
        if isinstance(f, ast.Attribute) and f.attr == "power" and len(e.args) + len(e.keywords) == 1:
            s, b = stack_of(f.value, cls_name)
            a = e.args[0] if e.args else e.keywords[0].value
            return [("pow", norm(a))] + s, b
        name = (dotted(f) or "").split(".")[-1]
        if name in CTOR:
            inner = arg_or_kw(e, 0, "wrapped_gate")
            if inner is None:
                raise Unparsed(short(e))
            s, b = stack_of(inner, cls_name)
            arg = None
            if name in CTOR_FIELD:
                a = arg_or_kw(e, 1, CTOR_FIELD[name])
                if a is None:
                    raise Unparsed(short(e))
                arg = norm(a)
            return [(CTOR[name], arg)] + s, b
    raise Unparsed(short(e))


def normal_form(stack: List[Tuple[str, Optional[str]]], base: str):
    dag = sum(1 for k, _ in stack if k == "dag") % 2
    rest = [(k, a) for k, a in stack if k != "dag"]
    segments: List[List[Tuple[str, Optional[str]]]] = [[]]
    for k, a in rest:
        if k == "exp":
            segments.append([])
        else:
            segments[-1].append((k, a))
    out = []
    for i, seg in enumerate(segments):
        if i > 0:
            out.append(("exp",))
        ctrls = [a for k, a in seg if k == "ctrl"]
        pows = [a for k, a in seg if k == "pow"]
        if ctrls:
            total = None
            for c in ctrls:
                try:
                    p = poly(ast.parse(c, mode="eval").body)
                except SyntaxError:
                    p = None
                if p is None:
                    total = ("opaque", tuple(sorted(ctrls)))
                    break
                total = p if total is None else p_add(total, p)
            out.append(("ctrl", show(total) if not isinstance(total, tuple) else total))
        for p_ in pows:
            out.append(("pow", p_))
    if dag:
        out.append(("dag",))
    return tuple(out), base


def check_algebra(ctx):
    repo = ctx.repo
    mod = repo.module(GATES)
    n = 0
    for cname in SELF_STACK:
        ci = mod.classes.get(cname)
        if ci is None:
            ctx.undecided(R1, f"{GATES}:{cname}", "gate class missing", "")
            continue
        for mname, op in (("controlled", "ctrl"), ("dagger", "dag"), ("exp", "exp"), ("power", "pow")):
            m = ci.methods.get(mname)
            if m is None:
                ctx.violation(R1, f"{ci.key}.{mname}", f"{cname} does not define {mname}: it falls back to the protocol stub", ci)
                continue
            ctx.analysed(m)
            n += 1
            ps = positional_params(m.node)
            arg = ps[1] if len(ps) > 1 else None
            rets = returned_exprs(m.node)
            if not rets:
                ctx.undecided(R1, m.key, "no return found", m)
                continue
            want = normal_form([(op, arg)] + SELF_STACK[cname], "self" if cname == "MatrixFactoryGate" else "W")
            if len(rets) > 1:
                # several exits (fast paths, special cases): each of them must be the same modifier expression -- matrices
                # give no licence for a value-dependent re-association (e.g. inverse == dagger holds for unitaries only)
                for i, r in enumerate(rets):
                    try:
                        got = normal_form(*stack_of(r, cname))
                    except Unparsed as e:
                        ctx.undecided(R1, f"{m.key}:return{i}", f"cannot parse {e} as a modifier expression", m)
                        continue
                    ctx.check(got == want, R1, f"{m.key}:return{i}", f"{short(r)} == {mname} of this gate", f"{m.qualname} has an exit returning {short(r)} with normal form {got}, but {mname} applied to a {cname} has normal form {want}: on that path the gate is re-associated in a way matrices do not allow for every wrapped gate (power/inverse, dagger and exp only commute for special matrices)", f"{m.module.relpath}:{getattr(r, 'lineno', m.node.lineno)}")
                continue
            r = rets[0]
            if isinstance(r, ast.IfExp):
                # only accepted shape: `self if self.is_hermitian else Dagger(self)` in the base gate's dagger
                ok = cname == "MatrixFactoryGate" and mname == "dagger" and norm(r.test) == "self.is_hermitian" and norm(r.body) == "self"
                try:
                    got = normal_form(*stack_of(r.orelse, cname))
                except Unparsed as e:
                    got = None
                ctx.check(ok and got == want, R1, m.key, "self when flagged self-adjoint, otherwise Dagger(self)", f"{m.qualname} returns {short(r)}: the gate may only stand in for its own dagger under its is_hermitian flag, and must otherwise be wrapped in Dagger", m)
                continue
            try:
                got = normal_form(*stack_of(r, cname))
            except Unparsed as e:
                ctx.undecided(R1, m.key, f"cannot parse {e} as a modifier expression", m)
                continue
            ctx.check(got == want, R1, m.key, f"{short(r)} == {mname} of this gate (normal form {want[0]})", f"{m.qualname} returns {short(r)} with normal form {got}, but {mname} applied to a {cname} has normal form {want}: a field (control count / exponent / wrapped gate) is dropped, hard-coded, or the modifiers are re-associated in a way matrices do not allow", m)
    return n


def check_replace_params(ctx):
    """M(g).replace_params(p) == M(g.replace_params(p)) for every modifier M: either the one-level recursion
    `self.wrapped_gate.replace_params(p)` re-wrapped by this wrapper's own modifier and field, or a helper that peels the
    whole modifier stack and re-applies it -- which must then re-apply the collected modifiers innermost first, i.e. in the
    reverse of the order in which they were peeled off (orientation parity odd)."""
    from ..orient import Orient

    repo = ctx.repo
    mod = repo.module(GATES)
    want = {"ControlledGate": ("controlled", "self.num_control_qubits"), "Dagger": ("dagger", None), "Exponential": ("exp", None), "Power": ("power", "self.exponent")}
    helpers = set()
    inlined = []
    for cname, (modifier, field) in want.items():
        m = mod.classes[cname].methods.get("replace_params")
        if m is None:
            ctx.violation(R1, f"{GATES}:{cname}.replace_params", f"{cname} does not define replace_params", mod.classes[cname])
            continue
        ctx.analysed(m)
        p = positional_params(m.node)[1]
        rets = returned_exprs(m.node)
        inner = f"self.wrapped_gate.replace_params({p})"
        forms = {f"{inner}.{modifier}" if field is None else f"{inner}.{modifier}({field})"}
        if field is None:
            forms |= {f"{cname}({inner})", f"{cname}(wrapped_gate={inner})", f"replace(self, wrapped_gate={inner})", f"dataclasses.replace(self, wrapped_gate={inner})"}
        else:
            fname = field.split(".")[-1]
            forms |= {f"{cname}({inner}, {field})", f"{cname}(wrapped_gate={inner}, {fname}={field})", f"replace(self, wrapped_gate={inner})", f"dataclasses.replace(self, wrapped_gate={inner})"}
        if len(rets) == 1 and norm(rets[0]) in forms:
            ctx.ok(R1, m.key, f"{cname}.replace_params re-wraps the re-parametrised wrapped gate with its own modifier", m)
            continue
        call = rets[0] if len(rets) == 1 else None
        if isinstance(call, ast.Call) and isinstance(call.func, ast.Name) and call.func.id in mod.functions and [norm(a) for a in call.args] == ["self", p]:
            helpers.add(call.func.id)
            ctx.ok(R1, m.key, f"{cname}.replace_params delegates to {call.func.id}(self, {p}) (checked below)", m)
            continue
        if any(isinstance(w, ast.While) for w in body_walk(m.node)):
            inlined.append(m)  # a peel-and-rewrap helper inlined into the method by CANON: judged like the helper itself
            continue
        ctx.violation(R1, m.key, f"{cname}.replace_params returns {short(rets[0]) if rets else None}: not the wrapped gate with the new parameters re-wrapped by this wrapper's own modifier" + (f" and {field}" if field else ""), m)
    for h in [mod.functions[hn] for hn in sorted(helpers)] + inlined:
        hn = h.qualname
        ctx.analysed(h)
        peeled = None
        for w in body_walk(h.node):
            if isinstance(w, ast.While):
                apps = [c for c in ast.walk(w) if isinstance(c, ast.Call) and isinstance(c.func, ast.Attribute) and c.func.attr == "append" and isinstance(c.func.value, ast.Name)]
                descends = any(isinstance(a, ast.Assign) and isinstance(a.value, ast.Attribute) and a.value.attr == "wrapped_gate" for a in ast.walk(w))
                if apps and descends:
                    peeled = apps[0].func.value.id
        extra_parity = 0

        def _peel_loop(fn):
            for w in body_walk(fn):
                if isinstance(w, ast.While):
                    apps = [c for c in ast.walk(w) if isinstance(c, ast.Call) and isinstance(c.func, ast.Attribute) and c.func.attr == "append" and isinstance(c.func.value, ast.Name)]
                    descends = any(isinstance(a, ast.Assign) and isinstance(a.value, ast.Attribute) and a.value.attr == "wrapped_gate" for a in ast.walk(w))
                    if apps and descends:
                        return apps[0].func.value.id
            return None

        if peeled is None:
            # the peeling loop lives in a second helper that hands back (base gate, modifiers): the list keeps the callee's order
            # (plus whatever reversal the callee applies to it on return)
            for a in body_walk(h.node):
                if isinstance(a, ast.Assign) and isinstance(a.targets[0], ast.Tuple) and isinstance(a.value, ast.Call) and isinstance(a.value.func, ast.Name) and a.value.func.id in mod.functions:
                    g = mod.functions[a.value.func.id]
                    lst = _peel_loop(g.node)
                    grets = returned_exprs(g.node)
                    if lst and len(grets) == 1 and isinstance(grets[0], ast.Tuple) and len(grets[0].elts) == len(a.targets[0].elts):
                        og = Orient(g.node, lambda e, lst=lst: isinstance(e, ast.Name) and e.id == lst)
                        for i, el in enumerate(grets[0].elts):
                            pg = og.parity(el) if any(isinstance(x, ast.Name) and x.id == lst for x in ast.walk(el)) else None
                            if pg is not None and isinstance(a.targets[0].elts[i], ast.Name):
                                peeled, extra_parity = a.targets[0].elts[i].id, pg
                                ctx.analysed(g)
        loops = [l for l in body_walk(h.node) if isinstance(l, ast.For) and peeled and any(isinstance(n, ast.Name) and n.id == peeled for n in ast.walk(l.iter))]
        if peeled is None or len(loops) != 1:
            ctx.undecided(R1, h.key, "cannot find the peel-and-rewrap structure of the replace_params helper", h)
            continue
        o = Orient(h.node, lambda e: isinstance(e, ast.Name) and e.id == peeled)
        par = o.parity(loops[0].iter)
        if par is not None:
            par = (par + extra_parity) % 2
        if par is None:
            ctx.undecided(R1, h.key, f"cannot follow the order in which {short(loops[0].iter)} re-applies the peeled modifiers", h)
        else:
            ctx.check(par == 1, R1, h.key + ":rewrap-order", "modifiers are re-applied innermost first (reverse of the peeling order)", f"{hn} peels the modifiers outermost first into `{peeled}` and re-applies them in the same order ({short(loops[0].iter)}): a stack of two or more modifiers comes back in reverse nesting, e.g. RZ(a).exp.controlled(1).replace_params(p) becomes exp of the controlled gate", f"{h.module.relpath}:{loops[0].lineno}")


def check_delegation(ctx):
    repo = ctx.repo
    mod = repo.module(GATES)
    for cname in ("ControlledGate", "Dagger", "Exponential", "Power"):
        ci = mod.classes[cname]
        m = ci.methods.get("params")
        r = returned_exprs(m.node) if m else []
        ctx.check(bool(m) and len(r) == 1 and norm(r[0]) == "self.wrapped_gate.params", R2, f"{ci.key}.params", "params are the wrapped gate's", f"{cname}.params returns {short(r[0]) if r else None}", m or ci)
        nq = ci.methods.get("num_qubits")
        r = returned_exprs(nq.node) if nq else []
        want = "self.wrapped_gate.num_qubits + self.num_control_qubits" if cname == "ControlledGate" else "self.wrapped_gate.num_qubits"
        ok = bool(nq) and len(r) == 1 and (norm(r[0]) == want or (cname == "ControlledGate" and norm(r[0]) == "self.num_control_qubits + self.wrapped_gate.num_qubits"))
        ctx.check(ok, R2, f"{ci.key}.num_qubits", want, f"{cname}.num_qubits returns {short(r[0]) if r else None}, not {want}", nq or ci)
    g = repo.cls(f"{GATES}:Gate")
    call = g.methods.get("__call__")
    r = returned_exprs(call.node) if call else []
    va = call.node.args.vararg.arg if call and call.node.args.vararg else None
    ctx.check(len(r) == 1 and norm(r[0]) == f"GateOperation(self, {va})", R2, f"{g.key}.__call__", "gate(*qubits) = GateOperation(gate, qubits) in the given order", f"Gate.__call__ returns {short(r[0]) if r else None}", call or g)


ADJOINT_IDIOMS = ("X.adjoint()", "X.H", "X.conjugate().T", "X.T.conjugate()", "X.transpose().conjugate()", "X.conjugate().transpose()", "X.conj().T", "X.T.conj()")


def check_matrices(ctx):
    repo = ctx.repo
    mod = repo.module(GATES)
    W = "self.wrapped_gate.matrix"
    m = mod.classes["Dagger"].methods["matrix"]
    r = returned_exprs(m.node)
    ok = len(r) == 1 and norm(r[0]) in [i.replace("X", W) for i in ADJOINT_IDIOMS]
    ctx.check(ok, R3, m.key, "adjoint of the wrapped matrix", f"Dagger.matrix returns {short(r[0]) if r else None}: not the conjugate transpose of the wrapped matrix (a bare transpose or bare conjugate is wrong for complex non-symmetric gates)", m)
    m = mod.classes["Power"].methods["matrix"]
    r = returned_exprs(m.node)
    ctx.check(len(r) == 1 and norm(r[0]) == f"{W} ** self.exponent", R3, m.key, "wrapped.matrix ** exponent", f"Power.matrix returns {short(r[0]) if r else None}", m)
    m = mod.classes["Exponential"].methods["matrix"]
    r = returned_exprs(m.node)
    ctx.check(len(r) == 1 and norm(r[0]) == f"{W}.exp()", R3, m.key, "wrapped.matrix.exp()", f"Exponential.matrix returns {short(r[0]) if r else None}: not the matrix exponential of the wrapped gate's own matrix computed on this call", m)
    m = mod.classes["ControlledGate"].methods["matrix"]
    r = returned_exprs(m.node)
    ok = False
    detail = f"ControlledGate.matrix returns {short(r[0]) if r else None}"
    if len(r) == 1 and isinstance(r[0], ast.Call) and norm(r[0].func).endswith("diag") and len(r[0].args) == 2:
        a0, a1 = r[0].args
        eye_ok = isinstance(a0, ast.Call) and norm(a0.func).endswith("eye") and len(a0.args) == 1 and norm(a0.args[0]).replace(" ", "") in ("2**self.num_qubits-2**self.wrapped_gate.num_qubits",)
        ok = eye_ok and norm(a1) == W
        detail = f"blocks are ({short(a0)}, {short(a1)}): the identity block of size 2**n_total - 2**n_wrapped must come first, followed by the wrapped matrix"
    lost = False
    if not ok and len(r) == 1 and isinstance(r[0], ast.Call) and norm(r[0].func).endswith("diag"):
        # the same call with its blocks bound to locals first (`blocks = [eye(k), wrapped]; diag(*blocks)`, sizes through temporaries)
        dm = Defs(m.node)

        def _res(e, depth=0):
            if isinstance(e, ast.Name) and depth < 4:
                sd = dm.single_def(e.id)
                return _res(sd, depth + 1) if isinstance(sd, ast.AST) else e
            return e

        args = list(r[0].args)
        if len(args) == 1 and isinstance(args[0], ast.Starred):
            lst = _res(args[0].value)
            args = list(lst.elts) if isinstance(lst, (ast.List, ast.Tuple)) else args
        args = [_res(a) for a in args]
        if len(args) == 2:
            is_eye = [isinstance(a, ast.Call) and norm(a.func).endswith("eye") for a in args]
            is_w = [norm(a) == W for a in args]
            size_locals = {n.id for n in ast.walk(r[0].args[0]) if isinstance(n, ast.Name)} - {"self", "sympy", "np"} if is_eye[0] and not isinstance(r[0].args[0], ast.Starred) else {"?"}
            if is_eye[0] and is_w[1] and not size_locals and _size_is_right(args[0].args[0] if args[0].args else None):
                ok = True  # another spelling of 2**n_total - 2**n_wrapped (evaluated by the checker on a grid of widths, n_total = n_wrapped + n_controls)
            elif is_eye[0] and is_w[1] and not size_locals:
                detail = f"blocks are ({short(args[0])}, {short(args[1])}): the identity block must have size 2**n_total - 2**n_wrapped"
            elif is_eye[0] and is_w[1]:
                lost = True  # right order of the blocks; the size of the identity block is spelt through temporaries this rule does not fold
            elif is_w[0] and is_eye[1]:
                detail = f"blocks are ({short(args[0])}, {short(args[1])}): the wrapped matrix comes first, i.e. it acts when the controls are |0...0>"
            else:
                lost = True
        else:
            lost = True
    if lost:
        ctx.undecided(R3, m.key, f"ControlledGate.matrix builds its diagonal blocks through locals this rule cannot fold ({short(r[0])})", m)
    else:
        ctx.check(ok, R3, m.key, "diag(eye(2**n_total - 2**n_wrapped), wrapped.matrix)", detail, m)
    check_flag_provenance(ctx, R3)
    # attributes poked onto frozen instances that influence dagger
    cgd = mod.classes["CustomGateDefinition"]
    call = cgd.methods.get("__call__")
    if call is not None:
        ctx.analysed(call)
        r = returned_exprs(call.node)
        ok = len(r) == 1 and isinstance(r[0], ast.Call) and (dotted(r[0].func) or "").endswith("MatrixFactoryGate") and norm(arg_or_kw(r[0], 0, "name")) == "self.gate_name" and norm(arg_or_kw(r[0], 1, "matrix_factory")) == "CustomGateMatrixFactory(self)" and norm(arg_or_kw(r[0], 3, "num_qubits")) == "self._n_qubits"
        ctx.check(ok, R3, call.key, "custom gate instance = MatrixFactoryGate(name, factory(self), params, n_qubits)", f"CustomGateDefinition.__call__ returns {short(r[0]) if r else None}", call)


def _size_is_right(e) -> bool:
    """Is the integer expression `e` over self.num_qubits / self.wrapped_gate.num_qubits / self.num_control_qubits equal to
    2**n_total - 2**n_wrapped? Decided by the checker's own evaluation of the extracted arithmetic on the grid 1 <= w, k <= 5 with
    n_total = w + k (sums of a few monomials in 2**w and 2**k that agree on 25 points are the same function)."""
    if e is None:
        return False

    def ev(x, w, k):
        if isinstance(x, ast.Constant) and isinstance(x.value, int):
            return x.value
        t = norm(x)
        if t == "self.wrapped_gate.num_qubits":
            return w
        if t == "self.num_control_qubits":
            return k
        if t == "self.num_qubits":
            return w + k
        if isinstance(x, ast.BinOp):
            a, b = ev(x.left, w, k), ev(x.right, w, k)
            if isinstance(x.op, ast.Add):
                return a + b
            if isinstance(x.op, ast.Sub):
                return a - b
            if isinstance(x.op, ast.Mult):
                return a * b
            if isinstance(x.op, ast.Pow) and 0 <= b <= 64:
                return a ** b
            if isinstance(x.op, ast.LShift) and 0 <= b <= 64:
                return a << b
        if isinstance(x, ast.Call) and dotted(x.func) == "int" and len(x.args) == 1:
            return ev(x.args[0], w, k)
        raise ValueError(t)

    try:
        return all(ev(e, w, k) == 2 ** (w + k) - 2 ** w for w in range(1, 6) for k in range(1, 6))
    except (ValueError, TypeError):
        return False


def check_guard(ctx):
    repo = ctx.repo
    ci = repo.cls(f"{GATES}:ControlledGate")
    m = ci.methods.get("__post_init__")
    ok = False
    if m is not None:
        ctx.analysed(m)
        from .c14 import eval_test

        for n in body_walk(m.node):
            if isinstance(n, ast.If) and "num_control_qubits" in norm(n.test) and any(isinstance(s, ast.Raise) for s in n.body):
                # evaluate the guard with the field as a variable
                class Sub(ast.NodeTransformer):
                    def visit_Attribute(self, node):
                        if norm(node) == "self.num_control_qubits":
                            return ast.copy_location(ast.Name(id="k", ctx=ast.Load()), node)
                        return node

                import copy

                t = Sub().visit(copy.deepcopy(n.test))
                ok = eval_test(t, "k", 0) is True and eval_test(t, "k", -1) is True and eval_test(t, "k", 1) is False
    ctx.check(ok, R4, f"{ci.key}.__post_init__", "fewer than one control qubit is rejected", "ControlledGate accepts a control count below 1 (the guard is missing or has the wrong bound)", m or ci)
    for cname in ("Power", "Exponential"):
        c = repo.cls(f"{GATES}:{cname}")
        pm = c.methods.get("__post_init__")
        okp = pm is not None and any(isinstance(n, ast.If) and "free_symbols" in norm(n.test) and any(isinstance(s, ast.Raise) for s in n.body) for n in body_walk(pm.node))
        ctx.check(okp, R4, f"{c.key}.__post_init__", "gates with free symbols are refused (power/exp need a numeric matrix)", f"{cname} no longer refuses gates with free symbols", pm or c)


def _sound_hermiticity_test(e: ast.AST) -> bool:
    """an expression that is true only for matrices equal to their conjugate transpose: a comparison with the adjoint, or
    sympy's tri-state ``is_hermitian`` used positively (None -- undecidable, e.g. symbolic entries -- must count as False)"""
    t = norm(e)
    if isinstance(e, ast.Call) and dotted(e.func) == "bool" and len(e.args) == 1:
        return _sound_hermiticity_test(e.args[0])
    if isinstance(e, ast.Attribute) and e.attr == "is_hermitian":
        return True
    if isinstance(e, ast.Compare) and len(e.ops) == 1:
        l, r = norm(e.left), norm(e.comparators[0])
        if isinstance(e.ops[0], (ast.Is, ast.Eq)) and r == "True" and l.endswith(".is_hermitian"):
            return True
        if isinstance(e.ops[0], ast.Eq) and any(a == b.replace("X", o) for a, o in ((l, r), (r, l)) for b in ADJOINT_IDIOMS):
            return True
    if isinstance(e, ast.BoolOp) and isinstance(e.op, ast.And):
        return any(_sound_hermiticity_test(v) for v in e.values)
    return False


def check_flag_provenance(ctx, rule: str):
    """is_hermitian on every MatrixFactoryGate construction in the gates module: absent, a literal, the enclosing
    function's own `is_hermitian` parameter / the copied gate's field, or a sound Hermiticity test (attributes set in the
    same class are followed to the expression that defines them)."""
    mod = ctx.repo.module(GATES)
    for fi in mod.functions.values():
        for c in body_walk(fi.node):
            if isinstance(c, ast.Call) and (dotted(c.func) or "").split(".")[-1] == "MatrixFactoryGate":
                flag = arg_or_kw(c, 4, "is_hermitian")
                resolved = flag
                if isinstance(flag, ast.Attribute) and norm(flag.value) == "self" and fi.cls is not None and flag.attr != "is_hermitian":
                    defs = []
                    for m in fi.cls.methods.values():
                        for n in body_walk(m.node):
                            if isinstance(n, ast.Call) and dotted(n.func) in ("object.__setattr__", "setattr") and len(n.args) == 3 and isinstance(n.args[1], ast.Constant) and n.args[1].value == flag.attr:
                                defs.append(n.args[2])
                            if isinstance(n, ast.Assign) and any(isinstance(t, ast.Attribute) and t.attr == flag.attr and norm(t.value) == "self" for t in n.targets):
                                defs.append(n.value)
                    resolved = defs[0] if len(defs) == 1 else None
                ok = flag is None or isinstance(flag, ast.Constant) or (isinstance(flag, ast.Name) and flag.id == "is_hermitian") or (isinstance(flag, ast.Attribute) and flag.attr == "is_hermitian" and norm(flag.value) in ("self", "gate", "other")) or (resolved is not None and _sound_hermiticity_test(resolved))
                ctx.check(ok, rule, f"{fi.key}:is_hermitian-flag", "self-adjoint flag absent, literal, forwarded or from a Hermiticity test", f"{fi.qualname} builds a gate whose is_hermitian flag is {short(flag)}" + (f" = {short(resolved)}" if resolved is not None and resolved is not flag else "") + ": not a test that the matrix equals its conjugate transpose (a complex symmetric matrix, or one whose Hermiticity sympy cannot decide, would be treated as its own dagger, so .dagger and Circuit.inverse return the gate itself)", f"{fi.module.relpath}:{c.lineno}")


def check_matrix_factory_dagger(ctx, rule: str):
    """A base gate is its own dagger only under its is_hermitian flag; otherwise it is wrapped in Dagger (shared with C02: what the
    flag is trusted for)."""
    mod = ctx.repo.module(GATES)
    dg = mod.classes["MatrixFactoryGate"].methods["dagger"]
    ctx.analysed(dg)
    r = returned_exprs(dg.node)
    ok = len(r) == 1 and norm(r[0]) in ("self if self.is_hermitian else Dagger(self)", "Dagger(self) if not self.is_hermitian else self")
    if not ok:
        # statement form / several exits: every exit is `Dagger(self)`, or `self` on a path where `self.is_hermitian` was tested
        # true. Anything else (a re-parametrised copy, the inverse, a cached object) is a dagger computed some other way
        from ..cfg import cfg_of

        cfg = cfg_of(dg.node)
        flag_tests = [n for n in cfg.nodes if n.kind == "test" and isinstance(n.ast, ast.If) and norm(n.ast.test) in ("self.is_hermitian", "not self.is_hermitian")]
        bad = []
        for n in cfg.nodes:
            if not isinstance(n.ast, ast.Return) or n.ast.value is None:
                continue
            v = n.ast.value
            exits = [(v, None)]
            if isinstance(v, ast.IfExp) and norm(v.test) in ("self.is_hermitian", "not self.is_hermitian"):
                pos = norm(v.test) == "self.is_hermitian"
                exits = [(v.body, pos), (v.orelse, not pos)]
            for e, under_flag in exits:
                t = norm(e)
                if t == "Dagger(self)":
                    continue
                if t == "self":
                    if under_flag is True:
                        continue
                    if any(cfg.edge_dominates(ft, "true" if norm(ft.ast.test) == "self.is_hermitian" else "false", n) for ft in flag_tests):
                        continue
                    bad.append((e, "the gate itself is returned on a path where is_hermitian was not tested true"))
                else:
                    bad.append((e, "neither the gate under its is_hermitian flag nor Dagger(self): an adjoint obtained by re-parametrising (or any other shortcut) is right for some gates only -- the adjoint of GPi2(t) is GPi2(t + pi), of U3(a, b, c) is U3(-a, -c, -b)"))
        ok = not bad and any(isinstance(n.ast, ast.Return) for n in cfg.nodes)
        ctx.check(ok, rule, dg.key + ":flag-trusted", "every exit is self under is_hermitian, or Dagger(self)", f"MatrixFactoryGate.dagger returns {short(bad[0][0]) if bad else None}: {bad[0][1] if bad else ''}", f"{dg.module.relpath}:{bad[0][0].lineno}" if bad else dg)
    else:
        ctx.ok(rule, dg.key + ":flag-trusted", "self if is_hermitian else Dagger(self)", dg)


def check_dagger_semantics(ctx, rule: str):
    """What `gate.dagger` means for every gate the library can build (shared with C08, whose circuit
    inverse is reversed order + per-gate dagger): (a) Dagger.matrix is the conjugate transpose of the
    wrapped matrix, (b) a MatrixFactoryGate is its own dagger only under its is_hermitian flag, else it
    is wrapped in Dagger, (c) every built-in gate carrying that flag really equals its conjugate
    transpose for all real parameters (exact normal-form comparison, see C02)."""
    from .c02 import hermitian_flag_obligations

    repo = ctx.repo
    mod = repo.module(GATES)
    W = "self.wrapped_gate.matrix"
    m = mod.classes["Dagger"].methods["matrix"]
    ctx.analysed(m)
    r = returned_exprs(m.node)
    ok = len(r) == 1 and norm(r[0]) in [i.replace("X", W) for i in ADJOINT_IDIOMS]
    ctx.check(ok, rule, m.key + ":adjoint", "Dagger.matrix = conjugate transpose of the wrapped matrix", f"Dagger.matrix returns {short(r[0]) if r else None}: not the conjugate transpose of the wrapped matrix (a bare transpose or bare conjugate is wrong for complex non-symmetric gates such as RY, U3, GPi2)", m)
    check_matrix_factory_dagger(ctx, rule)
    dd = mod.classes["Dagger"].methods.get("dagger")
    if dd is not None:
        r = returned_exprs(dd.node)
        ctx.check(len(r) == 1 and norm(r[0]) == "self.wrapped_gate", rule, dd.key + ":involution", "Dagger(g).dagger = g", f"Dagger.dagger returns {short(r[0]) if r else None}", dd)
    hermitian_flag_obligations(ctx, rule)
    check_flag_provenance(ctx, rule)


R7 = "C07-D7 dagger-of-power"


def check_power_dagger(ctx):
    """(g**e)^dagger = (g^dagger)**e holds for integer e, but for a fractional exponent the principal branch
    is not conjugation-symmetric on the negative real axis: for a gate with eigenvalue -1 (X, Y, Z, H, CNOT...)
    conj((-1)**0.5) = -i while (conj(-1))**0.5 = +i. Re-associating the dagger of a Power into the power of the
    dagger is therefore only sound under an integrality test of the exponent; otherwise the dagger must be
    taken of the Power's own matrix (Dagger(self))."""
    repo = ctx.repo
    m = repo.module(GATES).classes["Power"].methods["dagger"]
    ctx.analysed(m)
    rets = returned_exprs(m.node)
    own = {"Dagger(self)", "Dagger(Power(self.wrapped_gate, self.exponent))"}
    reassoc = {"self.wrapped_gate.dagger.power(self.exponent)", "Power(self.wrapped_gate.dagger, self.exponent)"}
    guarded = any(isinstance(n, (ast.If, ast.IfExp)) and ("is_integer" in norm(n.test) or "isinstance(self.exponent, int)" in norm(n.test) or "% 1" in norm(n.test) or "int(self.exponent) == self.exponent" in norm(n.test)) for n in ast.walk(m.node))
    texts = {norm(r) for r in rets}
    if texts <= own:
        ctx.ok(R7, m.key + ":fractional-exponent-branch", "dagger of a power is the adjoint of its own matrix", m)
    elif texts & reassoc and (guarded and texts & own):
        ctx.ok(R7, m.key + ":fractional-exponent-branch", "re-association into the power of the dagger only for integral exponents", m)
    elif texts & reassoc:
        ctx.violation(R7, m.key + ":fractional-exponent-branch", "Power.dagger re-associates (g**e).dagger into (g.dagger)**e for every exponent: for a fractional exponent and a gate with eigenvalue -1 the principal branch is not conjugation-symmetric, so the result's matrix is not the conjugate transpose (X.power(0.5).dagger.matrix == X.power(0.5).matrix)", m)
    else:
        ctx.undecided(R7, m.key + ":fractional-exponent-branch", f"unrecognised dagger of a power: {sorted(texts)}", m)


def run(ctx):
    from ..lints import check_caches

    check_caches(ctx, "C07-D5 no-hidden-state", ['circuits._gates'])
    check_power_dagger(ctx)
    check_dagger_semantics(ctx, "C07-D6 dagger-semantics")
    ctx.floor("C07-D6", 12)
    n = check_algebra(ctx)
    check_replace_params(ctx)
    # the leaf under every modifier stack: a base gate with new parameters is the same gate (name, factory, qubit count *and*
    # self-adjoint flag) at those parameters -- decided once, by C06-D2
    from ..common import share_rule
    from . import c06

    def _leaf(sub):
        ci = sub.repo.cls(f"{GATES}:MatrixFactoryGate")
        c06.check_replace_params(sub, ci, ci.methods["replace_params"])

    share_rule(ctx, "C06", _leaf, "C07-D1 reassociation-algebra")
    check_delegation(ctx)
    check_matrices(ctx)
    check_guard(ctx)
    if not self_check():
        ctx.undecided(R5, "lint-self-check", "embedded positive example not detected", "")
    funcs = list(ctx.repo.module(GATES).functions.values())
    check_hidden_state(ctx, R5, funcs, effects_for(ctx))
    ctx.floor("C07-D1", 24)
    ctx.floor("C07-D2", 9)
    ctx.floor("C07-D3", 6)
    ctx.floor("C07-D4", 3)
    ctx.floor("C07-D5", 60)
