"""C01 — a circuit acts as the ordered product of its gates on the named qubits."""
from __future__ import annotations

import ast
from typing import List, Optional

from ..astutil import arg_or_kw, body_walk, dotted, is_const, norm, positional_params, short, walk_local
from ..cfg import cfg_of
from ..common import exit_exprs, check_width_carried, circuit_ctor_calls, find_calls_named, ops_expr, returned_exprs, stmt_of, width_expr
from ..flow import Defs, concat_parts, is_max2
from ..orient import Orient, count_reversals, fold_direction

EXPLANATION = (
    "Structural necessary conditions of 'circuit = ordered product of its gates', decided on every path of the "
    "anchored functions: (D1) both simulators thread one state accumulator through every producer call, in "
    "forward operation order, native segments on the branch the predicate selects; split_circuit groups in order "
    "and yields (flag, subcircuit) in the positions the consumer unpacks; (D2) Circuit.to_unitary multiplies with "
    "odd orientation parity (first operation = right-most factor); (D3) concatenation keeps max width and "
    "left-operand-first order, every circuit-from-circuit construction carries the width; (D4) to_unitary refuses "
    "non-gate operations; (D5) numeric and symbolic embedding paths receive identical arguments and apply() "
    "multiplies the lifted matrix from the left; (D6) _lift_matrix places identity blocks for low indices on the "
    "left and conjugates gate by the permutation with consistent inversion parity. "
    "(D2e) a circuit without operations yields the identity (fold with an initial value or an emptiness guard)."
    ' Round 4: every exit of GateOperation.lifted_matrix is one of the two liftings (no third embedding).'
    ' Round 5: several exits are allowed only if each hands out the threaded state; (D7) the basis-vector / bit-string helpers of the embedding as decided by C04-D5; (D8) no apply / get_wavefunction step overwrites the vector it is given (effect summaries); each lifting twin has the _lift_matrix call as its only exit; a hand-written circuit splitter never yields an empty segment.'
    ' Round 6: (D9) no anchored function reads the variable of a finished loop inside a later iteration.'
    ' Round 7: the reduce(lambda vec, op: op.apply(vec), ops, state) spelling of the fold is recognised (D1).'
)
RULE_TEXT = (
    "instances = anchored functions and the call sites/expressions inside them (producer calls, accumulator "
    "assignments, Circuit constructions, fold, Kronecker list); an instance is non-trivial when an obligation was "
    "evaluated on it; distinct by (rule, function, normalised construct)"
)
ASSUMPTIONS = [
    "declined: that the Kronecker/permutation embedding equals the textbook operator entry by entry, MultiPhaseOperation's exp(i theta), numeric vs symbolic value agreement",
    "operator.matmul / reduce / np.kron have their documented semantics",
]

R1 = "C01-D1 state-threading"
R2 = "C01-D2 product-order-parity"
R3 = "C01-D3 concatenation"
R3W = "C01-D3w width-carried"
R4 = "C01-D4 non-gate-refused"
R5 = "C01-D5 embedding-paths-agree"
R6 = "C01-D6 lift-structure"


def _accumulator(fi, ctx) -> Optional[str]:
    """Name of the state accumulator: the variable the function's return value is built of."""
    rets = [r for r in returned_exprs(fi.node)]
    names = set()
    for r in rets:
        if isinstance(r, ast.Name):
            names.add(r.id)
        elif isinstance(r, ast.Call) and len(r.args) == 1 and isinstance(r.args[0], ast.Name) and not r.keywords:
            names.add(r.args[0].id)
        else:
            return None
    return names.pop() if len(names) == 1 else None


def _state_arg(call: ast.Call) -> Optional[ast.AST]:
    name = (dotted(call.func) or "").split(".")[-1]
    if name == "apply":
        return arg_or_kw(call, 0, "amplitude_vector")
    if name == "_get_wavefunction_from_native_circuit":
        return arg_or_kw(call, 1, "initial_state")
    return None


def check_threading(ctx, fi, init_param: str, allow_fresh: bool):
    ctx.analysed(fi)
    acc = _accumulator(fi, ctx)
    if acc is None:
        # several exits: the accumulator is the name the producers thread; every exit then has to hand out that name
        cand = {norm(_state_arg(c)) for c in find_calls_named(fi.node, ["apply", "_get_wavefunction_from_native_circuit"]) if isinstance(_state_arg(c), ast.Name)}
        if len(cand) == 1:
            acc = cand.pop()
            for r in exit_exprs(fi.node):
                inner = r.args[0] if isinstance(r, ast.Call) and len(r.args) == 1 and not r.keywords else r
                if not (isinstance(inner, ast.Name) and inner.id == acc):
                    ctx.violation(R1, fi.key + f":exit:{short(r, 40)}", f"an exit returns {short(r)}, which is not the threaded state '{acc}': on that path the caller's {init_param} (and whatever was applied before) is ignored", f"{fi.module.relpath}:{r.lineno}")
    if acc is None:
        ctx.undecided(R1, fi.key, "cannot identify the state accumulator from the return statements", fi)
        return
    producers = find_calls_named(fi.node, ["apply", "_get_wavefunction_from_native_circuit"])
    if not producers:
        ctx.undecided(R1, fi.key, "no state-producing call (operation.apply / native simulator call) found", fi)
        return
    for call in producers:
        where = f"{fi.module.relpath}:{call.lineno}"
        construct = f"{fi.key}:{short(call.func, 60)}"
        sarg = _state_arg(call)
        if not (isinstance(sarg, ast.Name) and sarg.id == acc):
            ctx.violation(R1, construct, f"producer call receives {short(sarg)} instead of the current state accumulator '{acc}': the state is not threaded through this step", where)
            continue
        st = stmt_of(fi.node, call)
        stored = (
            isinstance(st, ast.Assign)
            and len(st.targets) == 1
            and isinstance(st.targets[0], ast.Name)
            and st.targets[0].id == acc
            and st.value is call
        )
        if not stored:
            ctx.violation(R1, construct, f"result of the producer call is not stored back to the accumulator '{acc}' ({short(st)}): this step's effect is dropped", where)
        else:
            ctx.ok(R1, construct, f"{acc} = producer(..., {acc})", where)
    # every binding of the accumulator is a producer result, the initial-state parameter, or a fresh |0..0>
    for node in body_walk(fi.node):
        if isinstance(node, ast.Assign) and any(isinstance(t, ast.Name) and t.id == acc for t in node.targets):
            v = node.value
            where = f"{fi.module.relpath}:{node.lineno}"
            construct = f"{fi.key}:{acc}={short(v, 50)}"
            if v in producers:
                continue
            if isinstance(v, ast.Name) and v.id == init_param:
                ctx.ok(R1, construct, "accumulator initialised from the initial-state parameter", where)
            elif allow_fresh and _is_fresh_zero_state(v):
                # must be followed by acc[0] = 1
                has_one = any(
                    isinstance(s, ast.Assign)
                    and isinstance(s.targets[0], ast.Subscript)
                    and isinstance(s.targets[0].value, ast.Name)
                    and s.targets[0].value.id == acc
                    and is_const(s.targets[0].slice, 0)
                    and is_const(s.value, 1)
                    for s in body_walk(fi.node)
                )
                d = Defs(fi.node)
                sized = "circuit.n_qubits" in d.atoms(v)
                ctx.check(has_one and sized, R1, construct, "fresh |0..0> of 2**circuit.n_qubits amplitudes", f"fresh initial state is not |0..0> of the circuit's width (index-0 amplitude set: {has_one}, sized by circuit.n_qubits: {sized})", where)
            elif isinstance(v, ast.Call) and (dotted(v.func) or "").split(".")[-1] == "reduce" and len(v.args) == 3 and not v.keywords and isinstance(v.args[0], ast.Lambda) and len(v.args[0].args.args) == 2 and isinstance(v.args[2], ast.Name) and v.args[2].id == acc and isinstance(v.args[0].body, ast.Call) and isinstance(v.args[0].body.func, ast.Attribute) and v.args[0].body.func.attr == "apply" and norm(v.args[0].body.func.value) == v.args[0].args.args[1].arg and [norm(a) for a in v.args[0].body.args] == [v.args[0].args.args[0].arg] and count_reversals(v.args[1]) == 0:
                # acc = reduce(lambda vec, op: op.apply(vec), <operations in order>, acc): the same left fold as the loop, started from acc
                ctx.ok(R1, construct, "left fold of op.apply over the operations in order, started from the accumulator", where)
            else:
                ctx.violation(R1, construct, f"accumulator '{acc}' is overwritten by {short(v)}, which is neither a producer result nor the initial state", where)
    # iteration order: loops that contain producers iterate forward
    for loop in body_walk(fi.node):
        if isinstance(loop, ast.For) and any(c in list(ast.walk(loop)) for c in producers):
            where = f"{fi.module.relpath}:{loop.lineno}"
            construct = f"{fi.key}:for {short(loop.target, 30)} in {short(loop.iter, 60)}"
            flips = count_reversals(loop.iter)
            srt = any(isinstance(n, ast.Call) and (dotted(n.func) or "").split(".")[-1] in ("sorted", "shuffle", "set", "frozenset") for n in walk_local(loop.iter))
            ctx.check(flips == 0 and not srt, R1, construct, "operations visited in program order", f"operations are not visited in program order ({flips} reversal(s), reordering call: {srt})", where)


def _is_fresh_zero_state(v: ast.AST) -> bool:
    return isinstance(v, ast.Call) and (dotted(v.func) or "").split(".")[-1] in ("zeros",) and any(
        isinstance(n, ast.BinOp) and isinstance(n.op, ast.Pow) and is_const(n.left, 2) for n in walk_local(v)
    )


def check_native_split(ctx, fi):
    """The loop over split_circuit(...) routes native segments to the native call."""
    loops = [n for n in body_walk(fi.node) if isinstance(n, ast.For) and isinstance(n.iter, ast.Call) and (dotted(n.iter.func) or "").split(".")[-1] == "split_circuit"]
    if len(loops) != 1:
        ctx.undecided(R1, fi.key + ":split-loop", f"expected exactly one loop over split_circuit(...), found {len(loops)}", fi)
        return
    loop = loops[0]
    where = f"{fi.module.relpath}:{loop.lineno}"
    call = loop.iter
    c_arg, p_arg = arg_or_kw(call, 0, "circuit"), arg_or_kw(call, 1, "predicate")
    ctx.check(
        isinstance(c_arg, ast.Name) and c_arg.id == "circuit" and norm(p_arg) == "self.is_natively_supported",
        R1, fi.key + ":split-args", "split_circuit(circuit, self.is_natively_supported)",
        f"the circuit is split by {short(p_arg)} over {short(c_arg)}, not by this simulator's own native-support predicate over the whole circuit", where)
    if not (isinstance(loop.target, ast.Tuple) and len(loop.target.elts) == 2 and all(isinstance(e, ast.Name) for e in loop.target.elts)):
        ctx.undecided(R1, fi.key + ":split-target", f"loop target {short(loop.target)} is not a (flag, subcircuit) pair", where)
        return
    flag, sub = loop.target.elts[0].id, loop.target.elts[1].id
    ifs = [s for s in loop.body if isinstance(s, ast.If)]
    if len(ifs) != 1:
        ctx.undecided(R1, fi.key + ":split-branch", "expected one native/non-native branch in the loop body", where)
        return
    br = ifs[0]
    test = br.test
    negated = isinstance(test, ast.UnaryOp) and isinstance(test.op, ast.Not)
    core = test.operand if negated else test
    if not (isinstance(core, ast.Name) and core.id == flag):
        ctx.undecided(R1, fi.key + ":split-branch", f"branch test {short(test)} is not the predicate flag '{flag}'", where)
        return
    native_body, other_body = (br.orelse, br.body) if negated else (br.body, br.orelse)
    native_calls = [c for s in native_body for c in walk_local(s) if isinstance(c, ast.Call) and (dotted(c.func) or "").endswith("_get_wavefunction_from_native_circuit")]
    apply_calls = [c for s in other_body for c in walk_local(s) if isinstance(c, ast.Call) and (dotted(c.func) or "").split(".")[-1] == "apply"]
    wrong_native = [c for s in other_body for c in walk_local(s) if isinstance(c, ast.Call) and (dotted(c.func) or "").endswith("_get_wavefunction_from_native_circuit")]
    ok = bool(native_calls) and bool(apply_calls) and not wrong_native
    ctx.check(ok, R1, fi.key + ":split-branch", "native segments go to the native call, the others are applied operation by operation",
              "native/non-native segments are routed to the wrong branch", where)
    for c in native_calls:
        a0 = arg_or_kw(c, 0, "circuit")
        ctx.check(isinstance(a0, ast.Name) and a0.id == sub, R1, fi.key + ":native-arg", "native call receives the segment", f"native call receives {short(a0)} instead of the current segment '{sub}'", where)
    # the non-native branch iterates the segment's operations
    for s in other_body:
        for n in walk_local(s):
            if isinstance(n, ast.For) and any(c in list(ast.walk(n)) for c in apply_calls):
                ctx.check(norm(n.iter) == f"{sub}.operations", R1, fi.key + ":segment-iter", "non-native segment applied operation by operation",
                          f"non-native branch iterates {short(n.iter)} instead of the segment's operations", f"{fi.module.relpath}:{n.lineno}")


def check_split_circuit(ctx):
    fi = ctx.repo.func("circuits._circuit:split_circuit")
    ctx.analysed(fi)
    loops = [n for n in body_walk(fi.node) if isinstance(n, ast.For)]
    gb = [l for l in loops if isinstance(l.iter, ast.Call) and (dotted(l.iter.func) or "").split(".")[-1] == "groupby"]
    if len(gb) != 1:
        # hand-written run splitting: a chunk list that is flushed whenever the flag flips. Every segment handed out must hold at
        # least one operation -- an empty segment is an extra (empty) job for the native simulator, counted as a run
        plain = [l for l in loops if norm(l.iter) == "circuit.operations"]
        if len(plain) == 1:
            d = Defs(fi.node)
            loop = plain[0]
            for y in [n for n in ast.walk(loop) if isinstance(n, ast.Yield)]:
                v = y.value
                circ = v.elts[1] if isinstance(v, ast.Tuple) and len(v.elts) == 2 else None
                chunk = ops_expr(circ) if isinstance(circ, ast.Call) else None
                if not isinstance(chunk, ast.Name):
                    continue
                starts_empty = any(isinstance(x, (ast.List,)) and not x.elts for x in d.defs.get(chunk.id, []) if isinstance(x, ast.AST))
                guards = []
                cur = y
                parents = {ch: n for n in ast.walk(loop) for ch in ast.iter_child_nodes(n)}
                while cur in parents:
                    cur = parents[cur]
                    if isinstance(cur, ast.If):
                        guards.append(cur.test)
                nonempty_guard = any(any(isinstance(x, ast.Name) and x.id == chunk.id for x in ast.walk(t)) for t in guards)
                if starts_empty and not nonempty_guard:
                    ctx.violation(R1, fi.key + ":no-empty-segment", f"`{short(v, 80)}` inside the loop hands out the chunk `{chunk.id}`, which starts empty, without testing that it holds an operation: when the first operation's flag differs from the initial flag, an empty leading segment is produced -- an extra empty circuit sent to the native simulator and counted as an executed job", f"{fi.module.relpath}:{y.lineno}")
                    return
        ctx.undecided(R1, fi.key, "expected one loop over itertools.groupby", fi)
        return
    loop = gb[0]
    where = f"{fi.module.relpath}:{loop.lineno}"
    it, key = arg_or_kw(loop.iter, 0, "iterable"), arg_or_kw(loop.iter, 1, "key")
    ctx.check(norm(it) == "circuit.operations" and isinstance(key, ast.Name) and key.id == "predicate", R1, fi.key + ":groupby",
              "groupby(circuit.operations, predicate): consecutive runs in program order",
              f"operations are grouped as groupby({short(it)}, {short(key)}): not consecutive runs of the circuit's operations under the predicate", where)
    ys = [n for n in ast.walk(loop) if isinstance(n, ast.Yield)]
    if len(ys) != 1 or not isinstance(ys[0].value, ast.Tuple) or len(ys[0].value.elts) != 2 or not isinstance(loop.target, ast.Tuple):
        ctx.undecided(R1, fi.key + ":yield", "expected `yield flag, Circuit(group, ...)`", where)
        return
    k, g = [norm(e) for e in loop.target.elts]
    y0, y1 = ys[0].value.elts
    ok = norm(y0) == k and isinstance(y1, ast.Call) and norm(ops_expr(y1)) == g
    ctx.check(ok, R1, fi.key + ":yield", "yields (predicate value, Circuit(run))", f"yield {short(ys[0].value)} does not pair the predicate value with a circuit of that run", where)
    check_width_carried(ctx, R3W, fi, ["circuit.n_qubits", "circuit._n_qubits"])


def check_to_unitary(ctx):
    fi = ctx.repo.func("circuits._circuit:Circuit.to_unitary")
    ctx.analysed(fi)
    rets = returned_exprs(fi.node)
    folds = [r for r in rets if fold_direction(fi.node, r) is not None]
    # an identity returned for the empty product is the only other exit accepted
    def _is_identity(r):
        return isinstance(r, ast.Call) and (dotted(r.func) or "").split(".")[-1] in ("eye", "identity") and r.args and "n_qubits" in norm(r.args[0]) and "2 **" in norm(r.args[0])
    idents = [r for r in rets if _is_identity(r)]
    if len(folds) != 1 or len(rets) != 1 + len(idents):
        ctx.undecided(R2, fi.key, f"return value {short(rets[0]) if rets else ''} is not a recognised matrix-product fold (reduce(operator.matmul, xs) / lambda fold)", fi)
        return
    fold = folds[0]
    where = f"{fi.module.relpath}:{fold.lineno}"
    # the empty product: a circuit without operations (idle register) denotes the identity; reduce() without an initial value
    # raises TypeError on an empty sequence instead
    has_init = len(fold.args) >= 3
    guarded = bool(idents) and any(isinstance(n, ast.If) and any(x in norm(n.test) for x in ("not lifted", "not self.operations", "not self._operations", "len(")) and any(any(y is i for y in ast.walk(b)) for b in n.body for i in idents) for n in body_walk(fi.node))
    ctx.check(has_init or guarded, R2, fi.key + ":empty-product", "a circuit without operations has the identity as its matrix", "the matrix product is folded without an initial value and without a guard for the empty case: Circuit(n_qubits=2).to_unitary() raises TypeError (reduce() of empty iterable) instead of returning the identity on the register", where)
    fd = fold_direction(fi.node, fold)
    o = Orient(fi.node, lambda e: norm(e) in ("self.operations", "self._operations"))
    p = o.parity(fold.args[1])
    if p is None:
        ctx.undecided(R2, fi.key, f"cannot follow the factor list {short(fold.args[1])} back to self.operations (trace: {o.trace})", where)
    else:
        total = (p + fd) % 2
        ctx.check(total == 1, R2, fi.key, f"orientation parity odd: first operation is the right-most factor (trace: {o.trace}, fold direction {fd})",
                  f"orientation parity from self.operations to the matrix product is even: the first operation ends up as the LEFT-most factor, i.e. the product is taken in reverse program order (trace: {o.trace}, fold direction {fd})", where)
    # each factor is the operation's lifted matrix on the circuit's own width
    lifts = find_calls_named(fi.node, ["lifted_matrix"])
    if not lifts:
        ctx.undecided(R2, fi.key + ":lift", "no call to <operation>.lifted_matrix found", fi)
    for c in lifts:
        a = arg_or_kw(c, 0, "num_qubits")
        ctx.check(norm(a) in ("self.n_qubits", "self._n_qubits"), R2, fi.key + ":lift-width", "every factor is lifted to the circuit's width",
                  f"factor lifted to {short(a)} instead of the circuit's width", f"{fi.module.relpath}:{c.lineno}")
    # D4: non-gate operations refused
    cfg = cfg_of(fi.node)
    tests = [n for n in cfg.nodes if n.kind == "test" and isinstance(n.ast, ast.If) and "isinstance" in norm(n.ast.test) and "GateOperation" in norm(n.ast.test)]
    if not tests:
        # alternative: all(isinstance(...)) guard before the product
        guards = [n for n in cfg.nodes if n.kind == "test" and "GateOperation" in norm(own(n))]
        ctx.undecided(R4, fi.key, "no isinstance(op, GateOperation) test found in to_unitary", fi) if not guards else None
    for t in tests:
        test = t.ast.test
        negated = isinstance(test, ast.UnaryOp) and isinstance(test.op, ast.Not)
        refuse_label = "true" if negated else "false"
        targets = [n for n, lab in t.succ if lab == refuse_label]
        refuses = bool(targets) and all(_leads_to_raise_only(cfg, x) for x in targets)
        ctx.check(refuses, R4, fi.key, "the non-gate arm has no normal exit (raises)", "an operation that is not a GateOperation is not refused: to_unitary continues past it", f"{fi.module.relpath}:{t.lineno}")


def own(n):
    from ..cfg import own_parts

    parts = own_parts(n)
    return parts[0] if parts else None


def _leads_to_raise_only(cfg, node) -> bool:
    """From ``node`` following non-exceptional edges, a Raise is reached before anything else."""
    cur = node
    seen = set()
    while cur not in seen:
        seen.add(cur)
        if isinstance(cur.ast, ast.Raise):
            return True
        nxt = [n for n, lab in cur.succ if lab != "exc"]
        if len(nxt) != 1:
            return False
        cur = nxt[0]
    return False


def check_append(ctx):
    repo = ctx.repo
    add = repo.func("circuits._circuit:Circuit.__add__")
    disp = repo.func("circuits._circuit:_append_to_circuit")
    ctx.analysed(add, disp)
    calls = find_calls_named(add.node, [disp.name])
    if len(calls) != 1:
        ctx.undecided(R3, add.key, "Circuit.__add__ does not delegate to the _append_to_circuit dispatcher", add)
        return
    call = calls[0]
    params = positional_params(disp.node)
    left_idx = right_idx = None
    for i, a in enumerate(call.args):
        if isinstance(a, ast.Name) and a.id == "self":
            left_idx = i
        elif isinstance(a, ast.Name) and a.id == positional_params(add.node)[1]:
            right_idx = i
    if left_idx is None or right_idx is None:
        ctx.undecided(R3, add.key, f"cannot map self/other to dispatcher parameters in {short(call)}", add)
        return
    ctx.check(right_idx == 0, R3, add.key + ":dispatch-on-right-operand", "dispatch is on the right operand", "the single-dispatch argument is not the right operand: an operation/circuit on the right is routed by the type of the left one", add)
    arms = repo.registry(disp)
    if len(arms) < 2:
        ctx.undecided(R3, disp.key, f"expected >=2 registered arms (operation, circuit), found {len(arms)}", disp)
        return
    for _type, arm in arms:
        ctx.analysed(arm)
        ps = positional_params(arm.node)
        left, right = ps[left_idx], ps[right_idx]
        ctors = circuit_ctor_calls(repo, arm)
        if len(ctors) != 1:
            ctx.undecided(R3, arm.key, f"expected one Circuit construction, found {len(ctors)}", arm)
            continue
        c = ctors[0]
        where = f"{arm.module.relpath}:{c.lineno}"
        d = Defs(arm.node)
        # --- every path returns that construction (no shortcut returning an operand as it is: its
        #     width and operations would bypass the max/concatenation)
        rets_all = [r for r in body_walk(arm.node) if isinstance(r, ast.Return)]
        shortcuts = [r for r in rets_all if not (r.value is c or (isinstance(r.value, ast.Name) and any(v is c for v in d.defs.get(r.value.id, []))))]
        ctx.check(not shortcuts, R3, arm.key + ":all-paths-construct", "every return is the max-width concatenation", f"a path returns `{short(shortcuts[0].value) if shortcuts and shortcuts[0].value is not None else 'None'}` instead of the concatenated circuit: on that path the result does not get max(width of left, width of right) (e.g. adding an empty but wider circuit)", f"{arm.module.relpath}:{shortcuts[0].lineno}" if shortcuts else where)
        # --- width = max(left width, right width)
        w = width_expr(c)
        mx = is_max2(w) if w is not None else None
        if w is None:
            ctx.violation(R3, arm.key + ":width", "concatenation builds the circuit without an explicit width", where)
        elif mx is None:
            ctx.violation(R3, arm.key + ":width", f"width {short(w)} is not the maximum of the two operands' widths", where)
        else:
            a0, a1 = d.atoms(mx[0]), d.atoms(mx[1])
            lw = {f"{left}.n_qubits", f"{left}._n_qubits"}
            rw = {f"{right}.n_qubits", f"{right}._n_qubits", f"{right}.qubit_indices"}
            ok = (a0 & lw and a1 & rw) or (a1 & lw and a0 & rw)
            ctx.check(bool(ok), R3, arm.key + ":width", f"width = max({short(mx[0])}, {short(mx[1])})", f"max({short(mx[0])}, {short(mx[1])}) does not combine the left operand's width with the right operand's", where)
            # right operand is an operation: its width is max(index)+1
            for side in mx:
                at = d.atoms(side)
                if f"{right}.qubit_indices" in at:
                    ok_w = _is_max_index_plus_one(d, side, f"{right}.qubit_indices")
                    ctx.check(ok_w, R3, arm.key + ":op-width", "an operation needs max(qubit_indices)+1 qubits", f"width needed by the appended operation is computed as {short(_expand(d, side))}, not max(qubit_indices)+1", where)
        # --- order: left operand's operations first
        ops = ops_expr(c)
        parts = concat_parts(ops) if ops is not None else None
        if not parts or len(parts) != 2:
            ctx.undecided(R3, arm.key + ":order", f"operations {short(ops)} are not a two-part concatenation", where)
        else:
            p0, p1 = d.atoms(parts[0]), d.atoms(parts[1])
            ok = (f"{left}.operations" in p0 or f"{left}._operations" in p0) and (right in p1)
            rev = count_reversals(ops)
            ctx.check(ok and rev == 0, R3, arm.key + ":order", f"[left.operations..., right...] in that order", f"operations are concatenated as {short(ops)}: the left operand's operations do not come first, in order", where)


def _expand(d: Defs, e: ast.AST) -> ast.AST:
    if isinstance(e, ast.Name):
        s = d.single_def(e.id)
        if isinstance(s, ast.AST):
            return s
    return e


def _is_max_index_plus_one(d: Defs, e: ast.AST, src: str) -> bool:
    e = _expand(d, e)
    if isinstance(e, ast.BinOp) and isinstance(e.op, ast.Add):
        for a, b in ((e.left, e.right), (e.right, e.left)):
            if is_const(b, 1) and isinstance(a, ast.Call) and dotted(a.func) == "max" and len(a.args) == 1 and norm(a.args[0]) == src:
                return True
    return False


def check_embedding_paths(ctx):
    repo = ctx.repo
    fi = repo.func("circuits._gates:GateOperation.lifted_matrix")
    ctx.analysed(fi)
    calls = [c for c in body_walk(fi.node) if isinstance(c, ast.Call) and (dotted(c.func) or "").startswith("_lift_matrix")]
    if len(calls) < 2:
        ctx.undecided(R5, fi.key, "expected the numeric and the symbolic lifting call", fi)
    else:
        argsets = {tuple(norm(a) for a in c.args) + tuple(sorted((k.arg, norm(k.value)) for k in c.keywords)) for c in calls}
        ctx.check(len(argsets) == 1, R5, fi.key, f"both paths lift {sorted(argsets)[0]}", f"numeric and symbolic lifting receive different arguments: {sorted(argsets)}", fi)
        for c in calls:
            ok = len(c.args) == 3 and norm(c.args[0]) == "self.gate.matrix" and norm(c.args[1]) == "self.qubit_indices" and norm(c.args[2]) == positional_params(fi.node)[1]
            ctx.check(ok, R5, fi.key + ":" + dotted(c.func), "(gate matrix, qubit indices, register width)", f"lifting call {short(c)} does not pass (self.gate.matrix, self.qubit_indices, num_qubits)", f"{fi.module.relpath}:{c.lineno}")
    # every exit of lifted_matrix is one of the two liftings: an exit that builds the embedding some other way (a shortcut for
    # "easy" qubit placements, say) is a third implementation that nothing here has related to _lift_matrix
    exits = []
    for r in returned_exprs(fi.node):
        stack = [r]
        while stack:
            e = stack.pop()
            if isinstance(e, ast.IfExp):
                stack += [e.body, e.orelse]
            else:
                exits.append(e)
    d5 = Defs(fi.node)
    foreign = []
    for e in exits:
        v = e
        if isinstance(v, ast.Name):
            ds = [x for x in d5.defs.get(v.id, []) if isinstance(x, ast.AST)]
            vs = ds if ds else [v]
        else:
            vs = [v]
        for x in vs:
            if not (isinstance(x, ast.Call) and (dotted(x.func) or "").split(".")[-1] in ("_lift_matrix_numpy", "_lift_matrix_sympy", "_lift_matrix")):
                foreign.append(x)
    ctx.check(not foreign, R5, fi.key + ":exits", f"all {len(exits)} exits return one of the two liftings", f"lifted_matrix also returns {short(foreign[0], 100) if foreign else ''}: an embedding built outside _lift_matrix (the only construction whose Kronecker order and permutation are analysed), so the placement of the gate depends on which exit is taken", f"{fi.module.relpath}:{foreign[0].lineno}" if foreign else fi)
    for name in ("_lift_matrix_numpy", "_lift_matrix_sympy"):
        w = repo.func(f"circuits._unitary_tools:{name}")
        ctx.analysed(w)
        inner = [c for c in body_walk(w.node) if isinstance(c, ast.Call) and dotted(c.func) == "_lift_matrix"]
        ps = positional_params(w.node)
        if len(inner) != 1:
            ctx.undecided(R5, w.key, "expected one call to _lift_matrix", w)
            continue
        c = inner[0]
        # ... on every exit: a twin that answers some placements itself (a "contiguous block" shortcut) is a second embedding
        other_exits = [r for r in exit_exprs(w.node) if not any(x is c for x in ast.walk(r))]
        ctx.check(not other_exits, R5, w.key + ":exits", "the only exit is the _lift_matrix call", f"{name} also returns {short(other_exits[0], 90) if other_exits else ''}: an embedding built without _lift_matrix's permutation, so gates whose qubits are not listed in ascending order (CNOT(1, 0), a control inserted above its target) are placed differently on this path than on the numeric one", f"{w.module.relpath}:{other_exits[0].lineno}" if other_exits else w)
        ok = len(c.args) >= 3 and [norm(a) for a in c.args[:3]] == ps[:3]
        ctx.check(ok, R5, w.key, "forwards (matrix, qubits, num_qubits) in order", f"{short(c, 80)} does not forward (matrix, qubits, num_qubits) in that order", w)
        # ... and forwards them *as received*: the two twins are one interface over two number types, so what one of them
        # does to the index tuple (or to the matrix beyond a type conversion) the other would have to do as well
        rebound = []
        for st in body_walk(w.node):
            tgts = []
            if isinstance(st, ast.Assign):
                tgts = [t for tg in st.targets for t in ast.walk(tg) if isinstance(t, ast.Name)]
            elif isinstance(st, (ast.AugAssign, ast.AnnAssign)) and isinstance(st.target, ast.Name):
                tgts = [st.target]
            for t in tgts:
                if t.id in ps[1:3]:
                    rebound.append((t.id, st))
                elif t.id == ps[0]:
                    v = getattr(st, "value", None)
                    conv = isinstance(st, ast.Assign) and len(st.targets) == 1 and isinstance(st.targets[0], ast.Name) and isinstance(v, ast.Call) and (dotted(v.func) or "").split(".")[-1] in ("array", "asarray", "Matrix", "ImmutableMatrix") and v.args and norm(v.args[0]) == ps[0]
                    if not conv:
                        rebound.append((t.id, st))
        ctx.check(not rebound, R5, w.key + ":as-received", "matrix (up to a type conversion), qubit tuple and width are forwarded as received", f"{name} rewrites `{rebound[0][0]}` ({short(rebound[0][1], 70)}) before embedding while its twin embeds the arguments as received: the numeric and the symbolic path of GateOperation.lifted_matrix then place the same gate differently unless that rewrite is exactly compensated (a permutation applied with the wrong direction only shows for gates on three or more cyclically ordered qubits)" if rebound else "", f"{w.module.relpath}:{rebound[0][1].lineno}" if rebound else w)
    ap = repo.func("circuits._gates:GateOperation.apply")
    ctx.analysed(ap)
    rets = returned_exprs(ap.node)
    ok = len(rets) == 1 and isinstance(rets[0], ast.BinOp) and isinstance(rets[0].op, ast.MatMult) and "lifted_matrix" in norm(rets[0].left) and norm(rets[0].right) == positional_params(ap.node)[1]
    ctx.check(ok, R5, ap.key, "apply = lifted_matrix @ state", f"apply returns {short(rets[0]) if rets else None}: not the lifted matrix applied from the left to the given state", ap)


def check_lift_structure(ctx):
    repo = ctx.repo
    fi = repo.func("circuits._unitary_tools:_lift_matrix")
    ctx.analysed(fi)
    d = Defs(fi.node)
    rets = returned_exprs(fi.node)
    # outer Kronecker chain: [eye(2**smallest), inner, eye(2**(num_qubits-largest-1))]
    ok_outer = False
    detail = "return is not reduce(kronecker_product, [eye(low), inner, eye(high)])"
    if len(rets) == 1 and isinstance(rets[0], ast.Call) and (dotted(rets[0].func) or "").split(".")[-1] == "reduce" and len(rets[0].args) == 2 and isinstance(rets[0].args[1], (ast.List, ast.Tuple)) and len(rets[0].args[1].elts) == 3:
        lo, mid, hi = rets[0].args[1].elts
        lo_a, hi_a = d.atoms(lo), d.atoms(hi)
        lo_ok = "call:eye" in lo_a and "call:min" in lo_a and "num_qubits" not in lo_a
        hi_ok = "call:eye" in hi_a and "num_qubits" in hi_a and "call:max" in hi_a
        mid_ok = "call:eye" not in {a for a in d.atoms(mid) if False} and isinstance(mid, ast.Name)
        ok_outer = lo_ok and hi_ok and mid_ok
        detail = f"outer Kronecker list is [{short(lo, 30)}, {short(mid, 30)}, {short(hi, 30)}]: identity for qubits below the smallest index must come first and for qubits above the largest last (qubit 0 = most significant)"
    ctx.check(ok_outer, R6, fi.key + ":outer-kron", "[eye(2**smallest), inner, eye(2**(n-largest-1))]", detail, fi)
    # inversion parity of the permutation conjugation
    conj = None
    for n in body_walk(fi.node):
        if isinstance(n, ast.BinOp) and isinstance(n.op, ast.MatMult) and isinstance(n.left, ast.BinOp) and isinstance(n.left.op, ast.MatMult):
            conj = n
            break
    perm_fi = repo.func("circuits._unitary_tools:_permutation_matrix")
    permute_fi = repo.func("circuits._unitary_tools:_permute")
    adj_fi = repo.func("circuits._unitary_tools:_permutation_making_qubits_adjacent")
    ctx.analysed(perm_fi, permute_fi, adj_fi)
    if conj is None:
        ctx.undecided(R6, fi.key + ":conjugation", "no A @ G @ B conjugation found", fi)
        return
    A, G, B = conj.left.left, conj.left.right, conj.right

    def transposed(e):
        if isinstance(e, ast.Call) and isinstance(e.func, ast.Attribute) and e.func.attr == "transpose" and not e.args:
            return e.func.value
        if isinstance(e, ast.Attribute) and e.attr == "T":
            return e.value
        return None

    tA, tB = transposed(A), transposed(B)
    if tA is not None and tB is None and norm(tA) == norm(B):
        conj_bit, P = 0, B
    elif tB is not None and tA is None and norm(tB) == norm(A):
        conj_bit, P = 1, A
    else:
        ctx.violation(R6, fi.key + ":conjugation", f"{short(conj)} is not a conjugation P^T @ G @ P (or P @ G @ P^T) by one permutation matrix", f"{fi.module.relpath}:{conj.lineno}")
        return
    # fill axis of the permutation matrix: perm[:, i] = column (0) / perm[i, :] = row (1)
    fill_bit = None
    for n in body_walk(perm_fi.node):
        if isinstance(n, ast.Assign) and isinstance(n.targets[0], ast.Subscript) and isinstance(n.targets[0].slice, ast.Tuple) and len(n.targets[0].slice.elts) == 2:
            e0, e1 = n.targets[0].slice.elts
            if isinstance(e0, ast.Slice) and not isinstance(e1, ast.Slice):
                fill_bit = 0
            elif isinstance(e1, ast.Slice) and not isinstance(e0, ast.Slice):
                fill_bit = 1
    # gather (0) vs scatter (1) in _permute
    gather_bit = None
    prets = returned_exprs(permute_fi.node)
    pp = positional_params(permute_fi.node)
    if len(prets) == 1 and isinstance(prets[0], ast.ListComp) and len(prets[0].generators) == 1:
        comp = prets[0]
        if isinstance(comp.elt, ast.Subscript) and norm(comp.elt.value) == pp[0] and norm(comp.generators[0].iter) == pp[1] and norm(comp.elt.slice) == norm(comp.generators[0].target):
            gather_bit = 0
    # which argument order does _permutation_matrix use for _permute(input_state, order)?
    pcalls = [c for c in body_walk(perm_fi.node) if isinstance(c, ast.Call) and dotted(c.func) == "_permute"]
    order_ok = len(pcalls) == 1 and len(pcalls[0].args) == 2 and norm(pcalls[0].args[1]) == positional_params(perm_fi.node)[0]
    # active-first agreement: adjacency permutation lists qubit_indices first; inner kron has matrix first
    arets = returned_exprs(adj_fi.node)
    adj_first = None
    if len(arets) == 1:
        parts = concat_parts(arets[0])
        if parts and len(parts) == 2:
            a0 = positional_params(adj_fi.node)[0]
            if a0 in {x.id for x in walk_local(parts[0]) if isinstance(x, ast.Name)} and not isinstance(parts[0], ast.ListComp):
                adj_first = 0
            elif a0 in {x.id for x in walk_local(parts[1]) if isinstance(x, ast.Name)} and not isinstance(parts[1], ast.ListComp):
                adj_first = 1
    kron_first = None
    Gd = _expand(d, G)
    if isinstance(Gd, ast.Call) and len(Gd.args) == 2:
        if norm(Gd.args[0]) == "matrix":
            kron_first = 0
        elif norm(Gd.args[1]) == "matrix":
            kron_first = 1
    bits = {"conjugation": conj_bit, "fill-axis": fill_bit, "gather": gather_bit}
    if None in bits.values() or not order_ok or adj_first is None or kron_first is None:
        ctx.undecided(R6, fi.key + ":conjugation", f"permutation construction has an unrecognised shape: {bits}, permute-arg-order-ok={order_ok}, active-first perm={adj_first} kron={kron_first}", fi)
        return
    ctx.check(sum(bits.values()) % 2 == 0, R6, fi.key + ":conjugation", f"P^T G P with column-filled gather permutation (inversion parity even: {bits})",
              f"the permutation is inverted an odd number of times between its construction and the conjugation ({bits}): gates on 3+ qubits with cyclically permuted indices act on the wrong qubits", f"{fi.module.relpath}:{conj.lineno}")
    ctx.check(adj_first == kron_first, R6, fi.key + ":active-block", "active qubits are first both in the permutation and in the Kronecker factor",
              f"the permutation brings the gate's qubits to the {'front' if adj_first == 0 else 'back'} but the gate matrix is the {'first' if kron_first == 0 else 'last'} Kronecker factor", fi)
    # shifted indices relative to smallest, block size largest-smallest+1
    sh = d.defs.get("shifted_qubits", [])
    ok_shift = any(isinstance(x, ast.ListComp) and isinstance(x.elt, ast.BinOp) and isinstance(x.elt.op, ast.Sub) and norm(x.elt.right) == "smallest" for x in sh)
    ctx.check(ok_shift, R6, fi.key + ":shift", "indices shifted by the smallest index", "qubit indices are not shifted by the smallest index before building the inner permutation", fi)


def run(ctx):
    from ..lints import check_stale_loop_variables

    check_stale_loop_variables(ctx, "C01-D9 loop-variables", ['circuits._circuit', 'circuits._unitary_tools', 'circuits._gates', 'circuits._operations', 'circuits._wavefunction_operations', 'api.wavefunction_simulator', 'runners.symbolic_simulator'])
    repo = ctx.repo
    base = repo.func("api.wavefunction_simulator:BaseWavefunctionSimulator.get_wavefunction")
    check_threading(ctx, base, "initial_state", allow_fresh=True)
    check_native_split(ctx, base)
    sym = repo.func("runners.symbolic_simulator:SymbolicSimulator._get_wavefunction_from_native_circuit")
    check_threading(ctx, sym, "initial_state", allow_fresh=False)
    # any other subclass implementing the native hook inside src gets the same rule
    for fi in repo.methods_named("_get_wavefunction_from_native_circuit"):
        if fi.key not in (sym.key,) and fi.cls is not None and fi.cls.name != "BaseWavefunctionSimulator" and fi.module.name not in ("testing.mocks",):
            if any(isinstance(n, ast.Return) and n.value is not None for n in body_walk(fi.node)):
                check_threading(ctx, fi, positional_params(fi.node)[2] if len(positional_params(fi.node)) > 2 else "initial_state", allow_fresh=False)
    check_split_circuit(ctx)
    check_to_unitary(ctx)
    check_append(ctx)
    check_width_carried(ctx, R3W, repo.func("circuits._circuit:Circuit.bind"), ["self.n_qubits", "self._n_qubits"])
    check_width_carried(ctx, R3W, repo.func("circuits._circuit:Circuit.inverse"), ["self.n_qubits", "self._n_qubits"])
    check_embedding_paths(ctx)
    check_lift_structure(ctx)
    # the permutation matrices of the embedding are assembled from basis vectors / bit strings built by helpers whose bit order
    # C04-D5 decides (qubit 0 = leftmost factor); the circuit product is only the ordered product if they keep that order
    from ..common import share_rule
    from . import c04, c20

    share_rule(ctx, "C04", c04.check_embedding_helpers, "C01-D7 embedding-helpers")
    ctx.floor("C01-D7", 4)
    # evaluating a circuit twice on the same initial state gives the same state: no step may overwrite the vector it is given
    eff = c20.effects_for(ctx)
    appliers = [f for f in repo.methods_named("apply") if f.module.name.startswith("circuits.")] + [base, sym]
    c20.mutation_obligations(ctx, "C01-D8 state-not-overwritten", appliers, eff)
    ctx.floor("C01-D8", 4)
    ctx.floor("C01-D1", 8)
    ctx.floor("C01-D2", 2)
    ctx.floor("C01-D3", 9)
    ctx.floor("C01-D4", 1)
    ctx.floor("C01-D5", 5)
    ctx.floor("C01-D6", 4)
