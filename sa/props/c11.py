"""C11 — operators and result artefacts survive dict, file and text round trips."""
from __future__ import annotations

import ast
import re
from typing import Dict, List, Optional, Set, Tuple

from ..astutil import arg_or_kw, body_walk, const_str, const_value, dotted, norm, positional_params, short, walk_local
from ..common import returned_exprs
from ..flow import Defs
from ..records import check_pair, loader_accepts_path_and_file

EXPLANATION = (
    "(D1) SCHEMA: for each of the 15 persisted artefact records (operator dict incl. nested terms/pauli_ops/"
    "coefficient, operator set, measurements, expectation values, parities, value estimate, array<->real/imag, "
    "list, layers, connectivity, ordering, measurement-count estimate) every key the loader requires is written "
    "unconditionally by the saver, every key the saver can emit is consumed (derived/constant keys allow-listed by "
    "name), and each conditionally written key is guarded only by a condition on the value it stores; "
    "(D2) every load function accepts a path and an open file and is wired to the matching from_dict, every save "
    "function dumps the matching to_dict; (D3) GRAMMAR: every token shape the printers of PauliTerm/PauliSum can emit "
    "(operator+index tokens over the allowed operator letters, the bare identity, the '*' and ' + ' separators, "
    "coefficient first and printed unrounded) is accepted by the parser's own regular expressions and position "
    "conventions; (D4) slot agreement of (qubit, op) pairs and real/imag parts across writer, reader and "
    "PauliTerm.from_iterable; tuples restored for bitstrings, layers and connectivity. "
    "(D2p) a loader that branches on the source's type treats every kind of path its ensure_open-based siblings accept (str / os.PathLike) as a path; (D5o) no one-sided comparison decides whether an imaginary part is negligible."
    ' Round 4: presence of a scalar record member is not decided by its truthiness; a loop over fixed member names examines every name; (D6) savers, loaders and record converters keep no module-level state and store nothing on their arguments.'
    ' Round 5: save_list stores the list as given; optional members are not splatted positionally from a filtered sequence; (D7) the operator reader re-assembles through simplify(), decided by C03-D5.'
    " Round 6: the sum parser's text rewriting (re.sub / replace before the split) is replayed on printed sums covering every shape repr() gives a coefficient below 1e15, exponent notation included (D3); every path of Measurements.save writes each bit as int unless a test looked at every bit of every shot (D4); presence of optional list members (frames) is decided with `is not None` on both the writer and the reader side -- an empty list of frames is data (D5; defect repaired in /repo ba502eb); (D8) stale loop variables."
    ' Round 7: optional numbers on the writer side (D5); functools caches on printers / parsers / savers (D6).'
)
RULE_TEXT = "instances = record keys per saver/loader pair, loaders, printer tokens, slots; distinct by (rule, construct)"
ASSUMPTIONS = [
    "declined: float/complex text round trip through repr/complex()/JSON, tolerance equality of matrices (depend on CPython and rapidjson, not on this source)",
    "regular expressions extracted from the parser are evaluated by the stdlib `re` on printer tokens extracted from the printer (constant folding of literals, no repo code is run)",
]

R1 = "C11-D1 record-keys"
R1G = "C11-D1g guard-relevance"
R2 = "C11-D2 loader-interface"
R3 = "C11-D3 printer-subset-of-parser"
R4 = "C11-D4 slot-agreement"

OPS = "operators._pauli_operators"
OIO = "operators._io"

PAIRS = [
    ("operator-dict", f"{OIO}:convert_op_to_dict", f"{OIO}:convert_dict_to_op", "dictionary", {}),
    ("operator-file", f"{OIO}:save_operator", f"{OIO}:load_operator", None, {}),
    ("operator-set", f"{OIO}:save_operator_set", f"{OIO}:load_operator_set", None, {}),
    ("measurements", "measurements.measurements:Measurements.save", "measurements.measurements:Measurements.load_from_file", None, {("counts",): "derived from bitstrings (get_counts)"}),
    ("expectation-values", "measurements.expectation_values:ExpectationValues.to_dict", "measurements.expectation_values:ExpectationValues.from_dict", "dictionary", {("frames",): "constant empty list kept for format compatibility"}),
    ("parities", "measurements.parities:Parities.to_dict", "measurements.parities:Parities.from_dict", "data", {}),
    ("value-estimate", "utils:ValueEstimate.to_dict", "utils:ValueEstimate.from_dict", "dictionary", {}),
    ("array", "utils:convert_array_to_dict", "utils:convert_dict_to_array", "dictionary", {}),
    ("list", "utils:save_list", "utils:load_list", None, {}),
    ("circuit-layers", "circuits.layouts:CircuitLayers.to_dict", "circuits.layouts:CircuitLayers.from_dict", "data", {}),
    ("circuit-connectivity", "circuits.layouts:CircuitConnectivity.to_dict", "circuits.layouts:CircuitConnectivity.from_dict", "data", {}),
    ("circuit-ordering", "circuits.layouts:save_circuit_ordering", "circuits.layouts:load_circuit_ordering", None, {}),
    ("nmeas-estimate", "utils:save_nmeas_estimate", "utils:load_nmeas_estimate", None, {}),
]

LOADERS = [
    f"{OIO}:load_operator", f"{OIO}:load_operator_set", "measurements.measurements:Measurements.load_from_file",
    "measurements.expectation_values:load_expectation_values", "measurements.parities:load_parities", "utils:load_value_estimate",
    "utils:load_list", "utils:load_nmeas_estimate", "circuits.layouts:load_circuit_layers", "circuits.layouts:load_circuit_ordering",
    "circuits.layouts:load_circuit_connectivity", "circuits._serde:load_circuit", "circuits._serde:load_circuitset", "wavefunction:load_wavefunction",
    "distributions._measurement_outcome_distribution:load_measurement_outcome_distribution",
    "distributions._measurement_outcome_distribution:load_measurement_outcome_distributions",
]

# (saver, object method dumped, loader, class method applied)
WIRING = [
    ("measurements.expectation_values:save_expectation_values", "to_dict", "measurements.expectation_values:load_expectation_values", "ExpectationValues.from_dict"),
    ("measurements.parities:save_parities", "to_dict", "measurements.parities:load_parities", "Parities.from_dict"),
    ("utils:save_value_estimate", "to_dict", "utils:load_value_estimate", "ValueEstimate.from_dict"),
    ("circuits.layouts:save_circuit_layers", "to_dict", "circuits.layouts:load_circuit_layers", "CircuitLayers.from_dict"),
    ("circuits.layouts:save_circuit_connectivity", "to_dict", "circuits.layouts:load_circuit_connectivity", "CircuitConnectivity.from_dict"),
]


def _atoms(e: ast.AST) -> Set[str]:
    out = set()
    for n in ast.walk(e):
        if isinstance(n, ast.Attribute):
            d = dotted(n)
            if d:
                out.add(d)
        elif isinstance(n, ast.Name):
            out.add(n.id)
    return out


def guard_relevance(ctx, fi):
    """Every ``if`` / conditional spread that decides whether key k is written tests something
    the stored value is made of."""
    ctx.analysed(fi)
    from ..schema import shape_keys, writer_shape

    conditional = {path[-1] for path, cond in shape_keys(writer_shape(ctx.repo, fi)) if cond}
    parents = {}
    for n in ast.walk(fi.node):
        for c in ast.iter_child_nodes(n):
            parents[c] = n
    # key -> statements that mention it
    touches: Dict[str, List[ast.AST]] = {}
    for n in body_walk(fi.node):
        if isinstance(n, ast.Subscript) and const_str(n.slice) is not None and isinstance(n.value, ast.Name):
            st = n
            while st in parents and not isinstance(st, ast.stmt):
                st = parents[st]
            touches.setdefault(const_str(n.slice), []).append(st)
        if isinstance(n, ast.Dict):
            for k, v in zip(n.keys, n.values):
                if k is None and isinstance(v, ast.IfExp):
                    for side in (v.body, v.orelse):
                        if isinstance(side, ast.Dict):
                            for kk, vv in zip(side.keys, side.values):
                                ks = const_str(kk) if kk is not None else None
                                if ks is None:
                                    continue
                                ga, va = _atoms(v.test), _atoms(vv)
                                rel = bool((ga & va) - {"self"})
                                if not rel:
                                    # value computed earlier from the guard's subject (e.g. custom_gate_definitions)
                                    rel = bool(ga & va)
                                ctx.check(rel, R1G, f"{fi.key}:{ks}", f"key {ks!r} is written iff its own value is present ({short(v.test)})", f"key {ks!r} is written only when `{short(v.test)}` holds, a condition unrelated to the value stored ({short(vv)}): the part is silently dropped on save", f"{fi.module.relpath}:{v.lineno}")
    for key, stmts in touches.items():
        if key not in conditional:
            continue  # written on every path: the branches only choose how the value is computed
        value_atoms: Set[str] = set()
        guards: List[ast.AST] = []
        for st in stmts:
            if isinstance(st, (ast.Assign, ast.AnnAssign)) and st.value is not None:
                value_atoms |= _atoms(st.value)
            elif isinstance(st, ast.Expr):
                value_atoms |= _atoms(st.value)
            cur = st
            while cur in parents:
                par = parents[cur]
                if isinstance(par, ast.If) and cur in par.body:
                    guards.append(par.test)
                if isinstance(par, (ast.For, ast.comprehension)):
                    value_atoms |= _atoms(par.iter)
                if par is fi.node:
                    break
                cur = par
        seen = set()
        for g in guards:
            if norm(g) in seen:
                continue
            seen.add(norm(g))
            ga = _atoms(g) - {"self", "np", "isinstance", "type", "len"}
            rel = bool(ga & value_atoms)
            ctx.check(rel, R1G, f"{fi.key}:{key}:{short(g, 40)}", f"key {key!r} guarded by a test on its own value ({short(g)})", f"key {key!r} is written only when `{short(g)}` holds, which does not concern the value stored under it: that part of the object is silently dropped on save", f"{fi.module.relpath}:{g.lineno}")


def check_grammar(ctx):
    repo = ctx.repo
    term_repr = repo.func(f"{OPS}:PauliTerm.__repr__")
    sum_repr = repo.func(f"{OPS}:PauliSum.__repr__")
    parse_op = repo.func(f"{OPS}:_parse_operator")
    parse_term = repo.func(f"{OPS}:_parse_operators_and_coefficient")
    sum_init = repo.func(f"{OPS}:PauliSum.__init__")
    ctx.analysed(term_repr, sum_repr, parse_op, parse_term, sum_init)
    mod = repo.module(OPS)
    allowed = mod.assigns.get("ALLOWED_OPERATORS")
    letters = [const_str(e) for e in allowed.elts] if isinstance(allowed, (ast.List, ast.Tuple)) else []
    if not letters:
        ctx.undecided(R3, f"{OPS}:ALLOWED_OPERATORS", "cannot read the allowed operator letters", "")
        return
    # ---- printer: token shapes
    templates: List[ast.JoinedStr] = []
    literals: List[str] = []
    for n in body_walk(term_repr.node):
        if isinstance(n, ast.ListComp) and isinstance(n.elt, ast.JoinedStr):
            templates.append(n.elt)
        if isinstance(n, ast.Call) and isinstance(n.func, ast.Attribute) and n.func.attr == "append" and n.args and const_str(n.args[0]) is not None:
            literals.append(const_str(n.args[0]))
    rets = returned_exprs(term_repr.node)
    if len(templates) != 1 or len(rets) != 1 or not isinstance(rets[0], ast.JoinedStr):
        ctx.undecided(R3, term_repr.key, "printer has an unrecognised shape (expected a list of f-string tokens joined into an f-string)", term_repr)
        return
    tpl = templates[0]
    # template = {op}{index}: which part is the letter, which the index?
    parts = [v for v in tpl.values]
    shape_ok = len(parts) == 2 and all(isinstance(p, ast.FormattedValue) for p in parts) and "index" in norm(parts[1].value) and norm(parts[0].value).startswith("self[")
    ctx.check(shape_ok, R3, term_repr.key + ":token-template", "operator tokens are <letter><index>", f"operator token template {short(tpl)} is not <operator letter><qubit index>", term_repr)
    # ---- parser regex
    rx = None
    flags = 0
    for c in body_walk(parse_op.node):
        if isinstance(c, ast.Call) and dotted(c.func) in ("re.match", "re.fullmatch") and c.args and const_str(c.args[0]) is not None:
            rx = const_str(c.args[0])
            if len(c.args) > 2 and norm(c.args[2]) in ("re.I", "re.IGNORECASE"):
                flags = re.I
            full = dotted(c.func) == "re.fullmatch"
    if rx is None:
        ctx.undecided(R3, parse_op.key, "cannot extract the operator regular expression", parse_op)
        return
    try:
        cre = re.compile(rx, flags)
    except re.error as e:
        ctx.violation(R3, parse_op.key + ":regex", f"operator regex does not compile: {e}", parse_op)
        return

    def accepts(tok: str) -> bool:
        m = cre.match(tok)
        return m is not None and m.end() == len(tok)

    printable = [l for l in letters if l != "I"]  # identities are filtered out of _ops by the constructor
    init = repo.func(f"{OPS}:PauliTerm.__init__")
    filt = any(isinstance(n, ast.DictComp) and any("!= 'I'" in norm(i) for g in n.generators for i in g.ifs) for n in body_walk(init.node))
    if not filt:
        printable = letters
    for l in printable:
        for idx in ("0", "7", "12", "305"):
            tok = f"{l}{idx}"
            ctx.check(accepts(tok), R3, f"{parse_op.key}:token:{l}<digits>" if idx != "0" else f"{parse_op.key}:token:{l}0", f"printed token {tok} is accepted by /{rx}/", f"printed token {tok!r} is rejected by the parser's operator regex /{rx}/", parse_op)
    for lit in literals:
        ctx.check(accepts(lit), R3, f"{parse_op.key}:literal:{lit}", f"printed literal {lit!r} is accepted by /{rx}/", f"the printer emits the bare token {lit!r} (constant terms, empty sum) but the parser's operator regex /{rx}/ rejects it: printed constants cannot be parsed back", parse_op)
    if not literals:
        ctx.undecided(R3, term_repr.key + ":constant-token", "printer no longer appends a literal token for constant terms", term_repr)
    # ---- separators & coefficient
    ret = rets[0]
    fvals = [v for v in ret.values if isinstance(v, ast.FormattedValue)]
    consts = [v.value for v in ret.values if isinstance(v, ast.Constant)]
    coef_first = bool(fvals) and norm(fvals[0].value) == "self.coefficient" and fvals[0].format_spec is None and fvals[0].conversion == -1 and ret.values[0] is fvals[0]
    ctx.check(coef_first, R3, term_repr.key + ":coefficient", "the coefficient is printed first, unformatted (full repr)", f"the printed term {short(ret)} does not start with the unmodified coefficient (rounding/formatting loses digits; the parser reads the first part as the coefficient)", term_repr)
    sep_ok = consts == ["*"] and len(fvals) == 2 and isinstance(fvals[1].value, ast.Call) and norm(fvals[1].value.func) == "'*'.join"
    ctx.check(sep_ok, R3, term_repr.key + ":separator", "parts joined by '*'", f"term parts are not joined by '*' ({short(ret)})", term_repr)
    split_rx = None
    for c in body_walk(parse_term.node):
        if isinstance(c, ast.Call) and dotted(c.func) == "re.split" and c.args and const_str(c.args[0]) is not None:
            split_rx = const_str(c.args[0])
    ok_split = split_rx is not None and re.split(split_rx, "2.0*X0*Y12") == ["2.0", "X0", "Y12"] and re.split(split_rx, "(1+2j)*I") == ["(1+2j)", "I"]
    ctx.check(ok_split, R3, parse_term.key + ":split", f"term split /{split_rx}/ separates the printed parts", f"the parser's term split /{split_rx}/ does not separate 'coef*X0*Y12' into its printed parts", parse_term)
    coef_parse = any(isinstance(c, ast.Call) and dotted(c.func) == "_parse_complex" and c.args and norm(c.args[0]) == "parts[0]" for c in body_walk(parse_term.node))
    ctx.check(coef_parse, R3, parse_term.key + ":coefficient-first", "parser reads the first part as the coefficient", "the parser does not read the first '*'-separated part as the coefficient", parse_term)
    # sum
    sret = returned_exprs(sum_repr.node)
    join = [r for r in sret if isinstance(r, ast.Call) and isinstance(r.func, ast.Attribute) and r.func.attr == "join"]
    sum_sep = const_str(join[0].func.value) if join else None
    srx = None
    for c in body_walk(sum_init.node):
        if isinstance(c, ast.Call) and dotted(c.func) == "re.split" and c.args and const_str(c.args[0]) is not None:
            srx = const_str(c.args[0])
    ok_sum = sum_sep is not None and srx is not None and [s.strip() for s in re.split(srx, f"2.0*X0{sum_sep}(1+2j)*Y1{sum_sep}-1.5*I")] == ["2.0*X0", "(1+2j)*Y1", "-1.5*I"]
    # the text is split as printed: any rewriting the parser applies to the text before splitting (re.sub, str.replace) is replayed, by the
    # checker's own `re`, on printed sums covering every shape repr() gives a coefficient (plain, signed, exponent notation with either
    # sign, complex in brackets): the parts must come out as the printed terms. (repr() switches to `e+` notation only from 1e16 on, which
    # is outside the property's stated domain |c| < 1e15 -- there the unbracketed `+` of `1e+16*X0` is indeed taken for the sum separator.)
    pre = []
    pre_ok = True
    for c in body_walk(sum_init.node):
        if isinstance(c, ast.Call) and dotted(c.func) == "re.sub" and len(c.args) >= 3:
            if const_str(c.args[0]) is not None and const_str(c.args[1]) is not None:
                pre.append((c.lineno, "sub", const_str(c.args[0]), const_str(c.args[1])))
            else:
                pre_ok = False
        if isinstance(c, ast.Call) and isinstance(c.func, ast.Attribute) and c.func.attr == "replace" and len(c.args) == 2 and isinstance(c.func.value, ast.Name) and c.func.value.id in positional_params(sum_init.node):
            if const_str(c.args[0]) is not None and const_str(c.args[1]) is not None:
                pre.append((c.lineno, "replace", const_str(c.args[0]), const_str(c.args[1])))
            else:
                pre_ok = False
    if sum_sep is not None and srx is not None:
        printed = ["2.0*X0", "(1+2j)*Y1", "-1.5*I", "1e-05*X0", "-2.5e-10*Z3*Z4", "(1e-05-2e-07j)*Y1", "(-0-1e-09j)*X2", "3*Z10", "-1e-05*Y0"]
        text = sum_sep.join(printed)
        try:
            for _, kind, a, b in sorted(pre):
                text = re.sub(a, b, text) if kind == "sub" else text.replace(a, b)
            parts = [x.strip() for x in re.split(srx, text)]
        except re.error:
            parts = None
        if not pre_ok:
            ctx.undecided(R3, sum_init.key + ":text-as-printed", "the text is rewritten with a computed pattern before it is split", sum_init)
        else:
            wrong = [(a, b) for a, b in zip(printed, parts or [])if a != b]
            ctx.check(parts == printed, R3, sum_init.key + ":text-as-printed", f"{len(printed)} printed coefficient shapes survive the parser's {len(pre)} text rewriting step(s) and the split", f"the parser rewrites the text before splitting it ({'; '.join(k + ' /' + a + '/ -> ' + repr(b) for _, k, a, b in sorted(pre)) or 'split only'}) and a printed sum does not come apart into its printed terms: " + (f"{wrong[0][0]!r} arrives as {wrong[0][1]!r}" if wrong else f"{len(printed)} terms printed, {len(parts or [])} parts") + " -- a coefficient that repr() prints in exponent notation (below 1e-4) cannot be parsed back", sum_init)
    ctx.check(ok_sum, R3, sum_init.key + ":sum-split", f"sum separator {sum_sep!r} is split by /{srx}/ (not inside brackets)", f"the printed sum separator {sum_sep!r} is not split correctly by the parser's /{srx}/", sum_init)
    # empty sum prints as a zero term the parser accepts
    empty = [n for n in body_walk(sum_repr.node) if isinstance(n, ast.Call) and dotted(n.func) == "PauliTerm" and len(n.args) == 2]
    ok_empty = bool(empty) and const_str(empty[0].args[0]) is not None and accepts(const_str(empty[0].args[0])) and norm(empty[0].args[1]) == "0"
    ctx.check(ok_empty, R3, sum_repr.key + ":empty-sum", "the empty sum prints as a zero-coefficient term", "the empty sum is not printed as a parseable zero term", sum_repr)


def check_slots(ctx):
    repo = ctx.repo
    w = repo.func(f"{OIO}:convert_op_to_dict")
    r = repo.func(f"{OIO}:convert_dict_to_op")
    fi = repo.func(f"{OPS}:PauliTerm.from_iterable")
    ops_prop = repo.func(f"{OPS}:PauliTerm.operations")
    ctx.analysed(w, r, fi, ops_prop)
    # operations property yields (index, op) pairs
    pr = returned_exprs(ops_prop.node)
    items = len(pr) == 1 and "self._ops.items()" in norm(pr[0])
    ctx.check(items, R4, ops_prop.key, "operations = (index, operator) pairs", "PauliTerm.operations no longer yields (index, operator) pairs", ops_prop)
    # writer slots
    ok_w = False
    seen_w = False
    for n in body_walk(w.node):
        if isinstance(n, ast.ListComp) and isinstance(n.elt, ast.Dict) and "operations" in norm(n.generators[0].iter):
            seen_w = True
            v = norm(n.generators[0].target)
            m = {const_str(k): norm(val) for k, val in zip(n.elt.keys, n.elt.values) if k is not None}
            ok_w = m.get("qubit") == f"{v}[0]" and m.get("op") == f"{v}[1]"
            if not ok_w and isinstance(n.generators[0].target, ast.Tuple) and len(n.generators[0].target.elts) == 2:
                a0, a1 = (norm(x) for x in n.generators[0].target.elts)  # for index, letter in term.operations
                ok_w = m.get("qubit") == a0 and m.get("op") == a1
    if not seen_w:
        ctx.undecided(R4, w.key + ":pauli-op-slots", "cannot find the list of {'qubit': .., 'op': ..} records built over term.operations", w)
    else:
      ctx.check(ok_w, R4, w.key + ":pauli-op-slots", "qubit <- pair[0] (index), op <- pair[1] (letter)", "the writer does not store the index under 'qubit' and the letter under 'op'", w)
    # reader slots -> from_iterable
    ok_r = False
    for n in body_walk(r.node):
        if isinstance(n, ast.Call) and isinstance(n.func, ast.Attribute) and n.func.attr == "append" and n.args and isinstance(n.args[0], ast.Tuple) and len(n.args[0].elts) == 2:
            e0, e1 = n.args[0].elts
            ok_r = isinstance(e0, ast.Subscript) and const_str(e0.slice) == "op" and isinstance(e1, ast.Subscript) and const_str(e1.slice) == "qubit"
    ctx.check(ok_r, R4, r.key + ":tuple-slots", "reader builds (op, qubit) tuples", "the reader does not build (operator, qubit) tuples in the order PauliTerm.from_iterable unpacks", r)
    ok_f = False
    for n in body_walk(fi.node):
        if isinstance(n, ast.DictComp) and isinstance(n.generators[0].target, ast.Tuple) and len(n.generators[0].target.elts) == 2:
            a, b = [norm(e) for e in n.generators[0].target.elts]
            ok_f = norm(n.key) == b and norm(n.value) == a and norm(n.generators[0].iter) == positional_params(fi.node)[0]
    ctx.check(ok_f, R4, fi.key, "from_iterable maps (op, idx) -> {idx: op}", "PauliTerm.from_iterable does not unpack (operator, index) pairs into {index: operator}", fi)
    calls = [c for c in body_walk(r.node) if isinstance(c, ast.Call) and norm(c.func) == "PauliTerm.from_iterable"]
    ok_c = len(calls) == 1 and len(calls[0].args) == 2 and norm(calls[0].args[1]) == "coefficient"
    ctx.check(ok_c, R4, r.key + ":coefficient-passed", "term rebuilt with its coefficient", "the reader does not pass the stored coefficient to the rebuilt term", r)
    # coefficient parts
    txtw = norm(w.node)
    ok_cw = "'real': term.coefficient.real" in txtw and "'imag': term.coefficient.imag" in txtw
    if "'real'" not in txtw or "'imag'" not in txtw or "term.coefficient" not in txtw:
        # the members exist but are written from something other than `term.coefficient.real/.imag` spelt out here (a helper, a local)
        cw_lost = "'real'" in txtw or "'imag'" in txtw or any(isinstance(c, ast.Call) and "coefficient" in norm(c) for c in body_walk(w.node))
    else:
        cw_lost = False
    if not ok_cw and cw_lost:
        ctx.undecided(R4, w.key + ":coefficient-parts", "cannot follow how the coefficient's real and imaginary parts reach the record", w)
    else:
      ctx.check(ok_cw, R4, w.key + ":coefficient-parts", "real <- .real, imag <- .imag", "the writer does not store coefficient.real under 'real' and coefficient.imag under 'imag'", w)
    d = Defs(r.node)
    defs = d.defs.get("coefficient", [])
    ok_cr = any(isinstance(v, ast.Subscript) and const_str(v.slice) == "real" for v in defs) and any(isinstance(v, ast.BinOp) and "1j" in norm(v) and "'imag'" in norm(v) for v in defs)
    ctx.check(ok_cr, R4, r.key + ":coefficient-parts", "coefficient = real + 1j*imag", "the reader does not rebuild the coefficient as real + 1j*imag", r)
    acc = [n for n in body_walk(r.node) if isinstance(n, ast.AugAssign) and isinstance(n.op, ast.Add) and norm(n.target) == "full_operator"]
    rets = returned_exprs(r.node)
    ctx.check(len(acc) == 1 and len(rets) == 1 and norm(rets[0]) == "full_operator", R4, r.key + ":accumulate", "every stored term is added to the result", "not every stored term is added to the returned operator", r)
    # tuples restored
    for key, expect in (("measurements.measurements:Measurements.load_from_file", "tuple(bitstring)"), ("circuits.layouts:CircuitLayers.from_dict", "tuple(x)"), ("circuits.layouts:CircuitConnectivity.from_dict", "tuple(x)")):
        f = repo.func(key)
        ctx.analysed(f)
        ctx.check(expect in norm(f.node), R4, f.key + ":tuples", "JSON lists restored to tuples", "stored lists are not restored to tuples: the loaded object differs from the saved one", f)
    ms = repo.func("measurements.measurements:Measurements.save")
    ctx.check("for bitstring in self.bitstrings" in norm(ms.node), R4, ms.key + ":all-bitstrings", "every bitstring is written, in order", "not every bitstring is written in order", ms)
    # every bit is written as a plain int on every path: shots produced by numpy sampling hold numpy integers, which json cannot
    # serialise -- a path that writes the shots as stored is only sound under a test that looked at *every* bit of *every* shot
    md = Defs(ms.node)
    vals = []
    for n in body_walk(ms.node):
        if isinstance(n, ast.Dict):
            vals += [v for k, v in zip(n.keys, n.values) if k is not None and const_str(k) == "bitstrings"]
        if isinstance(n, ast.Assign) and isinstance(n.targets[0], ast.Subscript) and const_str(n.targets[0].slice) == "bitstrings":
            vals.append(n.value)
    flat = []
    for v in vals:
        if isinstance(v, ast.Name):
            flat += [(x, st) for x, st in zip(md.defs.get(v.id, []), md.assign_stmts.get(v.id, [])) if isinstance(x, ast.AST)] or [(v, None)]
        else:
            flat.append((v, None))

    def _converts(e):
        return any(isinstance(c, ast.Call) and ((dotted(c.func) == "map" and c.args and dotted(c.args[0]) == "int") or dotted(c.func) == "int") for c in ast.walk(e))

    def _exhaustive_guard(st):
        from ..astutil import parent_map as _pm

        par = _pm(ms.node)
        x = st
        while x in par:
            x = par[x]
            if isinstance(x, ast.If):
                tests = [x.test] + [dv for nm in ast.walk(x.test) if isinstance(nm, ast.Name) for dv in md.defs.get(nm.id, []) if isinstance(dv, ast.AST)]
                for t in tests:
                    for c in ast.walk(t):
                        if isinstance(c, ast.Call) and dotted(c.func) == "all" and c.args and isinstance(c.args[0], (ast.GeneratorExp, ast.ListComp)) and any(norm(g.iter) == "self.bitstrings" for g in c.args[0].generators) and len(c.args[0].generators) >= 2:
                            return True
        return False

    def _arms(v, st, tests=()):
        # CANON merges `if c: x = A else: x = B` into `x = A if c else B`: judge the arms one by one
        if isinstance(v, ast.IfExp):
            return _arms(v.body, st, tests + (v.test,)) + _arms(v.orelse, st, tests + (v.test,))
        return [(v, st, tests)]

    def _test_exhaustive(t):
        cands = [t] + [dv for nm in ast.walk(t) if isinstance(nm, ast.Name) for dv in md.defs.get(nm.id, []) if isinstance(dv, ast.AST)]
        return any(isinstance(c, ast.Call) and dotted(c.func) == "all" and c.args and isinstance(c.args[0], (ast.GeneratorExp, ast.ListComp)) and any(norm(g.iter) == "self.bitstrings" for g in c.args[0].generators) and len(c.args[0].generators) >= 2 for x in cands for c in ast.walk(x))

    flat = [a for v, st in flat for a in _arms(v, st)]
    if flat:
        raw = [(v, st) for v, st, tests in flat if not _converts(v) and not (st is not None and _exhaustive_guard(st)) and not any(_test_exhaustive(t) for t in tests)]
        ctx.check(not raw, R4, ms.key + ":bits-as-int", "every path converts each bit with int() before writing", f"on some path the shots are written as stored (`{short(raw[0][0], 80) if raw else ''}`) without converting each bit with int(): a measurement set holding numpy integers in any shot (samples appended after from_counts, say) cannot be saved (json raises TypeError), so it does not come back equal", f"{ms.module.relpath}:{raw[0][0].lineno}" if raw else ms)
    else:
        ctx.undecided(R4, ms.key + ":bits-as-int", "cannot find the `bitstrings` member of the saved record", ms)


def check_wiring(ctx):
    repo = ctx.repo
    for saver, meth, loader, back in WIRING:
        s, l = repo.func(saver), repo.func(loader)
        ctx.analysed(s, l)
        p = positional_params(s.node)[0]
        d = Defs(s.node)
        dumped = [c.args[0] for c in body_walk(s.node) if isinstance(c, ast.Call) and (dotted(c.func) or "").split(".")[-1] in ("dumps", "dump") and c.args]
        ok_s = bool(dumped) and f"call:{meth}" in d.atoms(dumped[0]) and p in d.atoms(dumped[0])
        ctx.check(ok_s, R2, s.key + ":dumps-to_dict", f"dumps {p}.{meth}()", f"{s.qualname} does not dump {p}.{meth}()", s)
        rets = returned_exprs(l.node)
        ok_l = len(rets) == 1 and isinstance(rets[0], ast.Call) and norm(rets[0].func) == back and len(rets[0].args) == 1
        ctx.check(ok_l, R2, l.key + ":from_dict", f"returns {back}(data)", f"{l.qualname} does not rebuild the object with {back}", l)


R5 = "C11-D5 zero-is-a-value"


def check_members_saved_individually(ctx):
    """Every member of a saved operator list is converted on its own. Looking the converted form up in a memo keyed by the
    operator identifies operators by `==`/hash, which for Pauli operators means "coefficients equal up to 1e-6 / allclose":
    a member that is only nearly equal to an earlier one would be written as a copy of it."""
    repo = ctx.repo
    fi = repo.func("operators._io:save_operator_set")
    ctx.analysed(fi)
    loops = [l for l in body_walk(fi.node) if isinstance(l, ast.For) and isinstance(l.target, ast.Name)]
    bad = []
    for l in loops:
        v = l.target.id
        for n in ast.walk(l):
            if isinstance(n, ast.Subscript) and isinstance(n.slice, ast.Name) and n.slice.id == v and isinstance(n.value, ast.Name):
                bad.append(n)
            if isinstance(n, ast.Compare) and isinstance(n.left, ast.Name) and n.left.id == v and len(n.ops) == 1 and isinstance(n.ops[0], (ast.In, ast.NotIn)) and isinstance(n.comparators[0], ast.Name):
                bad.append(n)
    ctx.check(not bad, R1, fi.key + ":members-individually", "each list member is converted by convert_op_to_dict itself", f"`{short(bad[0]) if bad else ''}` keys a lookup by the operator being saved: equality and hash of Pauli operators are tolerant (coefficients rounded to 1e-6), so a member nearly equal to an earlier one is saved as that earlier operator", f"{fi.module.relpath}:{bad[0].lineno}" if bad else fi)


def check_loaded_arrays_unchanged(ctx):
    """What a loader hands to the artefact's constructor is the stored array: no coercion to a real / integer dtype and no
    `.real` on the way, because every array artefact may be complex (values, correlations, covariances, amplitudes)."""
    repo = ctx.repo
    readers = ["measurements.expectation_values:ExpectationValues.from_dict", "measurements.parities:Parities.from_dict", "utils:convert_dict_to_array", "utils:load_value_estimate", "wavefunction:load_wavefunction"]
    REAL = ("float", "int", "np.float64", "np.float32", "numpy.float64", "np.int64", "np.double", "np.single", "'float'", '"float"', "'float64'")
    for key in readers:
        if not repo.has_func(key):
            continue
        fi = repo.func(key)
        ctx.analysed(fi)
        bad = []
        for n in body_walk(fi.node):
            if isinstance(n, ast.Call):
                for k in n.keywords:
                    if k.arg == "dtype" and norm(k.value) in REAL:
                        bad.append(n)
                if isinstance(n.func, ast.Attribute) and n.func.attr == "astype" and n.args and (norm(n.args[0]) in REAL or isinstance(n.args[0], ast.Name)):
                    bad.append(n)
                if (dotted(n.func) or "").split(".")[-1] in ("real", "real_if_close") and n.args:
                    bad.append(n)
        ctx.check(not bad, R1, fi.key + ":arrays-unchanged", "stored arrays reach the constructor as stored", f"`{short(bad[0]) if bad else ''}` coerces a loaded array to a real dtype: the imaginary part of complex data (e.g. complex estimator covariances) is silently dropped on load", f"{fi.module.relpath}:{bad[0].lineno}" if bad else fi)


def check_zero_is_a_value(ctx):
    """A coefficient / value of 0 is legitimate data: code that parses or restores an optional number must
    tell "absent" from "zero" with ``is None``, not by truthiness (0, 0.0 and 0j are falsy)."""
    from ..lints import optional_number_truthiness, self_check_optional_number

    repo = ctx.repo
    if not self_check_optional_number():
        ctx.undecided(R5, "lint:self-check", "the embedded positive example of the optional-number lint was not detected")
        return
    mods = ["operators._pauli_operators", "operators._io", "utils", "measurements.expectation_values", "measurements.parities", "wavefunction"]
    for m in mods:
        mod = repo.module(m)
        for fi in mod.functions.values():
            hits = optional_number_truthiness(repo, fi)
            has_optional = hits or any(True for _ in [0] if _has_optional_number(repo, fi))
            if not has_optional:
                continue
            ctx.analysed(fi)
            if hits:
                for nm, node, why in hits:
                    ctx.violation(R5, f"{fi.key}:truthiness:{nm}", f"{fi.qualname}: `{short(node)}` tests the optional number `{nm}` ({why}) by truthiness: a parsed or stored 0 / 0.0 / 0j is treated as absent, so a zero coefficient printed as text does not come back as zero", f"{mod.relpath}:{node.lineno}")
            else:
                ctx.ok(R5, f"{fi.key}:optional-numbers", "optional numbers are told apart from 0 with `is None` tests", fi)


def _key_access(e: ast.AST, root: str) -> Optional[str]:
    """K for ``root["K"]`` / ``root.get("K")`` / ``root.get("K", None)``"""
    if isinstance(e, ast.Subscript) and norm(e.value) == root and isinstance(e.slice, ast.Constant) and isinstance(e.slice.value, str):
        return e.slice.value
    if isinstance(e, ast.Call) and isinstance(e.func, ast.Attribute) and e.func.attr == "get" and norm(e.func.value) == root and e.args and isinstance(e.args[0], ast.Constant) and isinstance(e.args[0].value, str):
        if len(e.args) == 1 or (isinstance(e.args[1], ast.Constant) and e.args[1].value is None):
            return e.args[0].value
    return None


# one named member, one reason: truthiness tests on a list member that are equivalent to `is not None` for every stored value
EMPTY_IS_NOTHING = {
    ("utils:convert_dict_to_array", "imag"): "the imaginary parts are *added* to the array built from \"real\": an empty list accompanies an empty \"real\" list only, and adding nothing to an empty array leaves an equal array",
}


def check_present_keys_by_membership(ctx):
    """A reader decides whether an optional member is present with ``"k" in record`` / ``is None``: a truthiness test on the
    member's value also rejects a stored 0 / 0.0 -- and a stored empty list (the property's "zero frames") --, which is data. The same holds
    for the writer's test on an Optional[List] attribute."""
    repo = ctx.repo
    n = 0
    for name, w, r, root, allow in PAIRS:
        if root is None:
            continue
        fi = repo.func(r)
        tests = []
        for x in body_walk(fi.node):
            if isinstance(x, (ast.If, ast.IfExp, ast.While)):
                tests.append(x.test)
            elif isinstance(x, ast.Assert):
                tests.append(x.test)
        atoms = []
        for t in tests:
            stack = [t]
            while stack:
                e = stack.pop()
                if isinstance(e, ast.BoolOp):
                    stack.extend(e.values)
                elif isinstance(e, ast.UnaryOp) and isinstance(e.op, ast.Not):
                    stack.append(e.operand)
                else:
                    atoms.append(e)
        iterated = set()
        for x in body_walk(fi.node):
            its = [x.iter] if isinstance(x, (ast.For, ast.comprehension)) else []
            if isinstance(x, ast.Call) and (dotted(x.func) or "").split(".")[-1] in ("array", "asarray", "list", "tuple", "set", "len", "sorted", "convert_dict_to_array", "Counter", "dict"):
                its = list(x.args)
            for it in its:
                for y in ast.walk(it):
                    k = _key_access(y, root)
                    if k:
                        iterated.add(k)
        for e in atoms:
            k = _key_access(e, root)
            if k is None:
                continue
            n += 1
            if k in iterated and (fi.key, k) in EMPTY_IS_NOTHING:
                ctx.ok(R5, f"{fi.key}:member-present:{k}", f"`{short(e)}`: {EMPTY_IS_NOTHING[(fi.key, k)]}", fi)
            elif k in iterated:
                ctx.violation(R5, f"{fi.key}:member-present:{k}", f"{fi.qualname}: `{short(e)}` decides whether the list member \"{k}\" is present by its truthiness: a stored empty list (zero frames) is treated as absent and comes back as None instead of [], so the loaded object is not the saved one (use `is not None` / `\"{k}\" in {root}`)", f"{fi.module.relpath}:{e.lineno}")
            else:
                ctx.violation(R5, f"{fi.key}:member-present:{k}", f"{fi.qualname}: `{short(e)}` decides whether the scalar member \"{k}\" is present by its truthiness: a stored 0 / 0.0 is treated as absent, so the record written for that value does not load back to it (use `\"{k}\" in {root}` or `is None`)", f"{fi.module.relpath}:{e.lineno}")
    # writer side: an optional list attribute is written whenever it is not None -- `if self.x:` also skips the empty list
    nw = 0
    for name, w, r, root, allow in PAIRS:
        fw = repo.func(w)
        if fw.cls is None:
            continue
        opt = set()
        optnum = set()
        for ctor in ("__init__", "__new__"):
            init = fw.cls.methods.get(ctor)
            if init is None:
                continue
            for a in init.node.args.args + init.node.args.kwonlyargs:
                if a.annotation is not None and "Optional[" in norm(a.annotation) and any(t in norm(a.annotation) for t in ("List", "Sequence", "ndarray", "Dict", "Tuple", "list", "dict")):
                    opt.add(a.arg)
                elif a.annotation is not None and "Optional[" in norm(a.annotation) and any(t in norm(a.annotation) for t in ("float", "int", "complex", "Number")):
                    optnum.add(a.arg)
        for x in body_walk(fw.node):
            if isinstance(x, (ast.If, ast.IfExp)):
                stack = [x.test]
                while stack:
                    e = stack.pop()
                    if isinstance(e, ast.BoolOp):
                        stack.extend(e.values)
                    elif isinstance(e, ast.UnaryOp) and isinstance(e.op, ast.Not):
                        stack.append(e.operand)
                    elif isinstance(e, ast.Attribute) and isinstance(e.value, ast.Name) and e.value.id == "self" and e.attr in optnum:
                        nw += 1
                        ctx.violation(R5, f"{fw.key}:member-written:{e.attr}", f"{fw.qualname}: `{short(x.test)}` decides by truthiness whether the optional number `{e.attr}` is written: 0 / 0.0 is a value, but it is not written and loads back as None (test `is not None`)", f"{fw.module.relpath}:{e.lineno}")
                    elif isinstance(e, ast.Attribute) and isinstance(e.value, ast.Name) and e.value.id == "self" and e.attr in opt:
                        nw += 1
                        ctx.violation(R5, f"{fw.key}:member-written:{e.attr}", f"{fw.qualname}: `{short(x.test)}` decides by truthiness whether the optional list `{e.attr}` is written: an empty list (zero frames) is not written at all and loads back as None instead of [], so the loaded object is not the saved one (test `is not None`)", f"{fw.module.relpath}:{e.lineno}")
    ctx.ok(R5, "artefacts:member-present", f"{n} truthiness tests on record members examined in the readers, {nw} truthiness tests on optional list attributes in the writers", "")


def check_member_loops_complete(ctx):
    """A reader that walks a fixed list of member names must look at every name: leaving the loop (``break`` / ``return``) at the
    first absent member skips the members after it, although the writer stores each one independently."""
    repo = ctx.repo
    n = 0
    for name, w, r, root, allow in PAIRS:
        if root is None:
            continue
        fi = repo.func(r)
        for loop in body_walk(fi.node):
            if not (isinstance(loop, ast.For) and isinstance(loop.target, ast.Name)):
                continue
            it = loop.iter
            if isinstance(it, ast.Name) and it.id in fi.module.assigns:
                it = fi.module.assigns[it.id]
            if not (isinstance(it, (ast.Tuple, ast.List)) and len(it.elts) > 1 and all(isinstance(e, ast.Constant) and isinstance(e.value, str) for e in it.elts)):
                continue
            n += 1
            v = loop.target.id
            bad = None
            for x in ast.walk(loop):
                if isinstance(x, ast.If) and any(isinstance(y, ast.Name) and y.id == v for y in ast.walk(x.test)) and root in {y.id for y in ast.walk(x.test) if isinstance(y, ast.Name)}:
                    for st in x.body + x.orelse:
                        if isinstance(st, (ast.Break, ast.Return)):
                            bad = (x, st)
            construct = f"{fi.key}:member-loop:{','.join(e.value for e in it.elts)[:60]}"
            if bad:
                ctx.violation(R1, construct, f"{fi.qualname}: the loop over the member names {short(it)} is left by `{short(bad[1])}` under `{short(bad[0].test)}`: once one member is absent the members after it are not read, although the writer stores each of them independently", f"{fi.module.relpath}:{bad[1].lineno}")
            else:
                ctx.ok(R1, construct, "every listed member name is examined", fi)
    ctx.ok(R1, "artefacts:member-loops", f"{n} loops over fixed member-name lists examined", "")


def check_no_filtered_positional_splat(ctx):
    """A reader that hands optional members to the constructor positionally must keep absent members in place (None): splatting a
    *filtered* sequence (`cls(values, *[m for k in KEYS if k in record])`) shifts every member after an absent one into the wrong
    constructor slot."""
    repo = ctx.repo
    n = 0
    for name, w, r, root, allow in PAIRS:
        if root is None:
            continue
        fi = repo.func(r)
        d = Defs(fi.node)
        for c in body_walk(fi.node):
            if not (isinstance(c, ast.Call) and any(isinstance(a, ast.Starred) for a in c.args)):
                continue
            fn = dotted(c.func) or ""
            if not (fn == "cls" or fn[:1].isupper()):
                continue
            for a in c.args:
                if not isinstance(a, ast.Starred):
                    continue
                n += 1
                v = a.value
                if isinstance(v, ast.Name):
                    ds = [x for x in d.defs.get(v.id, []) if isinstance(x, ast.AST)]
                    v = ds[0] if len(ds) == 1 else v
                filt = isinstance(v, (ast.ListComp, ast.GeneratorExp)) and any(g.ifs for g in v.generators)
                filt = filt or (isinstance(v, ast.Call) and dotted(v.func) == "filter")
                if filt:
                    ctx.violation(R4, f"{fi.key}:positional-splat", f"{fi.qualname}: `{short(c, 70)}` fills constructor slots positionally from the filtered sequence {short(v, 90)}: when an optional member is absent from the record the members after it move one slot forward (covariances loaded as correlations)", f"{fi.module.relpath}:{c.lineno}")
                else:
                    ctx.ok(R4, f"{fi.key}:positional-splat", "positional members come from an unfiltered sequence", fi)
    ctx.ok(R4, "artefacts:positional-splat", f"{n} starred constructor arguments examined in the readers", "")


def check_list_saved_as_given(ctx):
    """save_list stores the list it was given: routing it through a numpy array first (np.asarray(x).tolist(), np.array(x))
    coerces a list of mixed element types to one dtype (['theta_0', 0.25] -> ['theta_0', '0.25']) and rejects ragged lists."""
    f = ctx.repo.func("utils:save_list")
    ctx.analysed(f)
    p0 = positional_params(f.node)[0]
    d = Defs(f.node)
    stores = [st for st in body_walk(f.node) if isinstance(st, ast.Assign) and isinstance(st.targets[0], ast.Subscript) and const_str(st.targets[0].slice) == "list"]
    lits = [v for st in body_walk(f.node) if isinstance(st, ast.Assign) for v in ([st.value] if isinstance(st.value, ast.Dict) else []) for k, vv in zip(v.keys, v.values) if const_str(k) == "list"]
    vals = [st.value for st in stores] + [vv for st in body_walk(f.node) if isinstance(st, ast.Assign) and isinstance(st.value, ast.Dict) for k, vv in zip(st.value.keys, st.value.values) if const_str(k) == "list"]
    if len(vals) != 1:
        ctx.undecided(R1, f.key + ":as-given", f"expected one value stored under \"list\", found {len(vals)}", f)
        return
    v = vals[0]
    hops = 0
    while isinstance(v, ast.Name) and v.id != p0 and hops < 4:
        ds = [x for x in d.defs.get(v.id, []) if isinstance(x, ast.AST)]
        if len(ds) != 1:
            break
        v, hops = ds[0], hops + 1
    through_numpy = [c for c in ast.walk(v) if isinstance(c, ast.Call) and (dotted(c.func) or "").split(".")[-1] in ("asarray", "array", "asanyarray", "fromiter")]
    if through_numpy:
        ctx.violation(R1, f.key + ":as-given", f"the list is stored as `{short(v, 80)}`: converting it to a numpy array first gives every element one dtype (a list mixing strings and numbers comes back as strings) and fails for ragged lists, so what is loaded is not the list that was saved", f"{f.module.relpath}:{v.lineno}")
    else:
        ctx.check(norm(v) in (p0, f"list({p0})"), R1, f.key + ":as-given", "the given list is what is stored", f"save_list stores {short(v, 80)}, not the list it was given", f"{f.module.relpath}:{getattr(v, 'lineno', f.node.lineno)}")


def _has_optional_number(repo, fi) -> bool:
    from ..lints import _optional_numeric, _return_slots

    a = fi.node.args
    if any(_optional_numeric(p.annotation) for p in list(a.posonlyargs) + list(a.args) + list(a.kwonlyargs)):
        return True
    for n in body_walk(fi.node):
        if isinstance(n, ast.Assign) and isinstance(n.value, ast.Call):
            targets, _ = repo.resolve_call(fi, n.value)
            for t in targets[:1]:
                if any(_optional_numeric(s_) for s_ in _return_slots(t)):
                    return True
    return False


def run(ctx):
    from ..lints import check_stale_loop_variables

    check_stale_loop_variables(ctx, "C11-D8 loop-variables", ['operators._io', 'operators._pauli_operators', 'measurements.measurements', 'measurements.parities', 'measurements.expectation_values', 'estimation._estimation', 'utils', 'wavefunction', 'circuits.layouts'])
    for name, w, r, root, allow in PAIRS:
        check_pair(ctx, R1, name, w, r, root, allow_unread=allow)
    for key in ("measurements.expectation_values:ExpectationValues.to_dict", "measurements.parities:Parities.to_dict", "utils:save_nmeas_estimate", "utils:convert_array_to_dict", f"{OIO}:convert_op_to_dict", "utils:ValueEstimate.to_dict"):
        guard_relevance(ctx, ctx.repo.func(key))
    for k in LOADERS:
        loader_accepts_path_and_file(ctx, R2, k)
    check_wiring(ctx)
    check_grammar(ctx)
    from ..lints import check_caches

    # printers, parsers, converters and savers keep no functools cache with an untrustworthy key (a PauliTerm compares with a tolerance
    # and hashes a rounded coefficient: a memoised printer then prints a *nearby* term's text)
    check_caches(ctx, "C11-D6 serde-stateless", ['operators._pauli_operators', 'operators._io', 'measurements.expectation_values', 'measurements.parities', 'measurements.measurements', 'utils'])
    check_slots(ctx)
    check_zero_is_a_value(ctx)
    check_present_keys_by_membership(ctx)
    check_member_loops_complete(ctx)
    check_list_saved_as_given(ctx)
    check_no_filtered_positional_splat(ctx)
    check_members_saved_individually(ctx)
    check_loaded_arrays_unchanged(ctx)
    # what a loader returns is a function of the artefact's current contents: a table of results kept in module state (keyed by
    # a path, say) hands out what an earlier version of the file held, or one shared object to two callers
    from ..state import check_hidden_state
    from .c20 import effects_for

    keys = []
    for name, w, r, root, allow in PAIRS:
        keys += [w, r]
    keys += LOADERS + [x for row in WIRING for x in (row[0], row[2])]
    seen = []
    for k in keys:
        if k not in seen and ctx.repo.has_func(k):
            seen.append(k)
    check_hidden_state(ctx, "C11-D6 serde-stateless", [ctx.repo.func(k) for k in seen], effects_for(ctx), argument_caches=True)
    # the operator reader re-assembles the sum with `+=`, i.e. through PauliSum.__add__ and simplify(): "denotes the same matrix"
    # after loading therefore rests on simplification never changing the denoted matrix -- decided once, by C03-D5
    from ..common import share_rule
    from . import c03

    share_rule(ctx, "C03", c03.check_simplify, "C11-D7 reassembly-by-simplify")
    ctx.floor("C11-D7", 4)
    ctx.floor("C11-D6", 30)
    from ..lints import one_sided_signed_part_tests

    hits = one_sided_signed_part_tests(ctx.repo, ("utils", "operators._io", "measurements.expectation_values", "measurements.parities", "measurements.measurements", "operators._pauli_operators"))
    for fi, t in hits:
        ctx.violation(R5, f"{fi.key}:one-sided:{short(t, 40)}", f"`{short(t)}` decides about an imaginary part by a one-sided comparison: negative imaginary parts count as negligible and are dropped from what is written / parsed", f"{fi.module.relpath}:{t.lineno}")
    ctx.ok(R5, "artefacts:one-sided-imag", f"no one-sided test on an imaginary part ({len(hits)} found)", "")
    ctx.floor("C11-D5", 4)
    ctx.floor("C11-D1 ", 60)
    ctx.floor("C11-D1g", 5)
    ctx.floor("C11-D2", 24)
    ctx.floor("C11-D3", 18)
    ctx.floor("C11-D4", 12)
