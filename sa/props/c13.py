"""C13 — splitting, batching and recombining shots never loses or invents a shot."""
from __future__ import annotations

import ast
import copy
from typing import Dict, List, Optional, Tuple

from ..astutil import arg_or_kw, body_walk, const_value, dotted, kwarg, norm, positional_params, short, walk_local
from ..cfg import branch_raises, cfg_of
from ..common import find_calls_named, returned_exprs
from ..flow import Defs
from ..orient import count_reversals, is_reverse_slice

EXPLANATION = (
    "Structural necessary conditions: (D1) the argument rejections (length mismatch, non-positive batch size, "
    "len != sum(multiplicities)) dominate every return; (D2) batches pair the i-th chunk of circuits with the i-th "
    "chunk of sample counts, both cut with the same size by one-pass islice chunking that yields every item once in "
    "order, and request max() of the chunk's counts; (D3) the per-circuit expansion formula, evaluated as an "
    "arithmetic expression on the grid 1<=n<=60, 1<=max<=16, gives a tuple of `multiplicity` entries each in "
    "[1, max] summing to n; the flattened sample list, the multiplicities and the repeated circuits are built in "
    "circuit order from the same per-circuit results and returned in the documented slots; (D4) recombination draws "
    "islice(shared iterator, multiplicity) for each multiplicity in order and reduces with an accumulating, "
    "non-mutating combiner (Counter copy + every count of the second operand; list concatenation from a fresh "
    "start); (D5) scale_and_discretize floors the scaled values, hands out the rounded shortfall one unit each to "
    "distinct indices in descending order of fractional part, and a check sum(result) == total dominates the return; "
    "(D6) measurements representing a distribution: work on a deep copy, int(round(p*N)) shots per outcome, top-up / "
    "removal draws |N - current| corrections, each drawn outcome is added / removed as many times as it was drawn, "
    "removal is restricted to outcomes actually present; (D7) none of these functions writes through its arguments "
    "(effect analysis on every parameter, including plain dicts and lists). "
    "(D3i) the number of copies is computed in integer arithmetic (no rounding of a floating-point quotient); (D6c) shot Counters are only ever merged by addition (| and & take max / min)."
    " Round 4: the random draw pairs the dictionary's keys() with its values(), neither side re-ordered."
    ' Round 5: the deficit recorded by _check_sample_elimination is the whole deficit of a pass (break after one outcome, or accumulation).'
    ' Round 6: (D8) no anchored function reads the variable of a finished loop inside a later loop or comprehension.'
)
RULE_TEXT = "instances = guards, chunking/zip/aggregate sites, 960 grid points of the expansion formula, recombination comprehensions, rounding/top-up/removal sites, (function, parameter) purity pairs"
ASSUMPTIONS = [
    "declined: the 'within one of its proportional share' bound of scale_and_discretize, float ceil for astronomically large counts, and that random top-up outcomes lie in the support (sampling library behaviour)",
    "islice, zip, reduce, Counter, max and np.argsort have their documented semantics",
]

IT = "circuits._itertools"
UT = "utils"
MS = "measurements.measurements"
R1 = "C13-D1 argument-guards"
R2 = "C13-D2 batching"
R3 = "C13-D3 expansion"
R4 = "C13-D4 recombination"
R5 = "C13-D5 scale-and-discretize"
R6 = "C13-D6 representing-distribution"
R7 = "C13-D7 inputs-untouched"


def _raising_guards(fi):
    cfg = cfg_of(fi.node)
    return cfg, [g for g in cfg.nodes if g.kind == "test" and isinstance(g.ast, ast.If) and branch_raises(cfg, g, "true")]


def _sign_test(test: ast.AST, var: str) -> Optional[Tuple[bool, bool, bool]]:
    """Truth of a comparison on `var` for var = -1, 0, 1 (None if not evaluable)."""
    from .c03 import _bool_eval

    out = []
    for v in (-1, 0, 1):
        r = _bool_eval(test, {var: v})
        if r is None:
            return None
        out.append(r)
    return tuple(out)


def check_guards(ctx):
    repo = ctx.repo
    sb = repo.func(f"{IT}:split_into_batches")
    ctx.analysed(sb)
    c, s, b = positional_params(sb.node)[:3]
    cfg, guards = _raising_guards(sb)
    rets = [n for n in cfg.nodes if isinstance(n.ast, ast.Return)]
    lens = [g for g in guards if norm(g.ast.test) in (f"len({c}) != len({s})", f"len({s}) != len({c})")]
    ctx.check(bool(lens) and all(cfg.dominates(lens[0], r) for r in rets), R1, sb.key + ":length", "unequal lengths are rejected before any batch is formed", "split_into_batches no longer rejects circuits and sample counts of different length up front (zip would silently drop the tail)", sb)
    pos = [g for g in guards if _sign_test(g.ast.test, b) == (True, True, False)]
    ctx.check(bool(pos) and all(cfg.dominates(pos[0], r) for r in rets), R1, sb.key + ":batch-size", "batch size <= 0 is rejected (1 accepted)", "the non-positive batch-size rejection is missing or has the wrong boundary (0 must be rejected, 1 accepted)", sb)
    for name in ("combine_measurement_counts", "combine_bitstrings"):
        f = repo.func(f"{IT}:{name}")
        ctx.analysed(f)
        a, m = positional_params(f.node)[:2]
        cfg, guards = _raising_guards(f)
        rets = [n for n in cfg.nodes if isinstance(n.ast, ast.Return)]
        ok = False
        for g in guards:
            t = g.ast.test
            if isinstance(t, ast.Compare) and len(t.ops) == 1 and isinstance(t.ops[0], ast.NotEq):
                sides = [t.left, t.comparators[0]]
                texts = []
                for x in sides:
                    if isinstance(x, ast.NamedExpr):
                        x = x.value
                    texts.append(norm(x))
                if sorted(texts) == sorted([f"len({a})", f"sum({m})"]):
                    ok = all(cfg.dominates(g, r) for r in rets)
        if not ok:
            # the mirrored spelling: `if len(results) == sum(multiplicities): <go on> else: raise`, operands possibly through temporaries
            fd_ = Defs(f.node)

            def _res_txt(x):
                if isinstance(x, ast.NamedExpr):
                    x = x.value
                if isinstance(x, ast.Name) and isinstance(fd_.single_def(x.id), ast.AST):
                    x = fd_.single_def(x.id)
                return norm(x)

            for g in [x for x in cfg.nodes if x.kind == "test" and isinstance(x.ast, ast.If)]:
                t = g.ast.test
                if isinstance(t, ast.Compare) and len(t.ops) == 1 and sorted([_res_txt(t.left), _res_txt(t.comparators[0])]) == sorted([f"len({a})", f"sum({m})"]):
                    lab = "false" if isinstance(t.ops[0], ast.Eq) else ("true" if isinstance(t.ops[0], ast.NotEq) else None)
                    if lab and branch_raises(cfg, g, lab) and all(cfg.dominates(g, r) for r in rets):
                        ok = True
        if not ok:
            # the same guard moved into a helper of this module: a statement `helper(results, multiplicities, ...)` that dominates every
            # return, where the helper raises on every path on which len(<its 1st parameter>) differs from sum(<its 2nd parameter>)
            for n_ in cfg.nodes:
                st_ = n_.ast
                if isinstance(st_, ast.Expr) and isinstance(st_.value, ast.Call) and isinstance(st_.value.func, ast.Name) and st_.value.func.id in f.module.functions and len(st_.value.args) >= 2 and [norm(x) for x in st_.value.args[:2]] == [a, m]:
                    h = f.module.functions[st_.value.func.id]
                    hp = positional_params(h.node)
                    hd = Defs(h.node)
                    hcfg, hguards = _raising_guards(h)

                    def _txt(x):
                        if isinstance(x, ast.NamedExpr):
                            x = x.value
                        if isinstance(x, ast.Name) and isinstance(hd.single_def(x.id), ast.AST):
                            x = hd.single_def(x.id)
                        return norm(x)

                    want_ = sorted([f"len({hp[0]})", f"sum({hp[1]})"]) if len(hp) >= 2 else None
                    good = False
                    for g_ in hguards:
                        t_ = g_.ast.test
                        if isinstance(t_, ast.Compare) and len(t_.ops) == 1 and isinstance(t_.ops[0], ast.NotEq) and sorted([_txt(t_.left), _txt(t_.comparators[0])]) == want_:
                            good = True
                    # `if len == sum: return` followed by an unconditional raise
                    for t_node in [x for x in hcfg.nodes if x.kind == "test" and isinstance(x.ast, ast.If)]:
                        t_ = t_node.ast.test
                        if isinstance(t_, ast.Compare) and len(t_.ops) == 1 and isinstance(t_.ops[0], ast.Eq) and sorted([_txt(t_.left), _txt(t_.comparators[0])]) == want_ and all(isinstance(b, ast.Return) for b in t_node.ast.body) and not t_node.ast.orelse:
                            after = h.node.body[h.node.body.index(t_node.ast) + 1:] if t_node.ast in h.node.body else []
                            if after and isinstance(after[0], ast.Raise):
                                good = True
                    if good and all(cfg.dominates(n_, r) for r in rets):
                        ctx.analysed(h)
                        ok = True
        ctx.check(ok, R1, f.key, "len(results) != sum(multiplicities) is rejected before regrouping", f"{name} does not reject a result list whose length differs from sum(multiplicities) before regrouping (islice would silently return short groups)", f)


def check_batching(ctx):
    repo = ctx.repo
    ib = repo.func(f"{IT}:_iterate_in_batches")
    ctx.analysed(ib)
    items, size = positional_params(ib.node)[:2]
    d = Defs(ib.node)
    its = [nm for nm, vs in d.defs.items() if any(isinstance(v, ast.Call) and dotted(v.func) == "iter" and norm(v.args[0]) == items for v in vs)]
    whiles = [w for w in ib.node.body if isinstance(w, ast.While)]
    ok = False
    if len(its) == 1 and len(whiles) == 1:
        w = whiles[0]
        t = w.test
        if isinstance(t, ast.NamedExpr):
            chunk, v = norm(t.target), t.value
            inner = v.args[0] if isinstance(v, ast.Call) and dotted(v.func) in ("tuple", "list") and len(v.args) == 1 else v
            ok = isinstance(inner, ast.Call) and dotted(inner.func) == "islice" and [norm(x) for x in inner.args] == [its[0], size] and len(w.body) == 1 and isinstance(w.body[0], ast.Expr) and isinstance(w.body[0].value, ast.Yield) and norm(w.body[0].value.value) == chunk
    ctx.check(ok, R2, ib.key, "chunks are successive islice(it, size) of one iterator until exhausted, each yielded once", "_iterate_in_batches is not one-pass islice chunking of a single iterator: items may be skipped, repeated or re-ordered", ib)
    sb = repo.func(f"{IT}:split_into_batches")
    c, s, b = positional_params(sb.node)[:3]
    rets = returned_exprs(sb.node)
    ok = False
    detail = "return is not a generator over zipped chunks"
    if len(rets) == 1 and isinstance(rets[0], (ast.GeneratorExp, ast.ListComp)) and len(rets[0].generators) == 1:
        g = rets[0].generators[0]
        if isinstance(g.iter, ast.Call) and dotted(g.iter.func) == "zip" and len(g.iter.args) == 2 and isinstance(g.target, ast.Tuple) and len(g.target.elts) == 2 and not g.ifs:
            a0, a1 = g.iter.args
            t0, t1 = (norm(x) for x in g.target.elts)
            chunks_ok = all(isinstance(x, ast.Call) and dotted(x.func) == "_iterate_in_batches" and len(x.args) == 2 for x in (a0, a1))
            if chunks_ok:
                same_size = norm(a0.args[1]) == norm(a1.args[1]) == b
                srcs = (norm(a0.args[0]), norm(a1.args[0]))
                elt = rets[0].elt
                elt_ok = isinstance(elt, ast.Tuple) and len(elt.elts) == 2 and norm(elt.elts[0]) == (t0 if srcs[0] == c else t1)
                agg = elt.elts[1] if isinstance(elt, ast.Tuple) and len(elt.elts) == 2 else None
                samples_t = t1 if srcs[1] == s else t0
                agg_ok = isinstance(agg, ast.Call) and dotted(agg.func) == "max" and len(agg.args) == 1 and norm(agg.args[0]) == samples_t
                ok = same_size and set(srcs) == {c, s} and elt_ok and agg_ok
                detail = f"chunks of {srcs} cut with sizes ({short(a0.args[1])}, {short(a1.args[1])}), element {short(elt)}: " + ("both sequences must be cut with the same batch size" if not same_size else "the batch must be (circuit chunk, max(sample chunk))" if not (elt_ok and agg_ok) else "the two chunked sequences must be the circuits and their sample counts")
    ctx.check(ok, R2, sb.key + ":pairing", "(circuit chunk, max(sample-count chunk)) for chunks cut with the same size", detail, sb)


def _tuple_eval(e: ast.AST, env: Dict[str, int]):
    """Evaluate an extracted arithmetic/tuple expression on integers (finite-grid abstract evaluation)."""
    from .c03 import _bool_eval, _int_eval
    import math

    if isinstance(e, ast.Tuple):
        return tuple(_tuple_eval(x, env) for x in e.elts)
    if isinstance(e, ast.IfExp):
        t = _bool_eval(e.test, env)
        if t is None:
            raise ValueError("test")
        return _tuple_eval(e.body if t else e.orelse, env)
    if isinstance(e, ast.BinOp):
        l, r = _tuple_eval(e.left, env), _tuple_eval(e.right, env)
        if isinstance(e.op, ast.Add):
            return l + r
        if isinstance(e.op, ast.Sub):
            return l - r
        if isinstance(e.op, ast.Mult):
            return l * r
        if isinstance(e.op, ast.FloorDiv):
            return l // r
        if isinstance(e.op, ast.Mod):
            return l % r
        if isinstance(e.op, ast.Div):
            from fractions import Fraction

            return Fraction(l, r)
        raise ValueError("op")
    if isinstance(e, ast.Call):
        d = dotted(e.func)
        if d in ("ceil", "math.ceil") and len(e.args) == 1:
            return math.ceil(_tuple_eval(e.args[0], env))
        if d in ("floor", "math.floor", "int") and len(e.args) == 1:
            return math.floor(_tuple_eval(e.args[0], env))
        if d == "divmod" and len(e.args) == 2:
            return divmod(_tuple_eval(e.args[0], env), _tuple_eval(e.args[1], env))
        raise ValueError(f"call {d}")
    if isinstance(e, ast.Name):
        if e.id in env:
            return env[e.id]
        raise ValueError(f"name {e.id}")
    if isinstance(e, ast.Constant) and isinstance(e.value, int):
        return e.value
    if isinstance(e, ast.UnaryOp) and isinstance(e.op, ast.USub):
        return -_tuple_eval(e.operand, env)
    raise ValueError(f"expr {short(e)}")


def check_expansion(ctx):
    repo = ctx.repo
    f = repo.func(f"{IT}:_expand_sample_size")
    ctx.analysed(f)
    n, mx = positional_params(f.node)[:2]
    stmts = [s for s in f.node.body if not (isinstance(s, ast.Expr) and isinstance(s.value, ast.Constant))]
    bad = None
    undec = None
    count = 0
    for nv in range(1, 61):
        for mv in range(1, 17):
            env = {n: nv, mx: mv}
            try:
                res = None
                for s in stmts:
                    if isinstance(s, ast.Assign) and len(s.targets) == 1 and isinstance(s.targets[0], ast.Name):
                        env[s.targets[0].id] = _tuple_eval(s.value, env)
                    elif isinstance(s, ast.Assign) and isinstance(s.targets[0], ast.Tuple):
                        vals = _tuple_eval(s.value, env)
                        for t, v in zip(s.targets[0].elts, vals):
                            env[t.id] = v
                    elif isinstance(s, ast.Return):
                        res = _tuple_eval(s.value, env)
                        break
                    else:
                        raise ValueError(f"statement {short(s)}")
                if res is None:
                    raise ValueError("no return")
            except (ValueError, ZeroDivisionError, TypeError, AttributeError) as e:
                undec = f"(n={nv}, max={mv}): {e}"
                break
            count += 1
            parts, mult = res
            if not (isinstance(parts, tuple) and sum(parts) == nv and all(1 <= p <= mv for p in parts) and len(parts) == mult):
                bad = (nv, mv, parts, mult)
                break
        if bad or undec:
            break
    if undec:
        ctx.undecided(R3, f.key + ":formula", f"cannot evaluate the expansion formula on the grid {undec}", f)
    else:
        ctx.check(bad is None, R3, f.key + ":formula", f"on all {count} grid points the parts are in [1, max], sum to n and their number equals the multiplicity", f"for n={bad[0]}, max={bad[1]} the expansion gives parts {bad[2]} with multiplicity {bad[3]}: they must lie in [1, max], sum to n and be `multiplicity` many" if bad else "", f)
    ctx.extra["expansion_grid_points"] = count
    # the conservation law is about integers of any size: a true division inside ceil()/floor()/int() goes through a
    # double, which rounds for counts beyond 2**53 while the remainder `%` stays exact, so parts and multiplicity disagree
    fl = [c for c in body_walk(f.node) if isinstance(c, ast.Call) and (dotted(c.func) or "").split(".")[-1] in ("ceil", "floor", "int", "round", "trunc") and c.args and any(isinstance(x, ast.BinOp) and isinstance(x.op, ast.Div) for x in ast.walk(c.args[0]))]
    ctx.check(not fl, R3, f.key + ":integer-arithmetic", "the number of copies is computed in integer arithmetic", f"`{short(fl[0]) if fl else ''}` rounds a floating-point quotient of two integers: exact only below 2**53, e.g. expand_sample_sizes(['c'], [2**53 + 1], 2**53) returns one copy of 1 sample; use integer division (-(-n // m))", f"{f.module.relpath}:{fl[0].lineno}" if fl else f)
    e = repo.func(f"{IT}:expand_sample_sizes")
    ctx.analysed(e)
    c, s, m = positional_params(e.node)[:3]
    d = Defs(e.node)
    pairs = [nm for nm, vs in d.defs.items() if any(isinstance(v, ast.ListComp) and isinstance(v.elt, ast.Call) and dotted(v.elt.func) == "_expand_sample_size" and norm(v.generators[0].iter) == s and [norm(a) for a in v.elt.args] == [norm(v.generators[0].target), m] and not v.generators[0].ifs for v in vs)]
    if len(pairs) != 1:
        ctx.undecided(R3, e.key + ":per-circuit", "cannot find the per-circuit list of (_expand_sample_size(n, max) for n in sample counts)", e)
        return
    pr = pairs[0]
    ctx.ok(R3, e.key + ":per-circuit", "one expansion per requested count, in order, with the caller's maximum", e)
    flat = [nm for nm, vs in d.defs.items() for v in vs if isinstance(v, ast.ListComp) and len(v.generators) == 2 and norm(v.generators[0].iter) == pr and isinstance(v.generators[0].target, ast.Tuple) and norm(v.generators[1].iter) == norm(v.generators[0].target.elts[0]) and norm(v.elt) == norm(v.generators[1].target) and not v.generators[0].ifs and not v.generators[1].ifs]
    mults = [nm for nm, vs in d.defs.items() for v in vs if isinstance(v, ast.ListComp) and len(v.generators) == 1 and norm(v.generators[0].iter) == pr and isinstance(v.generators[0].target, ast.Tuple) and norm(v.elt) == norm(v.generators[0].target.elts[1]) and not v.generators[0].ifs]
    ctx.check(len(flat) == 1, R3, e.key + ":flatten", "new sample counts = the parts of every circuit, flattened in circuit order", "the expanded sample counts are not the per-circuit parts flattened in circuit order", e)
    ctx.check(len(mults) == 1, R3, e.key + ":multiplicities", "multiplicities = second component of every per-circuit result, in order", "the multiplicities are not taken, in order, from the per-circuit expansion results", e)
    reps = [nm for nm, vs in d.defs.items() for v in vs if isinstance(v, ast.ListComp) and len(v.generators) == 2 and isinstance(v.generators[0].iter, ast.Call) and dotted(v.generators[0].iter.func) == "zip" and mults and [norm(a) for a in v.generators[0].iter.args] == [c, mults[0]] and isinstance(v.generators[0].target, ast.Tuple) and norm(v.elt) == norm(v.generators[0].target.elts[0]) and norm(v.generators[1].iter) == f"range({norm(v.generators[0].target.elts[1])})"]
    ctx.check(len(reps) == 1, R3, e.key + ":repeat", "each circuit repeated multiplicity-many times, in order", "circuits are not repeated exactly multiplicity-many times in their original order", e)
    rets = returned_exprs(e.node)
    ok = len(rets) == 1 and isinstance(rets[0], ast.Tuple) and flat and mults and reps and [norm(x) for x in rets[0].elts] == [reps[0], flat[0], mults[0]]
    ctx.check(bool(ok), R3, e.key + ":slots", "returns (circuits, sample counts, multiplicities)", f"the three results are returned as {short(rets[0]) if rets else '?'}: not in the documented slots", e)


def check_recombination(ctx):
    repo = ctx.repo
    for name, reducer in (("combine_measurement_counts", "reduce"), ("combine_bitstrings", "sum")):
        f = repo.func(f"{IT}:{name}")
        ctx.analysed(f)
        a, m = positional_params(f.node)[:2]
        d = Defs(f.node)
        its = [nm for nm, vs in d.defs.items() if any(isinstance(v, ast.Call) and dotted(v.func) == "iter" and norm(v.args[0]) == a for v in vs)]
        rets = returned_exprs(f.node)
        ok = False
        detail = "result is not one group per multiplicity drawn from a shared iterator"
        if len(its) == 1 and len(rets) == 1 and isinstance(rets[0], ast.ListComp) and len(rets[0].generators) == 1:
            g = rets[0].generators[0]
            mt = norm(g.target)
            sl = [c for c in ast.walk(rets[0].elt) if isinstance(c, ast.Call) and dotted(c.func) == "islice"]
            order_ok = norm(g.iter) == m and not g.ifs
            slice_ok = len(sl) == 1 and [norm(x) for x in sl[0].args] == [its[0], mt]
            elt = rets[0].elt
            red_ok = False
            if isinstance(elt, ast.Call) and dotted(elt.func) in ("reduce", "functools.reduce") and len(elt.args) == 2 and dotted(elt.args[0]) == "_combine_measurements" and sl and elt.args[1] is sl[0]:
                red_ok = True
            if isinstance(elt, ast.Call) and dotted(elt.func) == "sum" and sl and elt.args and elt.args[0] is sl[0]:
                st = kwarg(elt, "start") or (elt.args[1] if len(elt.args) > 1 else None)
                red_ok = isinstance(st, ast.List) and not st.elts
            ok = order_ok and slice_ok and red_ok
            detail = f"groups: {short(rets[0])}: iterate multiplicities in order={order_ok}, islice(shared iterator, multiplicity)={slice_ok}, accumulating reducer from a fresh start={red_ok}"
        if detail.startswith("result is not one group") and len(rets) == 1 and isinstance(rets[0], ast.ListComp) and len(rets[0].generators) == 1 and isinstance(rets[0].generators[0].iter, ast.Call) and isinstance(rets[0].generators[0].iter.func, ast.Name) and rets[0].generators[0].iter.func.id in f.module.functions and [norm(x) for x in rets[0].generators[0].iter.args] == [a, m] and not rets[0].generators[0].ifs:
            # the grouping moved into a generator helper of this module: [reduce(.., group) for group in helper(results, multiplicities)] with
            # helper = `it = iter(p0); for k in p1: yield islice(it, k)` -- the same shared-iterator slicing, one group per multiplicity, in order
            h = f.module.functions[rets[0].generators[0].iter.func.id]
            hp = positional_params(h.node)
            hd = Defs(h.node)
            hits = [nm for nm, vs in hd.defs.items() if any(isinstance(v, ast.Call) and dotted(v.func) == "iter" and len(hp) >= 2 and norm(v.args[0]) == hp[0] for v in vs)]
            hl = [l for l in h.node.body if isinstance(l, ast.For) and len(hp) >= 2 and norm(l.iter) == hp[1]]
            good = False
            if len(hits) == 1 and len(hl) == 1 and len(hl[0].body) == 1 and isinstance(hl[0].body[0], ast.Expr) and isinstance(hl[0].body[0].value, ast.Yield):
                y = hl[0].body[0].value.value
                good = isinstance(y, ast.Call) and dotted(y.func) == "islice" and [norm(x) for x in y.args] == [hits[0], norm(hl[0].target)]
            gv = norm(rets[0].generators[0].target)
            elt = rets[0].elt
            red_ok = (isinstance(elt, ast.Call) and dotted(elt.func) in ("reduce", "functools.reduce") and len(elt.args) == 2 and dotted(elt.args[0]) == "_combine_measurements" and norm(elt.args[1]) == gv) or (isinstance(elt, ast.Call) and dotted(elt.func) == "sum" and elt.args and norm(elt.args[0]) == gv and isinstance(kwarg(elt, "start") or (elt.args[1] if len(elt.args) > 1 else None), ast.List))
            if good and red_ok:
                ctx.analysed(h)
                ctx.ok(R4, f.key, f"group k = reduction of the next multiplicity_k results of one shared iterator (sliced in {h.qualname})", f)
            else:
                ctx.undecided(R4, f.key, f"the grouping is delegated to {h.qualname}, whose shape is not the shared-iterator slicing this rule reads", f)
        else:
            ctx.check(ok, R4, f.key, "group k = reduction of the next multiplicity_k results of one shared iterator", detail, f)
    cm = repo.func(f"{IT}:_combine_measurements")
    ctx.analysed(cm)
    a, b = positional_params(cm.node)[:2]
    d = Defs(cm.node)
    accs = [nm for nm, vs in d.defs.items() if any(isinstance(v, ast.Call) and dotted(v.func) in ("Counter", "dict", "collections.Counter") and len(v.args) == 1 and norm(v.args[0]) == a for v in vs)]
    loops = [l for l in cm.node.body if isinstance(l, ast.For) and norm(l.iter) == f"{b}.items()"]
    ok = False
    if len(accs) == 1 and len(loops) == 1 and isinstance(loops[0].target, ast.Tuple):
        k, v = (norm(x) for x in loops[0].target.elts)
        adds = [s for s in loops[0].body if isinstance(s, ast.AugAssign) and isinstance(s.op, ast.Add) and norm(s.target) == f"{accs[0]}[{k}]" and norm(s.value) == v]
        rets = returned_exprs(cm.node)
        ok = len(adds) == 1 and len(loops[0].body) == 1 and len(rets) == 1 and norm(rets[0]) in (f"dict({accs[0]})", accs[0])
    ctx.check(ok, R4, cm.key, "combined = copy of the first counts + every count of the second", "_combine_measurements is not `copy of first, plus each (outcome, count) of second`: counts are lost, doubled or written into the caller's dictionary", cm)


def check_scale(ctx):
    repo = ctx.repo
    f = repo.func(f"{UT}:scale_and_discretize")
    ctx.analysed(f)
    vals, total = positional_params(f.node)[:2]
    cfg = cfg_of(f.node)
    d = Defs(f.node)
    rets = [n for n in cfg.nodes if isinstance(n.ast, ast.Return)]
    checks = []
    for n in cfg.nodes:
        if isinstance(n.ast, ast.Assert) and norm(n.ast.test) in (f"sum(result) == {total}", f"{total} == sum(result)"):
            checks.append(n)
        if n.kind == "test" and isinstance(n.ast, ast.If) and norm(n.ast.test) in (f"sum(result) != {total}", f"{total} != sum(result)") and branch_raises(cfg, n, "true"):
            checks.append(n)
    ok = bool(checks) and bool(rets) and all(cfg.dominates(checks[0], r) for r in rets)
    ctx.check(ok, R5, f.key + ":sum-check", "a check sum(result) == total dominates the return", "nothing verifies that the integers sum to the requested total before returning them", f)
    sf = [v for v in d.defs.get("scale_factor", []) if isinstance(v, ast.AST)]
    vs = [v for v in d.defs.get("value_sum", []) if isinstance(v, ast.AST)]
    ok = len(sf) == 1 and norm(sf[0]) in (f"{total} / value_sum", f"{total} / sum({vals})") and (not vs or norm(vs[0]) == f"sum({vals})")
    ctx.check(ok, R5, f.key + ":scale", "scale = total / sum(values)", f"the scale factor is {short(sf[0]) if sf else '?'}", f)
    floors = [v for v in d.defs.get("result", []) if isinstance(v, ast.ListComp) and isinstance(v.elt, ast.Call) and (dotted(v.elt.func) or "").split(".")[-1] == "floor"]
    ok = len(floors) == 1 and norm(floors[0].generators[0].iter) == vals and norm(floors[0].elt.args[0]) in (f"{norm(floors[0].generators[0].target)} * scale_factor", f"scale_factor * {norm(floors[0].generators[0].target)}")
    ctx.check(ok, R5, f.key + ":floor", "start from floor(value * scale) for every value", "the integer parts are not floor(value * scale) of every input value", f)
    order = [v for v in d.defs.get("indexes_sorted_by_remainder", []) if isinstance(v, ast.AST)]
    ok = len(order) == 1 and ((is_reverse_slice(order[0]) and isinstance(order[0].value, ast.Call) and (dotted(order[0].value.func) or "").endswith("argsort") and norm(order[0].value.args[0]) == "remainders") or norm(order[0]) in ("np.argsort(-np.array(remainders))",))
    ctx.check(ok, R5, f.key + ":largest-remainder-first", "indices ordered by descending fractional part", "the shortfall is not handed out in descending order of fractional part", f)
    rem = [v for v in d.defs.get("remainders", []) if isinstance(v, ast.ListComp)]
    ok = len(rem) == 1 and isinstance(rem[0].elt, ast.BinOp) and isinstance(rem[0].elt.op, ast.Sub) and "floor" in norm(rem[0].elt.right) and norm(rem[0].generators[0].iter) == vals
    ctx.check(ok, R5, f.key + ":remainders", "remainder = scaled value - its floor, per value", "the fractional parts are not scaled value minus floor for every value", f)
    loops = [l for l in f.node.body if isinstance(l, ast.For)]
    ok = False
    if len(loops) == 1:
        l = loops[0]
        idx = norm(l.target)
        cnt_ok = norm(l.iter) in (f"range(int(round({total} - sum(result))))", f"range(int({total} - sum(result)))", f"range(round({total} - sum(result)))")
        incs = [s for s in l.body if isinstance(s, ast.AugAssign) and isinstance(s.op, ast.Add) and norm(s.value) == "1" and norm(s.target) == f"result[indexes_sorted_by_remainder[{idx}]]"]
        ok = cnt_ok and len(incs) == 1 and len(l.body) == 1
    ctx.check(ok, R5, f.key + ":distribute", "total - sum(floors) units are handed out, one each, to the first indices of that order", "the shortfall is not distributed one unit each to distinct indices taken from the remainder order", f)


def check_counter_merges(ctx):
    """Counters of shots are multisets: merging two of them must add multiplicities (``+``, ``+=``, ``.update``);
    ``|`` / ``|=`` take the element-wise maximum and ``&`` the minimum, which loses shots whenever both sides hold
    the same outcome."""
    repo = ctx.repo
    counter_fns = set()
    for fi in repo.all_functions():
        r = fi.node.returns
        if r is not None and "Counter" in norm(r):
            counter_fns.add(fi.name)
    n = 0
    for modname in ("measurements.measurements", "circuits._itertools", "utils"):
        if modname not in repo.modules:
            continue
        for fi in repo.module(modname).functions.values():
            typed = set()
            a = fi.node.args
            for p in list(a.posonlyargs) + list(a.args) + list(a.kwonlyargs):
                if p.annotation is not None and "Counter" in norm(p.annotation):
                    typed.add(p.arg)
            def is_counter(v) -> bool:
                if isinstance(v, ast.Name):
                    return v.id in typed
                if isinstance(v, ast.Call):
                    last = (dotted(v.func) or "").split(".")[-1]
                    if last == "Counter" or last in counter_fns:
                        return True
                    if isinstance(v.func, ast.Attribute) and v.func.attr == "copy" and is_counter(v.func.value):
                        return True
                    if last in ("deepcopy", "copy") and v.args and is_counter(v.args[0]):
                        return True
                if isinstance(v, ast.BinOp) and isinstance(v.op, (ast.Add, ast.Sub, ast.BitOr, ast.BitAnd)):
                    return is_counter(v.left) or is_counter(v.right)
                return False

            for _ in range(3):
                for st in body_walk(fi.node):
                    if isinstance(st, (ast.Assign, ast.AnnAssign)) and st.value is not None:
                        tg = st.targets[0] if isinstance(st, ast.Assign) else st.target
                        if isinstance(tg, ast.Name) and is_counter(st.value):
                            typed.add(tg.id)
                        if isinstance(st, ast.AnnAssign) and isinstance(tg, ast.Name) and "Counter" in norm(st.annotation):
                            typed.add(tg.id)
            if not typed:
                continue
            for st in body_walk(fi.node):
                bad = None
                if isinstance(st, ast.AugAssign) and isinstance(st.op, (ast.BitOr, ast.BitAnd)) and isinstance(st.target, ast.Name) and st.target.id in typed:
                    bad = st
                elif isinstance(st, ast.BinOp) and isinstance(st.op, (ast.BitOr, ast.BitAnd)) and any(isinstance(x, ast.Name) and x.id in typed for x in (st.left, st.right)):
                    bad = st
                if bad is not None:
                    n += 1
                    ctx.violation(R6, f"{fi.key}:counter-merge:{short(bad, 40)}", f"`{short(bad)}` merges shot Counters with {'|' if isinstance(bad.op, ast.BitOr) else '&'}: that keeps the element-wise {'maximum' if isinstance(bad.op, ast.BitOr) else 'minimum'} instead of adding multiplicities, so shots are lost (or eliminations dropped) whenever both sides contain the same outcome", f"{fi.module.relpath}:{bad.lineno}")
            ctx.ok(R6, f"{fi.key}:counter-merge", "shot Counters are only ever merged by addition", fi)
            ctx.analysed(fi)


def check_representing(ctx):
    repo = ctx.repo
    f = repo.func(f"{MS}:Measurements.get_measurements_representing_distribution")
    ctx.analysed(f)
    dist, N = positional_params(f.node)[1:3]
    d = Defs(f.node)
    cp = [v for v in d.defs.get("distribution", []) if isinstance(v, ast.AST)]
    ok = len(cp) == 1 and isinstance(cp[0], ast.Call) and dotted(cp[0].func) in ("copy.deepcopy", "deepcopy", "dict", "copy.copy") and f"{dist}.distribution_dict" in norm(cp[0])
    ctx.check(ok, R6, f.key + ":copy", "works on a copy of the distribution's dictionary", "the caller's distribution dictionary is used directly", f)
    loops = [l for l in f.node.body if isinstance(l, ast.For) and norm(l.iter) in ("distribution", "distribution.keys()", "distribution.items()")]
    ok = False
    if len(loops) == 1:
        st = norm(loops[0].target.elts[0] if isinstance(loops[0].target, ast.Tuple) else loops[0].target)
        adds = [s for s in loops[0].body if isinstance(s, ast.AugAssign) and norm(s.target) == "bitstring_samples" and isinstance(s.value, ast.BinOp) and isinstance(s.value.op, ast.Mult)]
        if len(adds) == 1:
            import copy as _copy

            loc = {}
            for s2 in loops[0].body:
                if isinstance(s2, ast.Assign) and len(s2.targets) == 1 and isinstance(s2.targets[0], ast.Name):
                    loc.setdefault(s2.targets[0].id, []).append(s2.value)
            pv = norm(loops[0].target.elts[1]) if isinstance(loops[0].target, ast.Tuple) and len(loops[0].target.elts) == 2 and norm(loops[0].iter) == "distribution.items()" else None

            class _X(ast.NodeTransformer):  # single-definition locals of the loop body, and the value variable of an items() loop
                def visit_Name(self, n):
                    if pv is not None and n.id == pv:
                        return ast.parse(f"distribution[{st}]", mode="eval").body
                    if n.id in loc and len(loc[n.id]) == 1:
                        return self.visit(_copy.deepcopy(loc[n.id][0]))
                    return n

            mult = norm(_X().visit(_copy.deepcopy(adds[0].value.right)))
            ok = mult in (f"int(round(distribution[{st}] * {N}))", f"int(round({N} * distribution[{st}]))", f"round(distribution[{st}] * {N})")
    ctx.check(ok, R6, f.key + ":rounding", "each outcome gets int(round(p * N)) shots", "the initial allocation is not round(p * N) shots per outcome of the support", f)
    corr = [s for s in f.node.body if isinstance(s, ast.If) and norm(s.test) in (f"len(bitstring_samples) != {N}", f"{N} != len(bitstring_samples)")]
    if len(corr) != 1:
        ctx.undecided(R6, f.key + ":correction", "cannot find the `len(samples) != N` correction branch", f)
        return
    cb = corr[0]
    draws = [c for s in cb.body for c in ast.walk(s) if isinstance(c, ast.Call) and dotted(c.func) == "sample_from_probability_distribution"]
    ok = bool(draws) and norm(draws[0].args[1]) in (f"abs({N} - len(bitstring_samples))", f"abs(len(bitstring_samples) - {N})")
    ctx.check(ok, R6, f.key + ":correction-count", "|N - current| corrections are drawn", "the number of corrections drawn is not |N - current number of shots|", f)
    sub = [s for s in cb.body if isinstance(s, ast.If)]
    ok_add = ok_rem = False
    if len(sub) == 1:
        deficit_is_body = _sign_test(ast.parse(norm(sub[0].test).replace(f"{N} - len(bitstring_samples)", "DELTA"), mode="eval").body, "DELTA") == (False, False, True)
        surplus_is_body = _sign_test(ast.parse(norm(sub[0].test).replace(f"{N} - len(bitstring_samples)", "DELTA"), mode="eval").body, "DELTA") == (True, False, False)
        add_block, rem_block = (sub[0].body, sub[0].orelse) if deficit_is_body else ((sub[0].orelse, sub[0].body) if surplus_is_body else (None, None))
        if add_block is not None:
            for l in [x for x in add_block if isinstance(x, ast.For)]:
                smp = norm(l.target)
                src = norm(l.iter).replace(".keys()", "").replace(".elements()", "")
                for s in l.body:
                    if isinstance(s, ast.AugAssign) and norm(s.target) == "bitstring_samples" and isinstance(s.value, ast.BinOp) and isinstance(s.value.op, ast.Mult) and norm(s.value.right) == f"{src}[{smp}]":
                        ok_add = True
                if ".elements()" in norm(l.iter) and any(isinstance(s, (ast.AugAssign, ast.Expr)) for s in l.body):
                    ok_add = True
            for l in [x for x in rem_block if isinstance(x, ast.For)]:
                smp = norm(l.target)
                src = norm(l.iter)
                for inner in [x for x in l.body if isinstance(x, ast.For)]:
                    if norm(inner.iter) == f"range({src}[{smp}])" and any(isinstance(c, ast.Call) and norm(c.func) == "bitstring_samples.remove" for c in ast.walk(inner)):
                        ok_rem = True
            elim = [c for s in rem_block for c in ast.walk(s) if isinstance(c, ast.Call) and dotted(c.func) == "_check_sample_elimination"]
            ok_rem = ok_rem and len(elim) == 1
    ctx.check(ok_add, R6, f.key + ":top-up", "every drawn outcome is added as many times as it was drawn", "in the top-up branch a drawn outcome is not added with its own multiplicity: drawing the same outcome twice then yields fewer than N shots", f)
    ctx.check(ok_rem, R6, f.key + ":removal", "every drawn outcome is removed as many times as it was drawn, after restricting the draw to outcomes present", "in the removal branch outcomes are not removed with their own multiplicity after _check_sample_elimination restricted them to outcomes actually present", f)
    rets = returned_exprs(f.node)
    ok = len(rets) == 1 and norm(rets[0]) in ("cls(bitstring_samples)", "Measurements(bitstring_samples)")
    ctx.check(ok, R6, f.key + ":result", "the corrected shot list is what is returned", "the corrected list of shots is not what is wrapped and returned", f)


_ORDER_CHANGING = {"sorted", "reversed", "set", "frozenset", "shuffle", "permutation", "sort", "flip", "unique"}


def _order_trace(fn: ast.AST, d: Defs, e: ast.AST, depth: int = 0):
    """(source expression text, [order-changing operations met]) of a value built from a dict view through containers"""
    ops = []
    while depth < 10:
        depth += 1
        if isinstance(e, ast.Name):
            vs = [v for v in d.defs.get(e.id, []) if isinstance(v, ast.AST)]
            # `name[:] = X` fills a pre-allocated array with X, in order
            fills = [s_.value for s_ in body_walk(fn) if isinstance(s_, ast.Assign) and isinstance(s_.targets[0], ast.Subscript) and norm(s_.targets[0].value) == e.id and norm(s_.targets[0].slice) == ":"]
            if len(fills) == 1:
                e = fills[0]
                continue
            if len(vs) == 1:
                e = vs[0]
                continue
            return norm(e), ops
        if isinstance(e, ast.Call):
            last = (dotted(e.func) or "").split(".")[-1] if dotted(e.func) else (e.func.attr if isinstance(e.func, ast.Attribute) else "")
            if last in ("keys", "values") and isinstance(e.func, ast.Attribute) and not e.args:
                return norm(e), ops
            if last in _ORDER_CHANGING:
                ops.append(last)
            if e.args:
                e = e.args[0]
                continue
            return norm(e), ops
        if isinstance(e, ast.Subscript):
            if isinstance(e.slice, ast.Slice) and e.slice.step is not None:
                ops.append(f"[{norm(e.slice)}]")
            e = e.value
            continue
        return norm(e), ops
    return norm(e), ops


def check_sampling_pairs_keys_with_probabilities(ctx):
    """np.random.choice(population, n, p=weights): entry i of the population is drawn with weight i. Both come from one dictionary,
    as its keys() and its values() -- which correspond position by position only while neither side is re-ordered."""
    f = ctx.repo.func("utils:sample_from_probability_distribution")
    ctx.analysed(f)
    dist = positional_params(f.node)[0]
    d = Defs(f.node)
    calls = [c for c in body_walk(f.node) if isinstance(c, ast.Call) and (dotted(c.func) or "").split(".")[-1] == "choice"]
    if len(calls) != 1 or not calls[0].args:
        ctx.undecided(R6, f.key + ":pairing", "expected one random choice(...) call", f)
        return
    c = calls[0]
    w = next((k.value for k in c.keywords if k.arg == "p"), c.args[3] if len(c.args) > 3 else None)
    if w is None:
        ctx.violation(R6, f.key + ":pairing", "the draw does not pass the probabilities (`p=`): outcomes are drawn uniformly", f"{f.module.relpath}:{c.lineno}")
        return
    ksrc, kops = _order_trace(f.node, d, c.args[0])
    vsrc, vops = _order_trace(f.node, d, w)
    where = f"{f.module.relpath}:{c.lineno}"
    if (ksrc, vsrc) != (f"{dist}.keys()", f"{dist}.values()") and not (ksrc == dist and vsrc == f"{dist}.values()"):
        ctx.undecided(R6, f.key + ":pairing", f"population comes from {ksrc} and weights from {vsrc}: not the keys() and values() of the distribution", where)
        return
    ctx.check(not kops and not vops, R6, f.key + ":pairing", "population and weights are the dictionary's keys() and values(), neither re-ordered", f"the population is the distribution's keys through {kops or 'no re-ordering'} and the weights its values through {vops or 'no re-ordering'}: position i of one no longer belongs to position i of the other, so outcomes are drawn with each other's probabilities whenever the dictionary is not already in that order", where)


def check_elimination_deficit(ctx):
    """_check_sample_elimination trims each drawn outcome to what is present and re-draws the deficit. The number re-drawn has to be
    the *whole* deficit of the pass: either one outcome is handled per pass (`break` right after it) or the deficits are added up.
    A plain assignment inside a loop that goes on overwrites the deficit of every outcome but the last, so fewer shots are removed
    than requested and the result has more than N shots."""
    f = ctx.repo.func(f"{MS}:_check_sample_elimination")
    ctx.analysed(f)
    whiles = [w for w in body_walk(f.node) if isinstance(w, ast.While)]
    if len(whiles) != 1:
        ctx.undecided(R6, f.key + ":deficit", "expected one re-check loop", f)
        return
    names = {n.id for n in ast.walk(whiles[0].test) if isinstance(n, ast.Name)}
    loops = [l for l in ast.walk(whiles[0]) if isinstance(l, ast.For)]
    found = False
    for loop in loops:
        for iff in [x for x in ast.walk(loop) if isinstance(x, ast.If)]:
            for st in iff.body:
                if isinstance(st, ast.Assign) and isinstance(st.targets[0], ast.Name) and st.targets[0].id in names and isinstance(st.value, ast.BinOp) and isinstance(st.value.op, ast.Sub):
                    found = True
                    leaves = any(isinstance(x, ast.Break) for x in iff.body)
                    ctx.check(leaves, R6, f.key + ":deficit", "one outcome per pass: the loop is left right after its deficit was recorded", f"`{short(st)}` records the deficit of one outcome by plain assignment while the loop over the outcomes goes on: a second outcome that cannot be removed overwrites it, so only the last deficit is re-drawn and the returned counter asks for fewer removals than were requested (the caller ends up with more than N shots)", f"{f.module.relpath}:{st.lineno}")
                elif isinstance(st, ast.AugAssign) and isinstance(st.target, ast.Name) and st.target.id in names and isinstance(st.op, ast.Add):
                    found = True
                    ctx.ok(R6, f.key + ":deficit", "deficits of a pass are added up", f"{f.module.relpath}:{st.lineno}")
    if not found:
        ctx.undecided(R6, f.key + ":deficit", "cannot find where the deficit of an outcome is recorded", f)


def check_purity(ctx):
    from .c20 import effects_for

    repo = ctx.repo
    eff = effects_for(ctx)
    keys = [f"{IT}:_iterate_in_batches", f"{IT}:split_into_batches", f"{IT}:_expand_sample_size", f"{IT}:expand_sample_sizes", f"{IT}:_combine_measurements", f"{IT}:combine_measurement_counts", f"{IT}:combine_bitstrings", f"{UT}:scale_and_discretize", f"{MS}:Measurements.get_measurements_representing_distribution", f"{MS}:_check_sample_elimination"]
    allow = {(f"{MS}:_check_sample_elimination", "leftover_distribution"): "internal helper; receives a distribution built inside the caller (checked: the caller passes a freshly constructed object)"}
    for k in keys:
        fi = repo.func(k)
        ctx.analysed(fi)
        summ = eff.summary(fi)
        a = fi.node.args
        for p in [x.arg for x in list(a.posonlyargs) + list(a.args) + list(a.kwonlyargs)]:
            if p in ("self", "cls"):
                continue
            sites = [s for (pp, dd), ss in summ.mutates.items() if pp == p for s in ss if not s.memo]
            construct = f"{fi.key}({p})"
            if (k, p) in allow and sites:
                ctx.info(R7, construct, f"writes through {p}: {allow[(k, p)]}")
                continue
            if sites:
                s = sites[0]
                ctx.violation(R7, construct + f":{s.text}", f"{fi.qualname} modifies its argument '{p}': `{s.text}` at {s.where}" + (f" via {' -> '.join(s.via)}" if s.via else "") + " — the caller's per-copy results / inputs are changed, so re-using them double counts", s.where)
            else:
                ctx.ok(R7, construct, f"no write through any alias of {p}", fi)
    ctx.externals |= eff.externals_seen
    # the only caller of _check_sample_elimination hands it a fresh distribution
    f = repo.func(f"{MS}:Measurements.get_measurements_representing_distribution")
    d = Defs(f.node)
    calls = find_calls_named(f.node, ["_check_sample_elimination"])
    ok = len(calls) == 1 and isinstance(calls[0].args[2], ast.Name) and any(isinstance(v, ast.Call) and dotted(v.func) == "MeasurementOutcomeDistribution" for v in d.defs.get(calls[0].args[2].id, []))
    ctx.check(ok, R7, f.key + ":helper-argument", "the elimination helper receives a distribution constructed inside this call", "the elimination helper (which edits its distribution argument) is handed an object that is not constructed inside the call", f)


def run(ctx):
    from ..lints import check_stale_loop_variables

    check_stale_loop_variables(ctx, "C13-D8 loop-variables", ['circuits._itertools', 'measurements.measurements', 'utils', 'api.circuit_runner'])
    check_guards(ctx)
    check_batching(ctx)
    check_expansion(ctx)
    check_recombination(ctx)
    check_scale(ctx)
    check_representing(ctx)
    check_sampling_pairs_keys_with_probabilities(ctx)
    check_elimination_deficit(ctx)
    check_purity(ctx)
    ctx.floor("C13-D1", 4)
    ctx.floor("C13-D2", 2)
    ctx.floor("C13-D3", 6)
    ctx.floor("C13-D4", 3)
    ctx.floor("C13-D5", 6)
    check_counter_merges(ctx)
    ctx.floor("C13-D6", 8)
    ctx.floor("C13-D7", 15)
