"""C14 — runners validate requests, deliver enough shots and count their work correctly."""
from __future__ import annotations

import ast
from typing import Dict, List, Optional, Set, Tuple

from ..astutil import arg_or_kw, body_walk, const_value, dotted, is_const, norm, positional_params, short, walk_local
from ..cfg import cfg_of, own_parts
from ..common import returned_exprs
from ..flow import Defs
from ..records import check_pair
from ..schema import WDict, writer_shape, shape_keys

EXPLANATION = (
    "For every class derived from BaseCircuitRunner under src (enumerated from the class hierarchy): (D1) in each "
    "public entry point every execution call is dominated by guards that raise ValueError and whose abstract "
    "evaluation on the sample count is true for -1 and 0 and false for +1 (single), resp. a length-mismatch guard "
    "and an any-non-positive guard (batch), or the entry point delegates to another entry point passing the sample "
    "argument through unchanged; (D2) no write to an executed-counter can be followed on any CFG path by a "
    "rejecting guard or by a delegated entry-point call; (D3) counters are only ever set to 0 in __init__ or "
    "increased by a positive literal / len(...), only inside runner classes, never in _run_and_measure hooks of "
    "BaseCircuitRunner subclasses that inherit the counting entry point; (D4) the base entry point bumps both "
    "counters once after the hook returns; the simulator bumps jobs once per segment and circuits on the native "
    "branch only; the default batch hook runs the circuits pairwise in order; (D5) the tracking wrapper returns the "
    "very object the wrapped runner returned and builds its record (counts, shot number, serialised circuit) from "
    "that same measurement/circuit pair, appended before saving. "
    "Entry points are resolved as defined or inherited: a simulator that drops its own run_and_measure inherits the base runner's counting, which is reported."
    ' Round 4: a batch handed over to the single-circuit entry point is dominated by the length guard.'
    ' Round 5: the segments counted as jobs are the non-empty consecutive runs of split_circuit (C01-D1).'
    ' Round 6: (D6) stale loop variables.'
)
RULE_TEXT = "instances = (class, entry point, execution call) triples, counter writes, guard tests, tracker return/record fields; distinct by (rule, construct)"
ASSUMPTIONS = [
    "declined: that _run_and_measure implementations return at least n shots of register length (depends on code outside the base classes)",
    "guards are evaluated abstractly on the integers {-1, 0, 1} only through comparisons (a finite set of orderings)",
]

R1 = "C14-D1 validate-before-execute"
R2 = "C14-D2 no-effect-before-rejection"
R3 = "C14-D3 monotone-counters"
R4 = "C14-D4 counting-discipline"
R5 = "C14-D5 tracker-pass-through"

ENTRY_POINTS = ("run_and_measure", "run_batch_and_measure", "get_measurement_outcome_distribution")
RAW_EXEC = ("_run_and_measure", "_run_batch_and_measure", "get_wavefunction")
COUNTERS = ("_n_circuits_executed", "_n_jobs_executed")
BASE = "api.circuit_runner:BaseCircuitRunner"


def runner_classes(repo):
    base = repo.cls(BASE)
    out = [base] + [c for c in repo.subclasses(base) if not c.module.name.startswith("testing")]
    return out


def eval_test(test: ast.AST, var: str, value) -> Optional[bool]:
    """Evaluate a guard over the integers with ``var`` bound to ``value``; None = unknown."""
    if isinstance(test, ast.BoolOp):
        vals = [eval_test(v, var, value) for v in test.values]
        if isinstance(test.op, ast.Or):
            if any(v is True for v in vals):
                return True
            return None if any(v is None for v in vals) else False
        if any(v is False for v in vals):
            return False
        return None if any(v is None for v in vals) else True
    if isinstance(test, ast.UnaryOp) and isinstance(test.op, ast.Not):
        v = eval_test(test.operand, var, value)
        return None if v is None else not v
    if isinstance(test, ast.Compare) and len(test.ops) == 1:
        def val(e):
            if isinstance(e, ast.Name) and e.id == var:
                return value
            try:
                v = const_value(e)
                return v if isinstance(v, (int, float)) else None
            except ValueError:
                return None

        a, b = val(test.left), val(test.comparators[0])
        if a is None or b is None:
            return None
        op = test.ops[0]
        return {ast.Lt: a < b, ast.LtE: a <= b, ast.Gt: a > b, ast.GtE: a >= b, ast.Eq: a == b, ast.NotEq: a != b}.get(type(op))
    return None


def rejects_nonpositive(test: ast.AST, var: str) -> bool:
    return eval_test(test, var, -1) is True and eval_test(test, var, 0) is True and eval_test(test, var, 1) is False


def any_nonpositive_guard(test: ast.AST, seq: str) -> bool:
    # a disjunction raises as soon as one disjunct holds: one disjunct being the any-guard is enough
    if isinstance(test, ast.BoolOp) and isinstance(test.op, ast.Or):
        return any(_any_nonpositive_guard(v, seq) for v in test.values)
    return _any_nonpositive_guard(test, seq)


def _any_nonpositive_guard(test: ast.AST, seq: str) -> bool:
    """``any(n <= 0 for n in seq)`` (or an equivalent not all(n > 0 ...))."""
    neg = False
    t = test
    if isinstance(t, ast.UnaryOp) and isinstance(t.op, ast.Not):
        neg, t = True, t.operand
    if not (isinstance(t, ast.Call) and dotted(t.func) in ("any", "all") and len(t.args) == 1 and isinstance(t.args[0], (ast.GeneratorExp, ast.ListComp))):
        return False
    g = t.args[0]
    if len(g.generators) != 1 or norm(g.generators[0].iter) != seq or not isinstance(g.generators[0].target, ast.Name) or g.generators[0].ifs:
        return False
    v = g.generators[0].target.id
    if dotted(t.func) == "any" and not neg:
        return rejects_nonpositive(g.elt, v)
    if dotted(t.func) == "all" and neg:
        return eval_test(g.elt, v, -1) is False and eval_test(g.elt, v, 0) is False and eval_test(g.elt, v, 1) is True
    return False


def guard_nodes(cfg, pred) -> List:
    """Test nodes whose true edge raises ValueError and whose test satisfies pred."""
    out = []
    for n in cfg.nodes:
        if n.kind == "test" and isinstance(n.ast, ast.If) and pred(n.ast.test):
            tg = [x for x, lab in n.succ if lab == "true"]
            if tg and all(isinstance(x.ast, ast.Raise) and (dotted(x.ast.exc.func) if isinstance(x.ast.exc, ast.Call) else dotted(x.ast.exc)) == "ValueError" for x in tg):
                out.append(n)
    return out


def calls_in_node(n) -> List[ast.Call]:
    out = []
    for part in own_parts(n):
        out.extend(c for c in walk_local(part) if isinstance(c, ast.Call))
    return out


def classify_call(c: ast.Call) -> Optional[Tuple[str, str]]:
    """('entry'|'raw', method name) for calls on self / self.inner_backend."""
    f = c.func
    if not isinstance(f, ast.Attribute):
        return None
    recv = norm(f.value)
    if recv not in ("self", "self.inner_backend", "super()"):
        return None
    if f.attr in ENTRY_POINTS:
        return ("entry", f.attr)
    if f.attr in RAW_EXEC and recv in ("self", "super()"):
        return ("raw", f.attr)
    if recv == "self.inner_backend":
        return ("raw", f.attr)
    return None


def check_entry_point(ctx, ci, m):
    cfg = cfg_of(m.node)
    ps = positional_params(m.node)
    construct = f"{m.key}"
    ctx.analysed(m)
    if len(ps) < 3:
        ctx.undecided(R1, construct, "entry point without (circuit(s), n_samples) parameters", m)
        return
    sample = ps[2]
    d = Defs(m.node)
    execs = []
    for n in cfg.nodes:
        if n.ast is None:
            continue
        for c in calls_in_node(n):
            k = classify_call(c)
            if k is not None:
                execs.append((n, c, k))
    if not execs:
        ctx.undecided(R1, construct, "no execution or delegation call found in the entry point", m)
        return
    single_guards = guard_nodes(cfg, lambda t: rejects_nonpositive(t, sample))
    none_tests = [n for n in cfg.nodes if n.kind == "test" and isinstance(n.ast, ast.If) and norm(n.ast.test) in (f"{sample} is None", f"{sample} is not None")]
    for n, c, (kind, name) in execs:
        where = f"{m.module.relpath}:{c.lineno}"
        cons = f"{construct}:{short(c.func, 50)}"
        if kind == "entry":
            # delegation: the sample argument is passed through unchanged
            sarg = arg_or_kw(c, 1, "n_samples")
            passed = isinstance(sarg, ast.Name) and (sarg.id == sample or sample in d.atoms(sarg))
            if m.name == "run_batch_and_measure" or name == "run_batch_and_measure":
                passed = sarg is not None and sample in d.atoms(sarg) | {getattr(sarg, "id", "")}
            ctx.check(bool(passed), R1, cons, f"delegates to {name} passing the sample count through (validated there)", f"delegates to {name} but passes {short(sarg)} instead of the caller's sample count: the caller's value escapes validation", where)
            if m.name == "run_batch_and_measure" and name != "run_batch_and_measure":
                # a batch handed to the single-circuit entry point: that one validates one number only, so the batch contract
                # ("a sequence must have one entry per circuit") has to be checked before the hand-over
                circ = ps[1]
                lg = guard_nodes(cfg, lambda t: isinstance(t, ast.Compare) and isinstance(t.ops[0], ast.NotEq) and f"len({circ})" in (norm(t.left), norm(t.comparators[0])) and all(isinstance(x, ast.Call) and dotted(x.func) == "len" for x in (t.left, t.comparators[0])))
                ctx.check(any(cfg.dominates(g, n) for g in lg), R1, cons + ":length-guard", "the length-mismatch guard dominates the hand-over to the single-circuit entry point", f"the batch is handed to {name} (which validates a single count) on a path the length check does not dominate: a sequence with the wrong number of entries is accepted (or fails with IndexError) instead of raising ValueError", where)
            continue
        # raw execution
        if m.name == "get_measurement_outcome_distribution" and none_tests:
            # exact branch: reachable only when the sample count is None
            nt = none_tests[0]
            lab = "true" if norm(nt.ast.test).endswith("is None") else "false"
            if cfg.edge_dominates(nt, lab, n):
                ctx.ok(R1, cons, "exact-distribution branch: no sample count to validate", where)
                continue
        if m.name == "run_batch_and_measure":
            seq_arg = arg_or_kw(c, 1, "samples_per_circuit") if name == "_run_batch_and_measure" else arg_or_kw(c, 1, "n_samples")
            seq = norm(seq_arg) if seq_arg is not None else None
            circ = ps[1]
            len_guards = guard_nodes(cfg, lambda t: isinstance(t, ast.Compare) and isinstance(t.ops[0], ast.NotEq) and {norm(t.left), norm(t.comparators[0])} == {f"len({seq})", f"len({circ})"})
            any_guards = guard_nodes(cfg, lambda t: seq is not None and any_nonpositive_guard(t, seq))
            ok_len = any(cfg.dominates(g, n) for g in len_guards)
            ok_any = any(cfg.dominates(g, n) for g in any_guards)
            ctx.check(ok_len, R1, cons + ":length-guard", "a length-mismatch guard raising ValueError dominates execution", f"the batch is executed without a dominating check that {seq} has one entry per circuit", where)
            ctx.check(ok_any, R1, cons + ":positivity-guard", "an any-non-positive guard raising ValueError dominates execution", f"the batch is executed without a dominating check that every entry of {seq} is positive (for every form of n_samples): a bad entry is discovered only after earlier circuits ran", where)
            # an integer count is broadcast to len(batch) entries, so for an *empty* batch the any-guard above is vacuous:
            # the documented "ValueError for integral n_samples if it is not positive" then needs a guard on the scalar itself
            if ci.key == BASE:
                def _scalar_guard(t) -> bool:
                    parts = t.values if isinstance(t, ast.BoolOp) else [t]
                    for prt in parts:
                        sub = prt.values if isinstance(prt, ast.BoolOp) else [prt]
                        if any(isinstance(x, ast.Compare) and norm(x.left) == sample and rejects_nonpositive(x, sample) for x in sub):
                            return True
                    return False
                scalar_guards = guard_nodes(cfg, _scalar_guard)
                ok_scalar = any(cfg.dominates(g, n) for g in scalar_guards)
                ctx.check(ok_scalar, R1, cons + ":scalar-guard", "a non-positive integer count is rejected whatever the batch length", f"an integer `{sample}` is only checked through its broadcast copy `len(batch) * [{sample}]`: for an empty batch that list is empty, so run_batch_and_measure([], 0) and ([], -3) return [] instead of raising ValueError", where)
            # the per-circuit list derives from n_samples for both forms
            if seq_arg is not None and isinstance(seq_arg, ast.Name):
                sdef = d.single_def(seq_arg.id)
                ok_norm = isinstance(sdef, ast.IfExp) and "isinstance" in norm(sdef.test) and sample in norm(sdef.test) and (norm(sdef.orelse) == sample or norm(sdef.body) == sample)
                rep = sdef.body if ok_norm and norm(sdef.orelse) == sample else (sdef.orelse if ok_norm else None)
                ok_rep = rep is not None and isinstance(rep, ast.BinOp) and isinstance(rep.op, ast.Mult) and f"len({circ})" in (norm(rep.left), norm(rep.right)) and f"[{sample}]" in (norm(rep.left), norm(rep.right))
                ctx.check(ok_norm and ok_rep, R1, cons + ":broadcast", "an integer sample count is broadcast to one entry per circuit", f"per-circuit sample list {short(sdef)} does not broadcast an integer count to len(circuits) entries / pass a sequence through", where)
            continue
        ok = any(cfg.dominates(g, n) for g in single_guards)
        ctx.check(ok, R1, cons, f"dominated by a guard that rejects {sample} <= 0 with ValueError", f"{name} can be reached with a non-positive {sample}: no dominating guard that is true for -1 and 0 and false for 1 and raises ValueError", where)
    if m.name == "get_measurement_outcome_distribution" and ci.key == BASE:
        nt = [n for n in none_tests if norm(n.ast.test).endswith("is None")]
        ok = bool(nt) and all(isinstance(x.ast, ast.Raise) for x, lab in nt[0].succ if lab == "true")
        ctx.check(ok, R1, construct + ":none-refused", "the base runner refuses n_samples=None", "the base runner does not refuse n_samples=None", m)


def counter_writes(func_node) -> List[Tuple[ast.AST, str]]:
    out = []
    for n in body_walk(func_node):
        tgt = None
        if isinstance(n, ast.Assign):
            for t in n.targets:
                if isinstance(t, ast.Attribute) and t.attr in COUNTERS:
                    out.append((n, t.attr))
        elif isinstance(n, (ast.AugAssign, ast.AnnAssign)) and isinstance(n.target, ast.Attribute) and n.target.attr in COUNTERS:
            out.append((n, n.target.attr))
        elif isinstance(n, ast.Call) and dotted(n.func) in ("setattr", "object.__setattr__") and len(n.args) >= 2 and isinstance(n.args[1], ast.Constant) and n.args[1].value in COUNTERS:
            out.append((n, n.args[1].value))
    return out


def check_no_effect_before_rejection(ctx, classes):
    for ci in classes:
        for m in ci.methods.values():
            writes = counter_writes(m.node)
            if not writes or m.name == "__init__":
                continue
            ctx.analysed(m)
            cfg = cfg_of(m.node)
            rejecting = []
            for n in cfg.nodes:
                if n.ast is None:
                    continue
                if n.kind == "stmt" and isinstance(n.ast, ast.Raise):
                    rejecting.append((n, "raise"))
                for c in calls_in_node(n):
                    k = classify_call(c)
                    if k is not None and k[0] == "entry":
                        rejecting.append((n, f"delegated {k[1]} (may still reject)"))
            for w, attr in writes:
                wn = cfg.containing_node(w)
                where = f"{m.module.relpath}:{w.lineno}"
                cons = f"{m.key}:{attr}"
                bad = [(r, why) for r, why in rejecting if wn is not None and cfg.reaches(wn, r, labels_excluded=("exc",))]
                # an inner-runner *raw* call that validates (tracker): inner_backend.<entry>
                if bad:
                    r, why = bad[0]
                    ctx.violation(R2, cons, f"{attr} is changed at line {w.lineno} and a {why} at line {r.lineno} can still follow: a rejected call leaves the counters changed", where)
                else:
                    ctx.ok(R2, cons, "no rejecting guard or delegated entry-point call can follow this counter write", where)


def check_monotone(ctx, classes):
    repo = ctx.repo
    runner_keys = {c.key for c in classes}
    n = 0
    for fi in repo.all_functions():
        if fi.module.name.startswith("testing") or fi.module.name.endswith("_contracts") or fi.module.name.endswith("_contract"):
            continue
        for w, attr in counter_writes(fi.node):
            n += 1
            where = f"{fi.module.relpath}:{w.lineno}"
            cons = f"{fi.key}:{attr}:{short(w, 60)}"
            in_runner = fi.cls is not None and (fi.cls.key in runner_keys)
            if not in_runner:
                ctx.violation(R3, cons, f"{attr} is written outside the runner classes ({fi.qualname})", where)
                continue
            if isinstance(w, ast.Assign):
                ok = fi.name == "__init__" and is_const(w.value, 0)
                ctx.check(ok, R3, cons, "initialised to 0 in __init__", f"{attr} is assigned {short(w.value)} in {fi.qualname}: counters may only be set to 0 at construction", where)
            elif isinstance(w, ast.AugAssign):
                v = w.value
                pos = False
                try:
                    pos = const_value(v) > 0 and isinstance(const_value(v), int)
                except ValueError:
                    pos = isinstance(v, ast.Call) and dotted(v.func) == "len" and len(v.args) == 1
                if not pos and isinstance(v, ast.Name) and v.id in positional_params(fi.node):
                    # the amount is a parameter of a counting helper: every caller must pass a positive literal / len(...)
                    idx = positional_params(fi.node).index(v.id) - (1 if positional_params(fi.node)[0] in ("self", "cls") else 0)
                    sites = [c for g in repo.all_functions() for c in body_walk(g.node) if isinstance(c, ast.Call) and ((isinstance(c.func, ast.Attribute) and c.func.attr == fi.name) or (isinstance(c.func, ast.Name) and c.func.id == fi.name))]
                    def _amount_ok(a):
                        if a is None:
                            return False
                        try:
                            cv = const_value(a)
                            return isinstance(cv, int) and not isinstance(cv, bool) and cv > 0
                        except ValueError:
                            return isinstance(a, ast.Call) and dotted(a.func) == "len" and len(a.args) == 1
                    inlined_everywhere = not sites and any(q.split(".")[-1] == fi.name for q in repo.canon_inlined.get(fi.module.name, []))
                    pos = inlined_everywhere or (bool(sites) and all(_amount_ok(arg_or_kw(c, idx, v.id)) for c in sites))
                ok = isinstance(w.op, ast.Add) and pos
                ctx.check(ok, R3, cons, "increased by a positive literal / len(...)", f"{attr} is updated by `{short(w)}`: not an increase by a positive literal or len(...), so it can decrease or miscount", where)
            else:
                ctx.violation(R3, cons, f"{attr} written through {short(w)}", where)
            if fi.name == "_run_and_measure" and fi.cls is not None:
                inherits_counting = "run_and_measure" not in fi.cls.methods
                if inherits_counting:
                    ctx.violation(R3, cons + ":hook", f"{fi.qualname} updates {attr} although the inherited run_and_measure already counts the call (base-class contract): double counting", where)
    return n


def check_counting(ctx):
    repo = ctx.repo
    m = repo.func(f"{BASE}.run_and_measure")
    ctx.analysed(m)
    cfg = cfg_of(m.node)
    hook = [n for n in cfg.nodes if n.ast is not None and any(classify_call(c) == ("raw", "_run_and_measure") for c in calls_in_node(n))]
    for attr in COUNTERS:
        ws = [w for w, a in counter_writes(m.node) if a == attr]
        ok = len(ws) == 1 and isinstance(ws[0], ast.AugAssign) and is_const(ws[0].value, 1)
        after = False
        once = False
        if ok and hook:
            wn = cfg.containing_node(ws[0])
            after = cfg.dominates(hook[0], wn) and not cfg.reaches(wn, hook[0])
            once = not cfg.reaches(wn, wn)
        ctx.check(ok and after and once, R4, f"{m.key}:{attr}", "bumped by exactly 1, once, after _run_and_measure returned", f"{attr} is not bumped by exactly one after the hook returned (writes: {[short(w) for w in ws]})", m)
    # result returned is the hook's result
    rets = returned_exprs(m.node)
    d = Defs(m.node)
    ok_ret = len(rets) == 1 and "call:_run_and_measure" in d.atoms(rets[0])
    ctx.check(ok_ret, R4, f"{m.key}:return", "returns what the hook returned", "run_and_measure does not return the hook's result", m)
    # default batch hook: pairwise, in order
    b = repo.func(f"{BASE}._run_batch_and_measure")
    ctx.analysed(b)
    rets = returned_exprs(b.node)
    ps = positional_params(b.node)
    ok_b = False
    if len(rets) == 1 and isinstance(rets[0], ast.ListComp) and len(rets[0].generators) == 1:
        g = rets[0].generators[0]
        e = rets[0].elt
        if isinstance(g.iter, ast.Call) and dotted(g.iter.func) == "zip" and [norm(a) for a in g.iter.args] == ps[1:3] and isinstance(g.target, ast.Tuple) and isinstance(e, ast.Call) and norm(e.func) == "self.run_and_measure":
            ok_b = [norm(a) for a in e.args] == [norm(x) for x in g.target.elts] and not g.ifs
    ctx.check(ok_b, R4, b.key, "[self.run_and_measure(c, n) for c, n in zip(batch, samples)]", "the default batch hook does not run circuit i with sample count i, in order, one result per circuit", b)
    # simulator counting
    s = repo.func("api.wavefunction_simulator:BaseWavefunctionSimulator.get_wavefunction")
    ctx.analysed(s)
    loops = [l for l in body_walk(s.node) if isinstance(l, ast.For) and "split_circuit" in norm(l.iter)]
    if len(loops) != 1:
        ctx.undecided(R4, s.key, "expected one loop over split_circuit", s)
        return
    loop = loops[0]
    flag = loop.target.elts[0].id if isinstance(loop.target, ast.Tuple) and isinstance(loop.target.elts[0], ast.Name) else None
    jobs = [w for w, a in counter_writes(s.node) if a == "_n_jobs_executed"]
    circs = [w for w, a in counter_writes(s.node) if a == "_n_circuits_executed"]
    ok_jobs = len(jobs) == 1 and jobs[0] in loop.body and is_const(jobs[0].value, 1)
    ctx.check(ok_jobs, R4, f"{s.key}:_n_jobs_executed", "one job per segment (unconditional statement of the segment loop)", "the jobs counter is not bumped exactly once for every native or non-native segment", s)
    ok_c = False
    if len(circs) == 1 and is_const(circs[0].value, 1):
        for st in loop.body:
            if isinstance(st, ast.If) and norm(st.test) == flag and circs[0] in st.body:
                ok_c = True
    ctx.check(ok_c, R4, f"{s.key}:_n_circuits_executed", "one circuit per native segment only", "the circuits counter is not bumped exactly once per native segment (and not for non-native ones)", s)
    # simulator entry point returns hook result without counting itself
    SIM = "api.wavefunction_simulator:BaseWavefunctionSimulator"
    if repo.has_func(f"{SIM}.run_and_measure"):
        sm = repo.func(f"{SIM}.run_and_measure")
        ctx.check(not counter_writes(sm.node), R4, f"{sm.key}:no-double-count", "the simulator's entry point leaves counting to get_wavefunction", "the simulator's run_and_measure counts in addition to get_wavefunction (double counting)", sm)
    else:
        # the simulator inherits BaseCircuitRunner.run_and_measure, which bumps both counters once per call: then nothing
        # its hook reaches may count as well, and the per-segment accounting of get_wavefunction is lost for sampling
        hook = repo.func(f"{SIM}._run_and_measure")
        ci = hook.cls
        reached = []
        for c in body_walk(hook.node):
            if isinstance(c, ast.Call) and isinstance(c.func, ast.Attribute) and norm(c.func.value) == "self" and ci is not None:
                t = repo.find_method(ci, c.func.attr)
                if t is not None and counter_writes(t.node):
                    reached.append(t.qualname)
        ctx.check(False, R4, f"{SIM}.run_and_measure:no-double-count", "", f"BaseWavefunctionSimulator no longer defines run_and_measure: the inherited entry point counts one job and one circuit per call, so sampling is not counted per executed segment any more (hook reaches counting code: {reached or 'none'})", hook)


def check_tracker(ctx):
    repo = ctx.repo
    T = "runners.trackers:MeasurementTrackingBackend"
    for name, inner in (("_run_and_measure", "run_and_measure"), ("run_batch_and_measure", "run_batch_and_measure"), ("get_measurement_outcome_distribution", "get_measurement_outcome_distribution")):
        m = repo.func(f"{T}.{name}")
        ctx.analysed(m)
        d = Defs(m.node)
        rets = returned_exprs(m.node)
        calls = [c for c in body_walk(m.node) if isinstance(c, ast.Call) and norm(c.func) == f"self.inner_backend.{inner}"]
        ok = False
        var = None
        if len(calls) == 1 and len(rets) == 1 and isinstance(rets[0], ast.Name):
            var = rets[0].id
            defs = d.defs.get(var, [])
            ok = len(defs) == 1 and defs[0] is calls[0]
        elif len(calls) == 1 and len(rets) == 1 and rets[0] is calls[0]:
            ok = True
        ctx.check(ok, R5, f"{m.key}:return", "returns the very object the wrapped runner returned", f"{m.qualname} does not return, un-reassigned, the object produced by self.inner_backend.{inner}(...)", m)
        if calls:
            ps = positional_params(m.node)
            fwd = [norm(a) for a in calls[0].args] == ps[1:3]
            ctx.check(fwd, R5, f"{m.key}:forward", "forwards (circuit(s), n_samples) unchanged", f"{short(calls[0])} does not forward the caller's arguments unchanged", m)
        # record before save
        cfg = cfg_of(m.node)
        recs = [n for n in cfg.nodes if n.ast is not None and any(norm(c.func) in ("self.record_raw_measurement_data", "self.raw_data.append") for c in calls_in_node(n))]
        saves = [n for n in cfg.nodes if n.ast is not None and any(norm(c.func) == "self.save_raw_data" for c in calls_in_node(n))]
        ok_order = bool(recs) and bool(saves) and all(cfg.dominates(r, s) or cfg.reaches(r, s) for r in recs for s in saves) and not any(cfg.reaches(s, r) for r in recs for s in saves)
        ctx.check(ok_order, R5, f"{m.key}:record-then-save", "record appended before the file is written", "the record is not appended before save_raw_data writes the file", m)
        # the recorded pair is the (circuit, measurement) pair of this call
        for c in body_walk(m.node):
            if isinstance(c, ast.Call) and norm(c.func) == "self.record_raw_measurement_data":
                a0, a1 = (c.args + [None, None])[:2]
                if name == "_run_and_measure":
                    okp = norm(a0) == positional_params(m.node)[1] and norm(a1) == var
                else:
                    loops = [l for l in body_walk(m.node) if isinstance(l, ast.For) and any(x is c for x in ast.walk(l))]
                    okp = False
                    if loops and isinstance(loops[0].iter, ast.Call) and dotted(loops[0].iter.func) == "zip" and isinstance(loops[0].target, ast.Tuple):
                        zargs = [norm(a) for a in loops[0].iter.args]
                        targ = [norm(e) for e in loops[0].target.elts]
                        okp = zargs == [positional_params(m.node)[1], var] and [norm(a0), norm(a1)] == targ
                ctx.check(okp, R5, f"{m.key}:record-pair", "record built from this call's circuit and its own measurement", f"{short(c)} does not pair each circuit with the measurement returned for it", m)
    rec = repo.func(f"{T}.record_raw_measurement_data")
    ctx.analysed(rec)
    shape = writer_shape(repo, _shim(rec))
    want = {"counts": "measurement.get_counts()", "number_of_shots": "len(measurement.bitstrings)", "circuit": "to_dict(circuit)"}
    lit = [n for n in body_walk(rec.node) if isinstance(n, ast.Dict)]
    fields = {}
    for dct in lit:
        for k, v in zip(dct.keys, dct.values):
            if isinstance(k, ast.Constant):
                fields[k.value] = norm(v)
    for k, v in want.items():
        ctx.check(fields.get(k) == v, R5, f"{rec.key}:{k}", f"{k} = {v}", f"record field {k} is {fields.get(k)}, not {v}: the file no longer matches what was returned", rec)
    app = [c for c in body_walk(rec.node) if isinstance(c, ast.Call) and norm(c.func) == "self.raw_data.append"]
    ctx.check(len(app) == 1, R5, f"{rec.key}:append", "record appended to raw_data", "the record is not appended to self.raw_data", rec)
    dist = repo.func(f"{T}.get_measurement_outcome_distribution")
    lit = [n for n in body_walk(dist.node) if isinstance(n, ast.Dict)]
    fields = {}
    for dct in lit:
        for k, v in zip(dct.keys, dct.values):
            if isinstance(k, ast.Constant):
                fields[k.value] = norm(v)
    ctx.check(fields.get("circuit") == "to_dict(circuit)" and fields.get("distribution") == "repr(distribution)" and fields.get("number_of_shots") == positional_params(dist.node)[2], R5, f"{dist.key}:record", "distribution record matches the returned object", f"distribution record fields {fields} do not match the returned distribution / requested shots", dist)
    sv = repo.func(f"{T}.save_raw_data")
    ok_sv = any(isinstance(n, ast.Dict) and any(isinstance(k, ast.Constant) and k.value == "raw-data" and norm(v) == "self.raw_data" for k, v in zip(n.keys, n.values)) for n in body_walk(sv.node))
    ctx.check(ok_sv, R5, sv.key, "writes {'raw-data': self.raw_data}", "save_raw_data does not write the pending records", sv)


def _shim(fi):
    return fi


def run(ctx):
    from ..lints import check_stale_loop_variables

    check_stale_loop_variables(ctx, "C14-D6 loop-variables", ['api.circuit_runner', 'api.wavefunction_simulator', 'runners.trackers', 'runners.symbolic_simulator', 'circuits._itertools'])
    repo = ctx.repo
    classes = runner_classes(repo)
    ctx.extra["runner_classes"] = [c.key for c in classes]
    if len(classes) < 4:
        ctx.undecided(R1, "runner-classes", f"expected BaseCircuitRunner + >=3 subclasses, found {[c.name for c in classes]}", "")
    for ci in classes:
        for name in ENTRY_POINTS:
            if name in ci.methods:
                check_entry_point(ctx, ci, ci.methods[name])
    # hooks that execute on an inner runner (tracker): treated as delegations
    for ci in classes:
        hook = ci.methods.get("_run_and_measure")
        if hook is not None and any(isinstance(c, ast.Call) and "inner_backend" in norm(c.func) for c in body_walk(hook.node)):
            ctx.analysed(hook)
            ps = positional_params(hook.node)
            for c in body_walk(hook.node):
                if isinstance(c, ast.Call) and norm(c.func).startswith("self.inner_backend."):
                    sarg = arg_or_kw(c, 1, "n_samples")
                    ctx.check(c.func.attr in ENTRY_POINTS and norm(sarg) == ps[2], R1, f"{hook.key}:{short(c.func, 50)}", "the wrapped runner's validating entry point receives the sample count unchanged", f"{short(c)} bypasses the wrapped runner's validation or alters the sample count", hook)
    check_no_effect_before_rejection(ctx, classes)
    check_monotone(ctx, classes)
    check_counting(ctx)
    check_tracker(ctx)
    # one job per *segment*: the segments are the consecutive runs split_circuit hands out, each holding at least one operation
    # (decided once, by C01-D1)
    from ..common import share_rule
    from . import c01

    share_rule(ctx, "C01", c01.check_split_circuit, "C14-D4 counting-discipline")
    ctx.floor("C14-D1", 9)
    ctx.floor("C14-D2", 6)
    ctx.floor("C14-D3", 8)
    ctx.floor("C14-D4", 7)
    ctx.floor("C14-D5", 14)
